"""Common runner: tiers, fan-out, known-findings protocol, evidence and replay files.

Every property module in mc.props exposes

    run(cfg) -> Report

where cfg is a Cfg (tier, seed, jobs, replay).  The runner turns the Report into
  * /verif/evidence/<id>.json                       (rewritten on every run)
  * KNOWN-FINDING / VIOLATION lines on stdout
  * /verif/replays/<id>/<sha1>.json                  (one per new violation, capped)
  * exit status 0 (held / only known findings), 1 (violation), 2 (harness error).
"""
import argparse
import concurrent.futures as cf
import contextlib
import hashlib
import importlib
import json
import multiprocessing
import os
import random
import shutil
import signal
import sys
import time
import traceback

VERIF = os.path.dirname(os.path.dirname(os.path.abspath(__file__)))

PROPS = {
    'C01': 'mc.props.c01_verbs',
    'C02': 'mc.props.c02_adverbs',
    'C03': 'mc.props.c03_apply',
    'C04': 'mc.props.c04_history',
    'C05': 'mc.props.c05_compiler',
    'C06': 'mc.props.c06_grad',
    'C07': 'mc.props.c07_gradpure',
    'C08': 'mc.props.c08_backends',
    'C09': 'mc.props.c09_interop',
    'C10': 'mc.props.c10_dict',
    'C11': 'mc.props.c11_roundtrip',
    'C12': 'mc.props.c12_parse',
    'C13': 'mc.props.c13_ipc_eval',
    'C14': 'mc.props.c14_ipc_calls',
    'C15': 'mc.props.c15_timer',
    'C16': 'mc.props.c16_store',
    'C17': 'mc.props.c17_crash',
    'C18': 'mc.props.c18_filecache',
    'C19': 'mc.props.c19_table',
    'C20': 'mc.props.c20_web',
}

MAX_REPLAYS = 20          # replay files / VIOLATION lines written per run (all violations are counted)


class HarnessError(Exception):
    """The machinery itself is wrong (divergent replay, oracle self-check failed...). Exit 2, never a verdict."""


class CaseTimeout(BaseException):
    """Raised inside a worker by the per-case watchdog (BaseException: `except Exception` must not swallow it)."""


class Cfg:
    def __init__(self, pid, tier, seed, jobs, replay=None):
        self.pid, self.tier, self.seed, self.jobs, self.replay = pid, tier, seed, jobs, replay
        self.quick = tier == 'quick'

    def pick(self, quick, thorough):
        return quick if self.quick else thorough


class Report:
    def __init__(self, pid, level):
        self.pid = pid
        self.level = level
        self.coverage = {}
        self.assumptions = []
        self.violations = []          # dicts: key, observed, expected, case, snippet, group
        self._seen = set()
        self.notes = []

    def violation(self, key, observed, expected=None, case=None, snippet=None, group=None):
        k = (key, observed)
        if k in self._seen:
            return
        self._seen.add(k)
        self.violations.append(dict(key=key, observed=observed, expected=expected, case=case,
                                    snippet=snippet, group=group))

    def extend_violations(self, vs):
        for v in vs:
            self.violation(v['key'], v['observed'], v.get('expected'), v.get('case'), v.get('snippet'), v.get('group'))


# ---------------------------------------------------------------------------------------------
# scratch space

_SCRATCH = None


def scratch_dir():
    global _SCRATCH
    if _SCRATCH is None:
        base = '/dev/shm' if os.path.isdir('/dev/shm') and os.access('/dev/shm', os.W_OK) else os.path.join(VERIF, '.scratch')
        _SCRATCH = os.path.join(base, 'klongpy-verif.%d' % os.getpid())
        os.makedirs(_SCRATCH, exist_ok=True)
    return _SCRATCH


def _cleanup_scratch():
    if _SCRATCH and os.path.isdir(_SCRATCH) and _SCRATCH.endswith('.%d' % os.getpid()):
        shutil.rmtree(_SCRATCH, ignore_errors=True)


# ---------------------------------------------------------------------------------------------
# per-case watchdog (worker side) and fan-out (parent side)

def _alarm(signum, frame):
    raise CaseTimeout()


@contextlib.contextmanager
def watchdog(seconds, wall=None):
    """Abort the enclosed case with CaseTimeout after `seconds` of CPU time of this process (ITIMER_PROF: a loaded
    machine must not turn a slow case into a "did not terminate" verdict) or after `wall` seconds of wall-clock time
    (default 20 x seconds + 60: the backstop for a case that blocks without using CPU).  Main thread only."""
    old_a = signal.signal(signal.SIGALRM, _alarm)
    old_p = signal.signal(signal.SIGPROF, _alarm)
    signal.setitimer(signal.ITIMER_REAL, wall if wall is not None else 20 * seconds + 60)
    signal.setitimer(signal.ITIMER_PROF, seconds)
    try:
        yield
    finally:
        signal.setitimer(signal.ITIMER_PROF, 0)
        signal.setitimer(signal.ITIMER_REAL, 0)
        signal.signal(signal.SIGPROF, old_p)
        signal.signal(signal.SIGALRM, old_a)


def _chunks(items, n):
    for i in range(0, len(items), n):
        yield items[i:i + n]


_FN = None      # set in the parent before the workers are forked; closures need no pickling this way


_LIMITED = False


def _limit_memory():
    """Address-space limit of a forked worker (default 12 GB, VERIF_WORKER_GB=0 disables): a case that allocates without
    bound on a changed tree must end in a MemoryError inside its watchdog (a verdict about the case), not in the kernel
    killing the worker (a harness error about nothing)."""
    global _LIMITED
    if _LIMITED:
        return
    _LIMITED = True
    try:
        import resource
        gb = float(os.environ.get('VERIF_WORKER_GB', '12'))
        if gb > 0:
            soft, hard = resource.getrlimit(resource.RLIMIT_AS)
            lim = int(gb * (1 << 30))
            if hard != resource.RLIM_INFINITY:
                lim = min(lim, hard)
            resource.setrlimit(resource.RLIMIT_AS, (lim, hard))
    except (ImportError, ValueError, OSError):
        pass


def _run_chunk(chunk):
    _limit_memory()
    return _FN(chunk)


def _pin_init(counter, cores):
    """Pin each worker (and thereby all threads it creates) to one core: baton hand-offs between the threads of an
    execution then never cross cores, which is ~8x faster under load."""
    with counter.get_lock():
        i = counter.value
        counter.value += 1
    try:
        os.sched_setaffinity(0, {cores[i % len(cores)]})
    except (AttributeError, OSError):
        pass


def pmap(fn, items, cfg, chunk=None, deadline_s=3600, pin=False, inline_below=0):
    """Apply fn(list_of_items) -> partial_result over all items on cfg.jobs forked workers; yields partial results.

    The *set* of items is fixed by the caller; cfg.seed only permutes the order in which chunks are handed out.
    A worker that dies or the whole map exceeding deadline_s is a HarnessError (per-case hangs are the callee's
    business: wrap each case in runner.watchdog and report it as a violation)."""
    items = list(items)
    if not items:
        return
    jobs = max(1, cfg.jobs)
    if chunk is None:
        chunk = max(1, min(2000, len(items) // (jobs * 8) or 1))
    chunks = list(_chunks(items, chunk))
    random.Random(cfg.seed).shuffle(chunks)
    if inline_below >= 0 and (jobs == 1 or len(chunks) == 1 or len(items) <= inline_below):     # -1: always fork
        for c in chunks:
            yield fn(c)
        return
    global _FN
    _FN = fn
    import gc
    gc.collect()
    gc.freeze()          # keep the collector of every forked worker off the inherited heap (copy-on-write storms)
    ctx = multiprocessing.get_context('fork')
    kw = {}
    # Pinning helps thread hand-offs (E2) on an idle machine only; on a loaded one pinned workers of concurrent checks pile
    # up on the same cores and starve, so it is skipped then.
    if pin and hasattr(os, 'sched_getaffinity') and os.getloadavg()[0] < 0.4 * (os.cpu_count() or 1):
        kw = {'initializer': _pin_init, 'initargs': (ctx.Value('i', 0), sorted(os.sched_getaffinity(0)))}
    with cf.ProcessPoolExecutor(max_workers=min(jobs, len(chunks)), mp_context=ctx, **kw) as ex:
        futs = [ex.submit(_run_chunk, c) for c in chunks]
        try:
            for f in cf.as_completed(futs, timeout=deadline_s):
                yield f.result()
        except cf.TimeoutError:
            for p in list(getattr(ex, '_processes', {}).values()):
                p.kill()
            raise HarnessError('fan-out exceeded %ss' % deadline_s)


def merge_counts(total, part):
    """Merge a partial result dict into total: ints/floats add, sets union, lists extend (only `samples` is capped, at 2000), dicts recurse."""
    for k, v in part.items():
        if isinstance(v, bool):
            total[k] = total.get(k, False) or v
        elif isinstance(v, (int, float)):
            total[k] = total.get(k, 0) + v
        elif isinstance(v, set):
            total.setdefault(k, set()).update(v)
        elif isinstance(v, list):
            cur = total.setdefault(k, [])
            if k != 'samples':              # never capped: which ones survive a cap would depend on completion order
                cur.extend(v)
            elif len(cur) < 2000:
                cur.extend(v[:2000 - len(cur)])
        elif isinstance(v, dict):
            merge_counts(total.setdefault(k, {}), v)
        else:
            total[k] = v
    return total


# ---------------------------------------------------------------------------------------------
# known findings

def load_known(pid):
    path = os.path.join(VERIF, 'known_findings.json')
    if not os.path.exists(path):
        return []
    with open(path) as f:
        data = json.load(f)
    out = []
    for e in data.get('entries', []):
        if e.get('property') != pid or e.get('status') != 'known':
            continue
        if 'cases' in e:                      # compact form: one group, many [key, observed] pairs
            for k, o in e['cases']:
                out.append(dict(e, key=k, observed=o))
        else:
            out.append(e)
    return out


def split_known(pid, violations):
    known = {}
    for e in load_known(pid):
        known[(e['key'], e.get('observed'))] = e
    new, matched = [], []
    for v in violations:
        e = known.get((v['key'], v['observed']))
        if e is None:
            new.append(v)
        else:
            matched.append((v, e))
    return new, matched


# ---------------------------------------------------------------------------------------------
# evidence

def validate_evidence(ev):
    """Small structural validator mirroring EVIDENCE.schema.json (jsonschema is not installed in /venv)."""
    for k in ('property_id', 'tier', 'seed', 'level', 'coverage', 'wall_s'):
        assert k in ev, 'evidence: missing ' + k
    assert ev['tier'] in ('quick', 'thorough')
    assert isinstance(ev['seed'], int) and isinstance(ev['wall_s'], (int, float))
    cov = ev['coverage']
    lvl = ev['level']
    generic = all(k in cov for k in ('evaluations', 'distinct_nontrivial', 'rule', 'samples'))
    if lvl in ('exploration', 'fault_enumeration'):
        assert generic, 'evidence: generic keys missing'
        assert cov['evaluations'] >= 1 and cov['distinct_nontrivial'] >= 2 and len(cov['samples']) >= 1
    elif lvl == 'model_checking':
        if all(k in cov for k in ('states', 'transitions', 'traces_validated_against_impl', 'samples')):
            assert cov['states'] >= 1 and cov['transitions'] >= 1 and len(cov['samples']) >= 1
            assert cov['traces_validated_against_impl'] >= 0
        else:
            assert cov.get('evaluations', 0) >= 1 and cov.get('distinct_nontrivial', 0) >= 2
    else:
        raise AssertionError('evidence: unexpected level ' + lvl)
    json.dumps(ev)
    return True


def write_evidence(report, cfg, wall, n_new, n_known, klongpy_file):
    cov = dict(report.coverage)
    if 'samples' in cov:
        cov['samples'] = cov['samples'][:12]
    ev = {
        'property_id': report.pid,
        'tier': cfg.tier,
        'seed': cfg.seed,
        'level': report.level,
        'coverage': cov,
        'assumptions': list(report.assumptions),
        'wall_s': round(wall, 3),
        'violations': n_new,
        'known_findings_seen': n_known,
        'klongpy_file': klongpy_file,
        'jobs': cfg.jobs,
    }
    validate_evidence(ev)
    evdir = os.path.join(VERIF, 'evidence')
    if os.path.realpath(os.environ.get('VERIF_REPO', '/repo')) != '/repo':
        evdir = os.path.join(scratch_dir(), 'evidence-other-tree')      # mutation waves never touch committed evidence
    os.makedirs(evdir, exist_ok=True)
    path = os.path.join(evdir, report.pid + '.json')
    tmp = path + '.tmp.%d' % os.getpid()
    with open(tmp, 'w') as f:
        json.dump(ev, f, indent=1, sort_keys=True, default=str)
        f.write('\n')
    os.replace(tmp, path)
    return path


def write_replay(pid, v):
    d = os.path.join(VERIF, 'replays', pid)
    if os.path.realpath(os.environ.get('VERIF_REPO', '/repo')) != '/repo':
        d = os.path.join('/dev/shm', 'klongpy-verif-replays-other-tree', pid)
    os.makedirs(d, exist_ok=True)
    h = hashlib.sha1((v['key'] + '\x00' + str(v['observed'])).encode('utf8', 'replace')).hexdigest()[:16]
    path = os.path.join(d, h + '.json')
    with open(path, 'w') as f:
        json.dump({'property': pid, 'key': v['key'], 'observed': v['observed'], 'expected': v.get('expected'),
                   'case': v.get('case'), 'python_snippet': v.get('snippet'), 'group': v.get('group'),
                   'how_to_replay': 'cd /verif && ./check %s --replay %s' % (pid, path)},
                  f, indent=1, default=str)
        f.write('\n')
    return path


# ---------------------------------------------------------------------------------------------

def main(argv=None):
    ap = argparse.ArgumentParser()
    ap.add_argument('pid', nargs='?')
    ap.add_argument('--tier', default=None)
    ap.add_argument('--seed', type=int, default=None)
    ap.add_argument('--jobs', type=int, default=None)
    ap.add_argument('--replay', default=None)
    ap.add_argument('--selftest', action='store_true')
    ap.add_argument('--dump-violations', default=None, help='write every violation of this run as JSON (triage aid)')
    a = ap.parse_args(argv)
    if a.selftest:
        from mc import selftest
        return selftest.main()
    if a.pid not in PROPS:
        print('unknown property', a.pid, file=sys.stderr)
        return 2
    tier = os.environ.get('VERIF_TIER') or a.tier or 'quick'
    if tier not in ('quick', 'thorough'):
        tier = 'quick'
    seed = a.seed if a.seed is not None else int(os.environ.get('VERIF_SEED', '0') or 0)
    jobs = a.jobs or int(os.environ.get('VERIF_JOBS', '0') or 0) or min(16, os.cpu_count() or 1)
    cfg = Cfg(a.pid, tier, seed, jobs, a.replay)
    import atexit
    atexit.register(_cleanup_scratch)
    t0 = time.time()
    try:
        import klongpy
        kfile = os.path.abspath(klongpy.__file__)
        mod = importlib.import_module(PROPS[a.pid])
        if a.replay:
            return mod.replay(cfg, a.replay)
        report = mod.run(cfg)
    except HarnessError as e:
        print('HARNESS-ERROR property=%s %s' % (a.pid, e))
        traceback.print_exc()
        return 2
    except Exception:
        print('HARNESS-ERROR property=%s unexpected exception' % a.pid)
        traceback.print_exc()
        return 2
    wall = time.time() - t0
    if a.dump_violations:
        with open(a.dump_violations, 'w') as f:
            json.dump(report.violations, f, indent=1, default=str)
    report.violations.sort(key=lambda v: (v['key'], str(v['observed'])))       # deterministic whatever the fan-out did
    new, matched = split_known(a.pid, report.violations)
    printed = set()
    for v, e in matched:
        line = 'KNOWN-FINDING: property=%s %s -> %s' % (a.pid, v['key'], v['observed'])
        if line not in printed:
            printed.add(line)
            print(line)
    write_evidence(report, cfg, wall, len(new), len(matched), kfile)
    cov = report.coverage
    summary = ' '.join('%s=%s' % (k, cov[k]) for k in ('states', 'transitions', 'traces_validated_against_impl',
                                                          'evaluations', 'distinct_nontrivial', 'distinct_outcomes',
                                                          'bound_completed', 'exhaustive') if k in cov)
    print('%s tier=%s seed=%d wall=%.1fs %s known=%d new=%d' % (a.pid, tier, seed, wall, summary, len(matched), len(new)))
    for n in report.notes:
        print('note:', n)
    if new:
        for v in new[:MAX_REPLAYS]:
            path = write_replay(a.pid, v)
            print('VIOLATION property=%s replay=%s' % (a.pid, path))
            print('   key: %s\n   observed: %s\n   expected: %s' % (v['key'], v['observed'], v.get('expected')))
        if len(new) > MAX_REPLAYS:
            print('(%d further violations not written out)' % (len(new) - MAX_REPLAYS))
        return 1
    return 0


if __name__ == '__main__':
    sys.exit(main())

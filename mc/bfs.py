"""E1: layered explicit-state search over the real transition function.

A state is the history that reaches it (live interpreters / caches / tables do not deep-copy).  The property module
supplies

    expand(hist) -> {'succ': [(op, key), ...],       # one entry per enabled operation that leads to a state
                     'transitions': n,               # operations executed on real code (incl. reads)
                     'violations': [...], ...}        # anything else is merged with runner.merge_counts

`key` is the canonical, property-relevant form of the successor (hashable) or None for "do not continue from here"
(e.g. after a violation).  Successors with equal keys are merged; the representative history of a state is the
smallest one in sorted order, so the explored set does not depend on the seed or on worker scheduling.
With merge=False every history is its own state (used where the property *is* "history does not matter").
"""
from . import runner


def search(expand, cfg, max_depth, init_hist=(), init_key='<init>', merge=True, max_states=None, chunk=None, inline_below=6):
    seen = {init_key}
    frontier = [tuple(init_hist)]
    total = {'transitions': 0}
    depth_done = 0
    layers = [1]
    capped = False
    for depth in range(1, max_depth + 1):
        if not frontier:
            break

        def work(hists):
            out = {'succ': [], 'transitions': 0}
            for h in hists:
                r = expand(h)
                succ = r.pop('succ', [])
                out['succ'].extend((h + (op,), key) for op, key in succ)
                runner.merge_counts(out, r)
            return out

        nxt = {}
        for part in runner.pmap(work, frontier, cfg, chunk=chunk, inline_below=inline_below):
            succ = part.pop('succ')
            runner.merge_counts(total, part)
            for h, key in succ:
                if key is None:
                    continue
                if not merge:
                    nxt[h] = h
                    continue
                if key in seen:
                    continue
                cur = nxt.get(key)
                if cur is None or h < cur:
                    nxt[key] = h
        depth_done = depth
        if merge:
            seen.update(nxt.keys())
        frontier = sorted(nxt.values())
        layers.append(len(frontier))
        if max_states is not None and sum(layers) > max_states:
            capped = True
            break
    total['states'] = sum(layers)
    total['layers'] = layers
    total['max_depth'] = depth_done
    total['unexpanded_frontier'] = len(frontier) if depth_done == max_depth or capped else 0
    total['capped'] = capped
    return total

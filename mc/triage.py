"""Triage aid (never used by a check): fold a --dump-violations file into known_findings.json as one group.

    python -m mc.triage add C10 dump.json --group NAME --desc TEXT [--match REGEX] [--replace]
    python -m mc.triage fixed C15 <commit> "what failed"
"""
import argparse
import json
import os
import re
import sys

PATH = os.path.join(os.path.dirname(os.path.dirname(os.path.abspath(__file__))), 'known_findings.json')


def load():
    if os.path.exists(PATH):
        with open(PATH) as f:
            return json.load(f)
    return {'version': 1, 'entries': []}


def save(d):
    with open(PATH, 'w') as f:
        f.write('{"version": 1, "entries": [\n')
        for i, e in enumerate(d['entries']):
            cases = e.pop('cases', None)
            head = json.dumps(e, ensure_ascii=False)
            if cases is None:
                f.write(' ' + head)
            else:
                f.write(' ' + head[:-1] + ', "cases": [\n')
                f.write(',\n'.join('   ' + json.dumps(c, ensure_ascii=False) for c in cases))
                f.write('\n ]}')
                e['cases'] = cases
            f.write(',\n' if i + 1 < len(d['entries']) else '\n')
        f.write(']}\n')


def main():
    ap = argparse.ArgumentParser()
    sub = ap.add_subparsers(dest='cmd')
    a = sub.add_parser('add')
    a.add_argument('pid'); a.add_argument('dump'); a.add_argument('--group', required=True)
    a.add_argument('--desc', required=True); a.add_argument('--match', default=None)
    a.add_argument('--replace', action='store_true')
    b = sub.add_parser('fixed')
    b.add_argument('pid'); b.add_argument('commit'); b.add_argument('what')
    args = ap.parse_args()
    d = load()
    if args.cmd == 'fixed':
        d['entries'].append({'status': 'fixed', 'property': args.pid, 'commit': args.commit, 'description': args.what,
                             'line': 'fixed: property=%s %s %s' % (args.pid, args.commit, args.what)})
        save(d)
        return
    with open(args.dump) as f:
        vs = json.load(f)
    rx = re.compile(args.match) if args.match else None
    cases = sorted({(v['key'], v['observed']) for v in vs if rx is None or rx.search(v['key'])})
    ent = None
    for e in d['entries']:
        if e.get('status') == 'known' and e.get('property') == args.pid and e.get('group') == args.group:
            ent = e
    if ent is None:
        ent = {'status': 'known', 'property': args.pid, 'group': args.group, 'description': args.desc, 'cases': []}
        d['entries'].append(ent)
    ent['description'] = args.desc
    old = set() if args.replace else {tuple(c) for c in ent['cases']}
    ent['cases'] = [list(c) for c in sorted(old | set(cases))]
    save(d)
    print('group %s: %d cases (%d from this dump)' % (args.group, len(ent['cases']), len(cases)))


if __name__ == '__main__':
    sys.exit(main())

"""E2: controlled scheduler for real threads (stateless, preemption-bounded exploration).

Every logical thread is a real Python thread that owns a semaphore; exactly one runs at any time.  The running thread
calls point() before every synchronisation operation (lock acquire, task submission, future wait, file-system call,
unsynchronised access to a monitored field); the scheduler then decides who continues, replaying a given choice prefix
and taking choice 0 afterwards.  Choice indices refer to the *canonical order* of the enabled threads: the running
thread first if it is still enabled, then ascending thread ids.  Choosing index > 0 while the running thread is enabled
costs one preemption.

Blocking is visible: block_until(pred) disables the thread until pred() holds.  "No thread enabled, some unfinished"
is the DEADLOCK verdict; more than `horizon` points in one execution is the LIVELOCK verdict.  In both cases every
unfinished thread is woken with Abort (a BaseException) so that no real thread outlives its execution.
"""
import threading


class Abort(BaseException):
    pass


class Diverged(Exception):
    """A replayed prefix asked for a choice that does not exist: the harness does not own all nondeterminism."""


class _Carrier:
    """A real thread that carries one logical thread after another (thread creation is the dominant cost otherwise)."""

    def __init__(self):
        self.job = threading.Semaphore(0)
        self.done = threading.Semaphore(0)
        self.task = None
        self.thread = threading.Thread(target=self._loop, daemon=True)
        self.thread.start()

    def _loop(self):
        while True:
            self.job.acquire()
            s, t = self.task
            try:
                s._body(t)
            finally:
                self.task = None
                self.done.release()


_POOL = {'pid': None, 'idle': []}


def _get_carrier():
    import os
    if _POOL['pid'] != os.getpid():         # threads do not survive fork
        _POOL['pid'] = os.getpid()
        _POOL['idle'] = []
    return _POOL['idle'].pop() if _POOL['idle'] else _Carrier()


class LThread:
    __slots__ = ('tid', 'name', 'fn', 'sem', 'state', 'pred', 'label', 'thread', 'result', 'exc', 'steps')

    def __init__(self, tid, name, fn):
        self.tid, self.name, self.fn = tid, name, fn
        self.sem = threading.Semaphore(0)
        self.state = 'ready'
        self.pred = None
        self.label = 'start'
        self.thread = None
        self.result = None
        self.exc = None
        self.steps = 0


class Sched:
    def __init__(self, prefix=(), horizon=4000, state_fn=None):
        self.prefix = list(prefix)
        self.horizon = horizon
        self.trace = []            # choice taken at every point
        self.points = []           # (number of enabled threads, running thread still enabled?)
        self.labels = []           # (tid chosen, label) per point: human-readable schedule
        self.threads = []
        self.current = None
        self.verdict = None        # None | 'deadlock' | 'livelock'
        self.verdict_detail = None
        self.aborting = False
        self.finished = False
        self._main = threading.Semaphore(0)
        self._by_ident = {}
        self.state_fn = state_fn
        self.fingerprints = set()

    # -- thread management ------------------------------------------------------------------
    def spawn(self, fn, name=None):
        t = LThread(len(self.threads), name or 't%d' % len(self.threads), fn)
        self.threads.append(t)
        c = _get_carrier()
        t.thread = c
        c.task = (self, t)
        c.job.release()
        return t

    def me(self):
        return self._by_ident.get(threading.get_ident())

    def _body(self, t):
        self._by_ident[threading.get_ident()] = t
        t.sem.acquire()
        try:
            if self.aborting:
                raise Abort()
            t.result = t.fn()
        except Abort:
            t.exc = 'aborted'
        except BaseException as e:      # noqa: BLE001 - recorded, never propagated to the real thread machinery
            t.exc = e
        t.state = 'done'
        if self.aborting:
            return
        try:
            nxt = self._pick(None)
        except BaseException as e:      # noqa: BLE001
            self.verdict = 'harness'
            self.verdict_detail = e
            self._abort()
            return
        if nxt is not None:
            self.current = nxt
            nxt.sem.release()

    def run(self):
        """Called by the harness thread after spawning the initial threads."""
        try:
            nxt = self._pick(None)
        except Diverged as e:
            self.verdict = 'harness'
            self.verdict_detail = e
            self._abort()
            nxt = None
        if nxt is not None:
            self.current = nxt
            nxt.sem.release()
            self._main.acquire()
        for t in self.threads:
            if not t.thread.done.acquire(timeout=20):
                raise RuntimeError('logical thread %s did not terminate' % t.name)
            _POOL['idle'].append(t.thread)
        self.finished = True
        self._by_ident.clear()
        if self.verdict == 'harness':
            raise self.verdict_detail
        return self

    # -- scheduling points ------------------------------------------------------------------
    def _enabled(self, t):
        if t.state == 'ready':
            return True
        if t.state == 'blocked':
            return bool(t.pred())
        return False

    def _pick(self, me):
        i = len(self.trace)
        if i >= self.horizon:
            self.verdict = 'livelock'
            self.verdict_detail = 'more than %d scheduling points' % self.horizon
            self._abort()
            return None
        en = []
        cur_en = me is not None and self._enabled(me)
        if cur_en:
            en.append(me)
        for t in self.threads:
            if t is not me and self._enabled(t):
                en.append(t)
        if not en:
            if all(t.state == 'done' for t in self.threads):
                self._main.release()
                return None
            self.verdict = 'deadlock'
            self.verdict_detail = ['%s waits at %s' % (t.name, t.label) for t in self.threads if t.state != 'done']
            self._abort()
            return None
        c = self.prefix[i] if i < len(self.prefix) else 0
        if c >= len(en):
            self.verdict = 'harness'
            self.verdict_detail = Diverged('point %d: choice %d of %d enabled (%s)' % (i, c, len(en), [t.name for t in en]))
            self._abort()
            return None
        self.trace.append(c)
        self.points.append((len(en), cur_en))
        nxt = en[c]
        self.labels.append((nxt.tid, nxt.label))
        if self.state_fn is not None:
            try:
                self.fingerprints.add(hash((self.state_fn(), tuple((t.state, t.label, t.steps) for t in self.threads))))
            except Exception:       # noqa: BLE001 - fingerprints are statistics only
                pass
        return nxt

    def _abort(self):
        self.aborting = True
        me = self.me()
        for t in self.threads:
            if t.state != 'done' and t is not me:
                t.sem.release()
        self._main.release()

    def point(self, label='.'):
        if self.finished:                   # a left-over object of a finished execution (finaliser, stale tracer)
            return
        me = self.me()
        if me is None:                      # called from the harness thread outside an execution: no-op
            return
        if self.aborting:
            raise Abort()
        me.label = label
        me.steps += 1
        nxt = self._pick(me)
        if nxt is None:
            raise Abort()
        if nxt is me:
            return
        self.current = nxt
        nxt.sem.release()
        me.sem.acquire()
        if self.aborting:
            raise Abort()

    def block_until(self, pred, label='wait'):
        if self.finished:
            return
        me = self.me()
        if me is None:
            if not pred():
                raise RuntimeError('harness thread would block at ' + label)
            return
        if self.aborting:
            raise Abort()
        me.state = 'blocked'
        me.pred = pred
        me.label = label
        me.steps += 1
        nxt = self._pick(me)
        if nxt is None:
            me.state = 'ready'
            raise Abort()
        if nxt is not me:
            self.current = nxt
            nxt.sem.release()
            me.sem.acquire()
        me.state = 'ready'
        me.pred = None
        if self.aborting:
            raise Abort()

    # -- bookkeeping for the explorer -----------------------------------------------------------
    def preemptions(self):
        return sum(1 for c, (n, cur) in zip(self.trace, self.points) if cur and c != 0)


# ---------------------------------------------------------------------------------------------
# synchronisation objects built on the scheduler

class SLock:
    """Replacement for threading.Lock (context manager, acquire/release/locked)."""

    def __init__(self, sched, name='lock'):
        self.s = sched
        self.name = name
        self.owner = None

    def acquire(self, blocking=True, timeout=-1):
        s = self.s
        me = s.me()
        s.point('acquire ' + self.name)
        if self.owner is not None:
            if not blocking:
                return False
            s.block_until(lambda: self.owner is None, 'blocked on ' + self.name)
        self.owner = me.tid if me is not None else -1
        return True

    def release(self):
        if self.owner is None:
            raise RuntimeError('release unlocked lock')
        self.owner = None

    def locked(self):
        return self.owner is not None

    def held_by_me(self):
        me = self.s.me()
        return self.owner is not None and self.owner == (me.tid if me is not None else -1)

    def __enter__(self):
        self.acquire()
        return self

    def __exit__(self, *a):
        self.release()
        return False


class SFuture:
    def __init__(self, sched, name):
        self.s = sched
        self.name = name
        self._done = False
        self._result = None
        self._exc = None

    def done(self):
        self.s.point('done? ' + self.name)
        return self._done

    def result(self, timeout=None):
        self.s.point('result ' + self.name)
        if not self._done:
            self.s.block_until(lambda: self._done, 'waiting for ' + self.name)
        if self._exc is not None:
            raise self._exc
        return self._result

    def exception(self, timeout=None):
        self.s.point('exception ' + self.name)
        if not self._done:
            self.s.block_until(lambda: self._done, 'waiting for ' + self.name)
        return self._exc

    def cancel(self):
        return False


class SExecutor:
    """Replacement for ThreadPoolExecutor: every submitted task is a logical thread of its own."""

    def __init__(self, sched):
        self.s = sched
        self.n = 0

    def submit(self, fn, *args, **kwargs):
        s = self.s
        s.point('submit')
        self.n += 1
        name = 'task%d:%s' % (self.n, getattr(fn, '__name__', 'fn'))
        fut = SFuture(s, name)

        def body():
            try:
                fut._result = fn(*args, **kwargs)
            except Abort:
                raise
            except BaseException as e:      # noqa: BLE001
                fut._exc = e
            # the function has returned (and released whatever it held); the future is published as done in a separate
            # step of the worker thread, and other threads can run in between and still see done() == False
            s.point('task returned, future not yet done')
            fut._done = True

        s.spawn(body, name)
        return fut

    def shutdown(self, wait=True, **kw):
        return None


# ---------------------------------------------------------------------------------------------
# exploration

def _alternatives(s, start, bound):
    """Alternatives of a finished execution at points >= start: list of (cost, prefix)."""
    out = []
    pre = 0
    for i, (cnt, cur) in enumerate(s.points):
        c = s.trace[i]
        if i >= start:
            cost = pre + (1 if cur else 0)       # every alternative to choice 0 preempts the running thread iff it is enabled
            if cost <= bound:
                for alt in range(1, cnt):
                    out.append((cost, s.trace[:i] + [alt]))
        if cur and c != 0:
            pre += 1
    return out


def explore(run_once, bound, roots=None, max_execs=None):
    """Enumerate every schedule with at most `bound` preemptions below the given root prefixes (default: the empty
    prefix, i.e. everything), fewest preemptions first.  run_once(prefix) -> finished Sched.  Yields each Sched once.
    Beyond a replayed prefix the default choice 0 ("keep running the current thread") is taken, so a schedule is
    identified by the positions and values of its non-zero choices and is generated exactly once."""
    levels = [[] for _ in range(max(bound, 0) + 1)]      # bound -1: run the roots only, generate nothing
    for p in (roots if roots is not None else [[]]):
        levels[0].append(list(p))
    n = 0
    while True:
        lvl = next((q for q in levels if q), None)
        if lvl is None:
            return
        prefix = lvl.pop()
        x = run_once(prefix)                # a Sched, or a harness object with a .sched attribute
        s = getattr(x, 'sched', x)
        if s.trace[:len(prefix)] != prefix:
            raise Diverged('replayed prefix %r became %r' % (prefix, s.trace[:len(prefix)]))
        n += 1
        yield x
        for cost, alt in _alternatives(s, len(prefix), bound):
            levels[cost].append(alt)
        if max_execs is not None and n >= max_execs:
            return


def split_root(run_once, bound):
    """Run the default schedule and return (its Sched, the alternative prefixes directly below it) for fan-out."""
    s = run_once([])
    return s, [alt for cost, alt in _alternatives(s, 0, bound)]

"""E3: virtual-time asyncio event loop and deviation-bounded exploration of environment answers.

VLoop is a stock asyncio BaseEventLoop whose clock is a harness variable and which is never run by run_forever():
the harness pops `_ready` handles and `_scheduled` timer handles by hand, so it decides *when* a due timer is
dispatched and in which order callbacks run.  Stock Task / Future / StreamReader / call_later work on it unchanged.
"""
import asyncio
import heapq
from asyncio import base_events, events


class VLoop(base_events.BaseEventLoop):
    def __init__(self, start=0.0, resolution=1e-9):
        super().__init__()
        self._vtime = float(start)
        self._clock_resolution = resolution
        self.errors = []
        self.set_exception_handler(self._collect)

    def _collect(self, loop, context):
        self.errors.append(context)

    def time(self):
        return self._vtime

    def advance(self, dt):
        self._vtime += dt

    def set_time(self, t):
        self._vtime = float(t)

    def _process_events(self, event_list):      # no selector
        pass

    def _write_to_self(self):
        pass

    # -- manual driving -------------------------------------------------------------------
    def enter(self):
        """Make this loop the running loop of the calling thread (needed for get_running_loop / create_task)."""
        self._prev = events._get_running_loop()
        events._set_running_loop(None)
        events._set_running_loop(self)

    def leave(self):
        events._set_running_loop(None)
        if getattr(self, '_prev', None) is not None:
            events._set_running_loop(self._prev)

    def ready_count(self):
        return len(self._ready)

    def run_one_ready(self):
        h = self._ready.popleft()
        if not h._cancelled:
            h._run()
        return h

    def run_all_ready(self, limit=100000):
        n = 0
        while self._ready:
            self.run_one_ready()
            n += 1
            if n > limit:
                raise RuntimeError('ready queue does not drain')
        return n

    def next_timer(self):
        """Earliest live scheduled handle (cancelled ones are discarded as the real loop does)."""
        while self._scheduled and self._scheduled[0]._cancelled:
            h = heapq.heappop(self._scheduled)
            h._scheduled = False
        return self._scheduled[0] if self._scheduled else None

    def fire_next_timer(self, at=None):
        """Pop the earliest timer, set the clock (default: its deadline) and move it to the ready queue."""
        h = self.next_timer()
        if h is None:
            return None
        heapq.heappop(self._scheduled)
        h._scheduled = False
        t = h._when if at is None else at
        if t < h._when - self._clock_resolution:
            raise ValueError('the real loop never dispatches a timer earlier than when - clock_resolution')
        if t > self._vtime:
            self._vtime = t
        self._ready.append(h)
        return h

    def collect_due_timers(self, at=None):
        """What BaseEventLoop._run_once does at the start of an iteration: (advance the clock to `at`,) move every
        live scheduled handle with when < time() + clock_resolution to the ready queue, in deadline order.  Returns the
        length of the ready queue = the number of handles that iteration runs."""
        if at is not None:
            h = self.next_timer()
            if h is not None and at < h._when - self._clock_resolution:
                raise ValueError('the real loop never dispatches a timer earlier than when - clock_resolution')
            if at > self._vtime:
                self._vtime = at
        end = self._vtime + self._clock_resolution
        while True:
            h = self.next_timer()
            if h is None or h._when >= end:
                break
            heapq.heappop(self._scheduled)
            h._scheduled = False
            self._ready.append(h)
        return len(self._ready)

    def close(self):
        try:
            self._ready.clear()
            self._scheduled.clear()
            super().close()
        except Exception:       # noqa: BLE001
            pass


def explore_choices(run_once, bound, max_runs=None):
    """Deviation-bounded enumeration of choice sequences.

    run_once(prefix) -> (observation, counts) where counts[i] is the number of alternatives at the i-th choice point
    of that run (the run follows `prefix` and takes choice 0, the default answer, afterwards).  Every non-default
    choice is one deviation; all runs with at most `bound` deviations are produced exactly once, fewest deviations
    first.  Yields (prefix_taken, observation)."""
    levels = [[] for _ in range(bound + 1)]
    levels[0].append([])
    n = 0
    while True:
        lvl = next((q for q in levels if q), None)
        if lvl is None:
            return
        prefix = lvl.pop()
        obs, counts = run_once(prefix)
        if len(counts) < len(prefix):
            raise RuntimeError('replay diverged: %d choice points for a prefix of %d' % (len(counts), len(prefix)))
        n += 1
        yield prefix, obs
        used = sum(1 for c in prefix if c != 0)
        if used < bound:
            for i in range(len(prefix), len(counts)):
                for alt in range(1, counts[i]):
                    levels[used + 1].append(prefix + [0] * (i - len(prefix)) + [alt])
        if max_runs is not None and n >= max_runs:
            return

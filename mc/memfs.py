"""In-memory POSIX-ish file system with an operation log (used by E2 as scheduling points and by E4 as crash trace).

Only what klongpy.db.file_cache touches is provided: module-level open() for 'rb' / 'wb', and an `os` look-alike with
path.join / dirname / exists / getsize / isdir, makedirs, fsync, getcwd, sep.  User-space buffering is *not* modelled:
open(..., 'wb') returns the real io.BufferedWriter (default buffer size) over a raw in-memory object, so the logged
`write` operations are exactly those that would reach the kernel, in kernel order.

Kernel-level operations (each preceded by hook(label) when a hook is installed):
    mkdir(d)  create(f)  trunc(f)  write(f, data)  fsync(f)  fsync_dir(d)  close(f)  read(f)  stat(f)  unlink(f)
"""
import io
import posixpath


class MemRaw(io.RawIOBase):
    def __init__(self, fs, path, mode, fd):
        super().__init__()
        self.fs, self.path, self.mode, self.fd = fs, path, mode, fd
        self.pos = 0
        self.name = path

    def readable(self):
        return 'r' in self.mode

    def writable(self):
        return 'w' in self.mode or 'a' in self.mode

    def seekable(self):
        return False

    def fileno(self):
        return self.fd

    def readinto(self, b):
        self.fs._hook('read ' + self.path)
        data = self.fs.files.get(self.path)
        if data is None:
            data = b''
        chunk = bytes(data[self.pos:self.pos + len(b)])
        b[:len(chunk)] = chunk
        self.pos += len(chunk)
        self.fs.log.append(('read', self.path, len(chunk)))
        return len(chunk)

    def write(self, b):
        b = bytes(b)
        self.fs._hook('write ' + self.path)
        f = self.fs.files.get(self.path)
        if f is None:               # unlinked while open: data goes nowhere visible
            return len(b)
        f.extend(b)
        self.fs.log.append(('write', self.path, b))
        return len(b)

    def close(self):
        if not self.closed:
            try:
                self.fs._hook('close ' + self.path)
                self.fs.log.append(('close', self.path))
                self.fs.fds.pop(self.fd, None)
            finally:
                super().close()


class OsPath:
    def __init__(self, fs):
        self.fs = fs
        self.sep = '/'

    join = staticmethod(posixpath.join)
    dirname = staticmethod(posixpath.dirname)
    basename = staticmethod(posixpath.basename)
    normpath = staticmethod(posixpath.normpath)
    abspath = staticmethod(posixpath.abspath)
    split = staticmethod(posixpath.split)
    isabs = staticmethod(posixpath.isabs)

    def exists(self, p):
        self.fs._hook('exists ' + p)
        p = posixpath.normpath(p)
        self.fs.log.append(('stat', p))
        return p in self.fs.files or p in self.fs.dirs

    def isdir(self, p):
        return posixpath.normpath(p) in self.fs.dirs

    def isfile(self, p):
        self.fs._hook('isfile ' + p)
        p = posixpath.normpath(p)
        self.fs.log.append(('stat', p))
        return p in self.fs.files

    def getsize(self, p):
        self.fs._hook('getsize ' + p)
        p = posixpath.normpath(p)
        if p in self.fs.files:
            return len(self.fs.files[p])
        if p in self.fs.dirs:
            return 4096
        raise FileNotFoundError(p)


class OsProxy:
    sep = '/'

    def __init__(self, fs):
        self.fs = fs
        self.path = OsPath(fs)

    def makedirs(self, p, mode=0o777, exist_ok=False):
        self.fs._hook('makedirs ' + p)
        p = posixpath.normpath(p)
        if p in self.fs.files:
            raise FileExistsError(p)
        if p in self.fs.dirs:
            if not exist_ok:
                raise FileExistsError(p)
            return
        parts = []
        q = p
        while q not in self.fs.dirs and q not in ('', '/'):
            parts.append(q)
            q = posixpath.dirname(q)
        for d in reversed(parts):
            if posixpath.dirname(d) in self.fs.files:
                raise NotADirectoryError(d)
            self.fs.dirs.add(d)
            self.fs.log.append(('mkdir', d))

    def fsync(self, fd):
        path = self.fs.fds.get(fd)
        self.fs._hook('fsync %s' % path)
        if path is None:
            raise OSError(9, 'Bad file descriptor')
        self.fs.log.append(('fsync_dir' if path in self.fs.dirs else 'fsync', path))

    def getcwd(self):
        return '/'

    def remove(self, p):
        self.fs._hook('unlink ' + p)
        p = posixpath.normpath(p)
        if p not in self.fs.files:
            raise FileNotFoundError(p)
        del self.fs.files[p]
        self.fs.log.append(('unlink', p))

    unlink = remove

    # directory handles for fsync of a directory: os.open(dir, os.O_RDONLY) ... os.fsync(fd) ... os.close(fd)
    O_RDONLY = 0
    O_DIRECTORY = 0o200000

    def open(self, p, flags=0, mode=0o777):
        p = posixpath.normpath(p)
        if p not in self.fs.dirs and p not in self.fs.files:
            raise FileNotFoundError(p)
        fd = self.fs._newfd(p)
        return fd

    def close(self, fd):
        self.fs.fds.pop(fd, None)


class MemFS:
    def __init__(self, hook=None):
        self.files = {}
        self.dirs = {'/'}
        self.log = []
        self.fds = {}
        self._fd = 100
        self.hook = hook
        self.os = OsProxy(self)

    def _hook(self, label):
        if self.hook is not None:
            self.hook(label)

    def _newfd(self, path):
        self._fd += 1
        self.fds[self._fd] = path
        return self._fd

    def mkdirs(self, p):
        """Harness-side setup (not logged)."""
        p = posixpath.normpath(p)
        while p not in ('', '/'):
            self.dirs.add(p)
            p = posixpath.dirname(p)

    def put(self, path, data):
        """Harness-side setup (not logged)."""
        self.mkdirs(posixpath.dirname(path))
        self.files[posixpath.normpath(path)] = bytearray(data)

    def open(self, path, mode='r', *a, **kw):
        path = posixpath.normpath(path)
        if 'b' not in mode:
            raise ValueError('memfs: binary modes only')
        if 'w' in mode:
            self._hook('open-w ' + path)
            if path in self.dirs:
                raise IsADirectoryError(path)
            if posixpath.dirname(path) not in self.dirs:
                raise FileNotFoundError(path)
            if path in self.files:
                del self.files[path][:]
                self.log.append(('trunc', path))
            else:
                self.files[path] = bytearray()
                self.log.append(('create', path))
            raw = MemRaw(self, path, 'w', self._newfd(path))
            return io.BufferedWriter(raw)
        if 'r' in mode:
            self._hook('open-r ' + path)
            if path in self.dirs:
                raise IsADirectoryError(path)
            if path not in self.files:
                raise FileNotFoundError(path)
            self.log.append(('open', path))
            raw = MemRaw(self, path, 'r', self._newfd(path))
            return io.BufferedReader(raw)
        raise ValueError('memfs: unsupported mode ' + mode)

    def snapshot(self):
        return {p: bytes(d) for p, d in self.files.items()}

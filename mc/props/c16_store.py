"""C16 - the file-backed key-value and table stores are persistent dictionaries.

E1 (BFS over operation histories) on the real KeyValueStorage / FileCache (and TableStorage / PandasDataFrameCache)
over an in-memory file system, driven through the Klong-level `kvs,k,,v` / `kvs?k` forms; after every operation the
result is compared with a dict model and the accounting invariants are evaluated on the real cache object.
"""
import heapq
import json
import logging
import pickle

from klongpy import KlongInterpreter
from klongpy.core import KGChar, KGSym, KLONG_UNDEFINED

from .. import bfs, runner
from ..memfs import MemFS
from ..values import cn, show, canon, I, R, S, C, Y, L, U

import klongpy.db.file_cache as fc
from klongpy.db.sys_fn_kvs import KeyValueStorage, TableStorage

ROOT = '/store'
KEYS = ['a', 'b', 'd/x', 'd/y', 'd//x', 'd/./x']     # 'd//x' and 'd/./x' are other spellings of the path of 'd/x': the same key
MISSING = ['zz', 'd/zz', 'q/r', 'd']        # 'd' names the directory of the nested keys once one of them is set
CONFLICT = ['d', 'a/q']                    # keys the one-file-per-key layout cannot hold next to 'd/x' / 'a': a set of
                                           # one of them (or of 'd/x' / 'a' after it) must fail and change nothing


def mkey(k):
    """The key a key text stands for: the store maps keys to paths, and two spellings of one path are one key."""
    import posixpath
    return posixpath.normpath(k)


def _conflicts(k, model):
    """k cannot be stored next to the keys of model: one of the two is a path prefix (a directory) of the other."""
    return any(m.startswith(k + '/') or k.startswith(m + '/') for m in model)


def _values():
    import numpy as np
    small = [1, 2]                                        # equal pickled size: the limit classes are built on it
    kinds = [2.5, 's', KGChar('c'), KGSym('sym'), np.array([1, 2, 3]), np.array([1, np.array([2, 'x'], dtype=object)], dtype=object),
             {1: 2, 'k': 's'}, 'L' * 300]
    return small, kinds


def _ser(v):
    from klongpy.db.helpers import serialize_obj
    return serialize_obj(v)


def _deser(d):
    try:
        return cn(pickle.loads(d))
    except Exception as e:      # noqa: BLE001
        return ('exc', type(e).__name__)


class Env:
    """A real store on a fresh memfs; build(hist) replays a history."""

    def __init__(self, limit):
        self.fs = MemFS()
        self.fs.mkdirs(ROOT)
        fc.open = self.fs.open
        fc.os = self.fs.os
        self.limit = limit
        self.kl = KlongInterpreter()
        self.stores = []
        self.open_store()

    def open_store(self):
        if self.stores:
            self.stores[-1].cache.executor.shutdown(wait=True)
        st = KeyValueStorage(ROOT, max_memory=self.limit)
        self.stores.append(st)
        self.kl['kvs'] = st
        self.st = st

    def close(self):
        for st in self.stores:
            st.cache.executor.shutdown(wait=True)
        restore()


def restore():
    import os as _os
    if 'open' in fc.__dict__:
        del fc.__dict__['open']
    fc.os = _os


def optext(op):
    k = op[0]
    if k == 'set':
        return 'kvs,[;"%s";v%d]' % (op[1], op[2])
    if k == 'get':
        return 'kvs?"%s"' % op[1]
    if k == 'unload':
        return 'py: kvs.cache.unload_file("%s")' % op[1]
    if k == 'reopen':
        return 'py: kvs = KeyValueStorage(root, max_memory=limit)'
    raise ValueError(op)


def do(env, op, values):
    """Execute op on the real store. Returns ('ok', canonical result) / ('exc', name)."""
    try:
        if op[0] == 'set':
            env.kl['v%d' % op[2]] = values[op[2]]
            r = env.kl(optext(op))
            return ('ok', ('store',) if r is env.st else cn(r))
        if op[0] == 'get':
            return ('ok', cn(env.kl(optext(op))))
        if op[0] == 'unload':
            env.st.cache.unload_file(op[1])
            return ('ok', ('none',))
        if op[0] == 'reopen':
            env.open_store()
            return ('ok', ('none',))
    except Exception as e:          # noqa: BLE001
        return ('exc', type(e).__name__)
    raise ValueError(op)


def invariants(env, model, values):
    """Accounting / heap / disk invariants on the real object -> list of (class, observed, expected)."""
    out = []
    c = env.st.cache
    ff = c.file_futures
    usage = c.current_memory_usage
    for name, info in ff.items():
        if info[0]:
            out.append(('entry-left-writing', '%s still marked writing' % name, 'no writing entry between operations'))
        if not info[2].done():
            out.append(('future-pending', '%s future not done' % name, 'executor idle between operations'))
    total = sum(i[1] for i in ff.values() if not i[0])
    if usage != total:
        out.append(('usage!=sum', 'usage=%d sum(entries)=%d' % (usage, total), 'accounting = sum of held entries'))
    if usage < 0 or usage > c.max_memory:
        out.append(('usage-out-of-range', 'usage=%d max=%d' % (usage, c.max_memory), '0 <= usage <= limit'))
    hn = sorted(fn for _, fn in c.file_access_times)
    if hn != sorted(ff.keys()):
        out.append(('heap!=entries', 'heap=%s entries=%s' % (hn, sorted(ff.keys())), 'one LRU entry per cached file'))
    disk = env.fs.snapshot()
    for k, vi in model.items():
        d = disk.get(ROOT + '/' + k)
        if d is None:
            out.append(('file-missing', 'no file for key %s' % k, 'one file per key'))
        elif _deser(d) != cn(values[vi]):
            out.append(('disk!=model', 'key %s: file holds %r' % (k, d[:40]), 'file = serialised latest value'))
        info = ff.get(k)
        if info is not None and info[2].done() and info[2].exception() is None and d is not None:
            if bytes(info[2].result()) != d:
                out.append(('cache!=disk', 'key %s' % k, 'cached contents = file contents'))
    for p in disk:
        k = p[len(ROOT) + 1:]
        if k not in model:
            out.append(('stray-file', p, 'only files of keys that were set'))
    return out


def state_key(env, model):
    c = env.st.cache
    order = tuple(fn for _, fn in sorted(c.file_access_times))
    entries = tuple(sorted((k, v[0], v[1]) for k, v in c.file_futures.items()))
    return (tuple(sorted(model.items())), entries, order, c.current_memory_usage)


def make_expand(limit, values, val_idx, sizes):
    canon_vals = [cn(v) for v in values]

    def build(hist):
        env = Env(limit)
        model = {}
        for op in hist:
            do(env, op, values)
            apply_model(model, op, limit, sizes)
        return env, model

    def ops_for(model):
        ops = []
        for k in KEYS:
            for vi in val_idx:
                ops.append(('set', k, vi))
            ops.append(('get', k))
            ops.append(('unload', k))
        for k in MISSING:
            ops.append(('get', k))
        for k in CONFLICT:
            ops.append(('set', k, val_idx[0]))
            if k not in MISSING:
                ops.append(('get', k))
        ops.append(('reopen',))
        return ops

    def expand(hist):
        out = {'succ': [], 'transitions': 0, 'violations': [], 'outcomes': set()}
        logging.disable(logging.CRITICAL)
        for op in ops_for(None):
            env, model = build(hist)
            try:
                got = do(env, op, values)
                exp = expected(model, op, limit, sizes, canon_vals)
                apply_model(model, op, limit, sizes)
                bad = []
                if exp == ('exc-os',):
                    if not (got[0] == 'exc' and got[1] in OS_ERRORS):
                        bad.append(('result', _show(got), 'raise (the key cannot be stored next to the existing keys)'))
                elif exp is not None and got != exp:
                    bad.append(('result', _show(got), _show(exp)))
                bad.extend(invariants(env, model, values))
                out['transitions'] += 1
                key = state_key(env, model)
                out['outcomes'].add(hash((key, got)) & 0xffffffff)
                for cls, observed, exp_s in bad:
                    hist_s = [optext(h) for h in hist] + [optext(op)]
                    out['violations'].append(dict(
                        key='limit=%s | %s @%s' % (_limname(limit, sizes), ' ; '.join(hist_s), cls), observed=observed,
                        expected=exp_s, group=cls,
                        case={'limit': limit, 'history': [list(h) for h in hist] + [list(op)],
                              'values': [show(c) for c in canon_vals], 'text': hist_s}))
                out['succ'].append((op, None if bad else key))
            finally:
                env.close()
        return out
    return expand, build


OS_ERRORS = ('IsADirectoryError', 'NotADirectoryError', 'FileExistsError', 'OSError')


def _limname(limit, sizes):
    return 'default' if limit is None else '%dB' % limit


def _show(o):
    if o[0] == 'exc':
        return 'raise ' + o[1]
    return 'store' if o[1] == ('store',) else show(o[1]) if o[1][0] not in ('none',) else 'None'


def expected(model, op, limit, sizes, canon_vals):
    lim = limit or 2 ** 20
    if op[0] == 'set':
        if sizes[op[2]] > lim:
            return ('exc', 'MemoryError')
        if _conflicts(op[1], model):
            return ('exc-os',)          # any OSError class: which one depends on which of the two is the directory
        return ('ok', ('store',))
    if op[0] == 'get':
        if mkey(op[1]) not in model:
            return ('ok', U)
        return ('ok', canon_vals[model[mkey(op[1])]])
    return ('ok', ('none',))


def apply_model(model, op, limit, sizes):
    lim = limit or 2 ** 20
    if op[0] == 'set' and sizes[op[2]] <= lim and not _conflicts(op[1], model):
        model[mkey(op[1])] = op[2]


def run(cfg):
    logging.disable(logging.CRITICAL)
    rep = runner.Report('C16', 'model_checking')
    small, kinds = _values()
    values = small + kinds
    sizes = [len(_ser(v)) for v in values]
    s = sizes[0]
    assert sizes[1] == s
    big = len(values) - 1
    total = {'states': 0, 'transitions': 0}
    layers = {}
    # limit classes: fits exactly one small entry / exactly two / default.  Under tight limits the value alphabet is the
    # two equal-sized small values plus one oversize value; under the default limit one value of every picklable kind.
    searches = [
        ('fits-one', s, [0, 1, big], cfg.pick(4, 5)),
        ('fits-two', 2 * s, [0, 1, big], cfg.pick(3, 5)),
        ('default', None, [0] + list(range(2, len(values))), cfg.pick(2, 3)),
        # entries of different sizes where the larger one fills the cache exactly: a cached key is rewritten with a value
        # that fits only when everything else is evicted (seeded change C16a needed this relation and was missed without it)
        ('mixed-exact-fit', sizes[3], [0, 1, 3], cfg.pick(3, 5)),
    ]
    try:
        for name, limit, val_idx, depth in searches:
            expand, build = make_expand(limit, values, val_idx, sizes)
            t = bfs.search(expand, cfg, depth, max_states=cfg.pick(60000, 1500000))
            rep.extend_violations(t.get('violations', []))
            total['states'] += t['states']
            total['transitions'] += t['transitions']
            total.setdefault('outcomes', set()).update(t.get('outcomes', ()))
            layers[name] = {'layers': t['layers'], 'max_depth': t['max_depth'], 'capped': t['capped'], 'limit': limit}
    finally:
        restore()
    from . import c16_tables
    tt = c16_tables.run_tables(cfg, rep)
    rep.coverage = {
        'states': total['states'] + tt['states'],
        'transitions': total['transitions'] + tt['transitions'],
        'traces_validated_against_impl': total['transitions'] + tt['transitions'],
        'samples': [['kvs,"a",,v0', 'kvs,"b",,v1', 'kvs?"a"', 'py: kvs = KeyValueStorage(root, max_memory=limit)', 'kvs?"a"'],
                    tt['sample']],
        'exhaustive': not any(v['capped'] for v in layers.values()),
        'kv_searches': layers,
        'table_search': tt['info'],
        'distinct_outcomes': len(total.get('outcomes', ())) + tt['outcomes'],
        'value_sizes': dict(zip([show(cn(v))[:20] for v in values], sizes)),
        'rule': 'BFS over histories of set/get/get-missing/unload/reopen on 4 keys (flat and nested) plus 2 keys that collide with a '
                'directory / a file of the others, through the Klong-level '
                'forms; states merged on (model, cache entries, LRU order, byte total); one search per cache-limit class',
    }
    rep.assumptions = [
        'sequential use: every public call blocks until its task has finished, so the real executor is idle between '
        'operations (checked: future-pending invariant)',
        'memfs stands for the directory; pickle is the serialisation (as in the code)',
        'a key that is a path prefix of another key ("d" next to "d/x", "a/q" next to "a") cannot be stored by the one-file-per-key '
        'layout: its set must raise an OSError and leave everything as it was; its get reads :undefined',
    ]
    return rep


def replay(cfg, path):
    logging.disable(logging.CRITICAL)
    with open(path) as f:
        r = json.load(f)
    case = r['case']
    if case.get('kind') == 'table':
        from . import c16_tables
        return c16_tables.replay(case)
    small, kinds = _values()
    values = small + kinds
    sizes = [len(_ser(v)) for v in values]
    env = Env(case['limit'])
    try:
        model = {}
        for op in case['history']:
            op = tuple(op)
            got = do(env, op, values)
            apply_model(model, op, case['limit'], sizes)
            print(optext(op), '->', _show(got))
        for b in invariants(env, model, values):
            print('VIOLATED', b)
    finally:
        env.close()
    return 0

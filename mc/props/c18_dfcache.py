"""C18, second family: PandasDataFrameCache.update (per-file append lock + merge + write) racing with update and
get_dataframe, under the same scheduler seams as c18_filecache plus `threading.Lock` of klongpy.db.df_cache.

Oracle: every call returns; the frame finally on disk (and cached) is the documented merge of the initial frame with
ALL updates in some order (existing rows win on equal index, rows ordered by index); every get_dataframe result is the
merge of the initial frame with some subset of the updates that is closed under real-time precedence; accounting as
in the first family.
"""
import itertools
import logging

import pandas as pd

from .. import runner
from ..memfs import MemFS
from ..sched import Sched, SLock, SExecutor, explore, _alternatives, Abort
from .c18_filecache import Clock, _make_monitored, restore as restore_fc

import klongpy.db.file_cache as fc
import klongpy.db.df_cache as dfc
from klongpy.db.helpers import serialize_df, deserialize_df

_REAL_THREADING = dfc.threading


def frame(rows):
    """rows: dict index -> value"""
    idx = sorted(rows)
    return pd.DataFrame({'v': [rows[i] for i in idx]}, index=idx)


def rows_of(df):
    if df is None:
        return None
    return tuple((int(i), int(v)) for i, v in zip(df.index.tolist(), df['v'].tolist()))


def merge(base, updates):
    cur = dict(base)
    for u in updates:
        for i, v in u.items():
            cur.setdefault(i, v)
    return tuple(sorted(cur.items()))


class Proxy:
    def __init__(self, real, **over):
        self.__dict__['_real'] = real
        self.__dict__.update(over)

    def __getattr__(self, n):
        return getattr(self._real, n)


class Harness:
    def __init__(self, conf, prefix):
        self.conf = conf
        self.unsync = set()
        self.events = []
        self.sched = Sched(prefix, horizon=4000)
        self.fs = MemFS(hook=self.sched.point)
        self.fs.mkdirs('/r')
        if conf['initial'] is not None:
            self.fs.put('/r/T', serialize_df(frame(conf['initial'])))
        fc.open = self.fs.open
        fc.os = self.fs.os
        fc.time = Clock()
        s = self.sched
        dfc.threading = Proxy(_REAL_THREADING, Lock=lambda: SLock(s, 'append'))
        cls = _make_monitored(dfc.PandasDataFrameCache)
        cache = cls(max_memory=10 ** 9, root_path='/r')
        cache.executor.shutdown(wait=False)
        cache.executor = SExecutor(s)
        cache.file_futures_lock = SLock(s, 'L')
        cache.__dict__['_harness'] = self
        self.cache = cache

    def _client(self, ti, ops):
        def body():
            for oi, op in enumerate(ops):
                self.sched.point('call %s' % (op[0],))
                self.events.append((ti, oi, 'call', op))
                try:
                    if op[0] == 'update':
                        r = ('ok', rows_of(self.cache.update('T', frame(op[1]))))
                    else:
                        r = ('ok', rows_of(self.cache.get_dataframe('T', default_empty=False)))
                except Abort:
                    raise
                except BaseException as e:      # noqa: BLE001
                    r = ('exc', type(e).__name__)
                self.events.append((ti, oi, 'ret', r))
        return body

    def run(self):
        for ti, ops in enumerate(self.conf['threads']):
            self.sched.spawn(self._client(ti, ops), 'client%d' % ti)
        try:
            self.sched.run()
        finally:
            restore()
        return self


def restore():
    restore_fc()
    dfc.threading = _REAL_THREADING


def judge(h):
    s, conf = h.sched, h.conf
    out = []
    calls = {}
    for pos, (ti, oi, kind, payload) in enumerate(h.events):
        if kind == 'call':
            calls[(ti, oi)] = {'op': payload, 'call': pos, 'ret': None, 'res': None}
        else:
            calls[(ti, oi)]['ret'] = pos
            calls[(ti, oi)]['res'] = payload
    results = tuple((k, v['op'][0], v['res']) for k, v in sorted(calls.items()))
    if s.verdict in ('deadlock', 'livelock'):
        out.append((s.verdict, '%s: %s' % (s.verdict, s.verdict_detail), 'every call returns'))
        return ('verdict', s.verdict, results), out
    base = conf['initial'] or {}
    ups = [(k, v) for k, v in calls.items() if v['op'][0] == 'update']
    for k, v in calls.items():
        if v['res'] is None:
            out.append(('no-return', '%s never returned' % (v['op'][0],), 'every call returns'))
            continue
        if v['res'][0] == 'exc':
            out.append(('exception', '%s raised %s' % (v['op'][0], v['res'][1]), 'no exception'))
    finals = {merge(base, [u['op'][1] for _, u in perm]) for perm in itertools.permutations(ups)}
    d = h.fs.snapshot().get('/r/T')
    disk = rows_of(deserialize_df(d)) if d else None
    if ups and disk not in finals:
        out.append(('final-table-not-a-merge', 'disk=%s' % (disk,), 'the merge of all updates in some order: %s' % sorted(finals)))
    # every returned frame (update returns the merged frame, get the stored one) is a merge of a subset of the updates
    subsets = set()
    if conf['initial'] is None:
        subsets.add(None)
    for n in range(len(ups) + 1):
        for sub in itertools.permutations(ups, n):
            subsets.add(merge(base, [u['op'][1] for _, u in sub]))
    for k, v in calls.items():
        if v['res'] is not None and v['res'][0] == 'ok' and v['res'][1] not in subsets:
            out.append(('frame-not-a-merge', '%s returned %s' % (v['op'][0], v['res'][1]), 'a merge of the initial frame with a subset of the updates'))
    c = h.cache.__dict__
    ff = c['_m_file_futures']
    usage = c['_m_current_memory_usage']
    total = sum(x[1] for x in ff.values() if not x[0])
    if any(x[0] for x in ff.values()):
        out.append(('entry-left-writing', 'writing entry at quiescence', 'none'))
    if usage != total:
        out.append(('usage!=sum', 'usage=%d sum(entries)=%d' % (usage, total), 'accounting = sum of cached entries'))
    return (results, disk, usage == total), out


def configurations(quick):
    A, B, C2 = {1: 10, 2: 20}, {2: 21, 3: 30}, {1: 11, 4: 40}
    cs = [
        {'name': 'df update||update (overlapping index)', 'initial': {0: 5}, 'threads': [[('update', A)], [('update', B)]]},
        {'name': 'df update||get', 'initial': {0: 5}, 'threads': [[('update', A)], [('get',)]]},
        {'name': 'df update||update, no file yet', 'initial': None, 'threads': [[('update', A)], [('update', B)]]},
    ]
    if not quick:
        cs += [
            {'name': 'df update||update||get', 'initial': {0: 5}, 'threads': [[('update', A)], [('update', B)], [('get',)]]},
            {'name': 'df update;get||update', 'initial': {0: 5}, 'threads': [[('update', A), ('get',)], [('update', C2)]]},
            {'name': 'df update||update||update', 'initial': None, 'threads': [[('update', A)], [('update', B)], [('update', C2)]]},
        ]
    return cs


def run_conf(conf, prefix):
    return Harness(conf, prefix).run()


def explore_unit(unit):
    logging.disable(logging.CRITICAL)
    conf, roots, bound = unit
    out = {'executions': 0, 'transitions': 0, 'outcomes': {}, 'violations': [], 'by_preemptions': {}, 'max_points': 0}
    seen = set()
    try:
        for h in explore(lambda p: run_conf(conf, p), bound, roots=roots):
            s = h.sched
            out['executions'] += 1
            out['transitions'] += len(s.trace)
            out['max_points'] = max(out['max_points'], len(s.trace))
            p = str(s.preemptions())
            out['by_preemptions'][p] = out['by_preemptions'].get(p, 0) + 1
            outcome, bad = judge(h)
            out['outcomes'].setdefault(conf['name'], set()).add(hash(outcome))
            for cls, observed, expected in bad:
                key = '%s | %s' % (conf['name'], cls)
                if (key, observed) in seen:
                    continue
                seen.add((key, observed))
                o2, bad2 = judge(run_conf(conf, s.trace))
                if o2 != outcome:
                    raise runner.HarnessError('df schedule %s of %s is not reproducible' % (s.trace, conf['name']))
                out['violations'].append(dict(key=key, observed=observed, expected=expected, group='df-' + cls,
                                              case={'family': 'df', 'config': conf['name'], 'schedule': s.trace,
                                                    'steps': ['%s: %s' % (s.threads[t].name, lab) for t, lab in s.labels][-60:]}))
    finally:
        restore()
    return out


def units(cfg):
    bound = cfg.pick(1, 2)
    us = []
    try:
        for conf in configurations(cfg.quick):
            b = bound if len(conf['threads']) < 3 else 1
            h = run_conf(conf, [])
            us.append((conf, [[]], -1))
            for cost, a in _alternatives(h.sched, 0, b):
                us.append((conf, [a], b))
    finally:
        restore()
    return us


def replay(case):
    logging.disable(logging.CRITICAL)
    conf = next(c for c in configurations(False) if c['name'] == case['config'])
    h = run_conf(conf, case['schedule'])
    for t, lab in h.sched.labels:
        print('  %-10s %s' % (h.sched.threads[t].name, lab))
    print(judge(h))
    return 0

"""C17 - a completed key-value set survives a crash; an interrupted one harms no other key.

E4: the real KeyValueStorage.set path runs over memfs (real io.BufferedWriter on top, so the logged operations are the
kernel-level ones); for every prefix of the operation trace and every loss pattern the persistence model allows, the
crash image is materialised, a fresh KeyValueStorage is opened on it and every key is read.

Persistence model (POSIX-style): fsync(file) makes that file's data and size durable, not its directory entry; a
directory entry (mkdir / file creation) becomes durable by fsync of the containing directory; unsynced effects may each
independently persist or be lost, subject to: reachable only through persisted ancestors; per file, pending operations
persist in order (truncate before later data; written data as none / byte prefix / all).
"""
import errno
import itertools
import json
import logging
import os
import posixpath
import subprocess
import sys

from .. import runner
from ..memfs import MemFS
from ..values import cn, show, U

import klongpy.db.file_cache as fc
from klongpy.db.sys_fn_kvs import KeyValueStorage

ROOT = '/store'
KEYS = ['a', 'b', 'd/x']
VALUES = ['v1' * 10, 'w2' * 10, 'B' * 20000]          # 20 bytes, 20 bytes, 20000 bytes (below / above the write buffer)
VNAMES = ['small1', 'small2', 'big']


def _patch(fs):
    fc.open = fs.open
    fc.os = fs.os


def restore():
    if 'open' in fc.__dict__:
        del fc.__dict__['open']
    fc.os = os


def record(history, fail=None, fresh_root=False):
    """Run the history on the real store over memfs; return the kernel-level trace with begin/ack markers.

    fail = n: the n-th fsync call of the history (file or directory, counted from 0) fails with EIO and makes nothing
    durable; a set that raises is marked ('fail', key, value) instead of ('ack', ...)."""
    count = [0]

    def hook(label):
        if label.startswith('fsync '):
            n = count[0]
            count[0] += 1
            if n == fail:
                raise OSError(errno.EIO, 'Input/output error')
    fs = MemFS(hook=hook if fail is not None else None)
    if not fresh_root:
        fs.mkdirs(ROOT)
    _patch(fs)
    st = KeyValueStorage(ROOT)
    try:
        for k, vi in history:
            fs.log.append(('begin', k, vi))
            try:
                st.set(k, VALUES[vi])
            except OSError:
                if fail is None:
                    raise
                fs.log.append(('fail', k, vi))
                continue
            fs.log.append(('ack', k, vi))
    finally:
        st.cache.executor.shutdown(wait=True)
        restore()
    return [op for op in fs.log if op[0] in ('begin', 'ack', 'fail', 'mkdir', 'create', 'trunc', 'write', 'fsync', 'fsync_dir', 'close')]


def images(prefix, initial=None, base=ROOT):
    """All crash images (dict path -> bytes of visible files) after the trace prefix.  initial: files (path -> bytes)
    that were durable, with their directories, before the trace.  base: the deepest directory that exists durably before
    the trace (the store root; '/' when the store root itself is created by the first set)."""
    ROOT = base                         # (shadows the module constant inside this function only)
    dur_entries = {ROOT}
    pend_entries = []                   # paths (dirs or files) whose directory entry is not durable yet
    is_dir = {ROOT: True}
    files = {}                          # path -> {'durable': bytes, 'pending': [ops]}
    for path, data in (initial or {}).items():
        files[path] = {'durable': bytes(data), 'pending': []}
        is_dir[path] = False
        p = path
        while p != ROOT:
            dur_entries.add(p)
            p = posixpath.dirname(p)
            if p != ROOT:
                is_dir[p] = True
    for op in prefix:
        k = op[0]
        if k == 'mkdir':
            is_dir[op[1]] = True
            pend_entries.append(op[1])
        elif k == 'create':
            is_dir[op[1]] = False
            files[op[1]] = {'durable': b'', 'pending': []}
            pend_entries.append(op[1])
        elif k == 'trunc':
            files[op[1]]['pending'].append(('trunc',))
        elif k == 'write':
            files[op[1]]['pending'].append(('write', op[2]))
        elif k == 'fsync':
            f = files[op[1]]
            cur = f['durable']
            for p in f['pending']:
                cur = b'' if p[0] == 'trunc' else cur + p[1]
            f['durable'] = cur
            f['pending'] = []
        elif k == 'fsync_dir':
            keep = []
            for e in pend_entries:
                if posixpath.dirname(e) == op[1]:
                    dur_entries.add(e)
                else:
                    keep.append(e)
            pend_entries = keep
    # choices
    content_opts = {}
    for path, f in files.items():
        opts = [f['durable']]
        cur = f['durable']
        for p in f['pending']:
            if p[0] == 'trunc':
                cur = b''
                opts.append(cur)
            else:
                n = len(p[1])
                for cut in sorted({1, n // 2, n - 1, n}):
                    if 0 < cut <= n:
                        opts.append(cur + p[1][:cut])
                cur = cur + p[1]
        seen = []
        for o in opts:
            if o not in seen:
                seen.append(o)
        content_opts[path] = seen
    out = []
    seen_img = set()
    paths = sorted(files)
    for ent_choice in itertools.product((True, False), repeat=len(pend_entries)):
        present = set(dur_entries) | {e for e, c in zip(pend_entries, ent_choice) if c}

        def visible(p):
            while p != ROOT:
                if p not in present:
                    return False
                p = posixpath.dirname(p)
            return True

        vis_files = [p for p in paths if visible(p)]
        vis_dirs = sorted(p for p in present if is_dir.get(p) and visible(p))
        for contents in itertools.product(*[content_opts[p] for p in vis_files]):
            img = dict(zip(vis_files, contents))
            key = (tuple(sorted(img.items())), tuple(vis_dirs))
            if key in seen_img:
                continue
            seen_img.add(key)
            out.append((img, vis_dirs))
    return out


def recover(img, dirs, keys=None, make_root=True):
    """Fresh store on the image; read every key -> {key: ('ok', canonical) | ('exc', name)}."""
    keys = KEYS if keys is None else keys
    fs = MemFS()
    if make_root:
        fs.mkdirs(ROOT)
    for d in dirs:
        fs.mkdirs(d)
    for p, data in img.items():
        fs.put(p, data)
    _patch(fs)
    st = None
    res = {}
    try:
        try:
            st = KeyValueStorage(ROOT)
        except Exception as e:      # noqa: BLE001
            return {k: ('exc', 'open:' + type(e).__name__) for k in keys}
        for k in keys:
            try:
                res[k] = ('ok', cn(st.get(k)))
            except Exception as e:      # noqa: BLE001
                res[k] = ('exc', type(e).__name__)
    finally:
        if st is not None:
            st.cache.executor.shutdown(wait=True)
        restore()
    return res


def count_fsyncs(history):
    return sum(1 for op in record(history) if op[0] in ('fsync', 'fsync_dir'))


def check_history(history, fail=None, fresh_root=False):
    """-> dict(counts..., violations).  fresh_root: the store root directory does not exist before the history (the first
    set creates it); only its parent exists durably."""
    out = {'images': 0, 'nontrivial': set(), 'prefixes': 0, 'violations': [], 'recoveries': 0, 'outcomes': set()}
    trace = record(history, fail, fresh_root)
    hist_s = ' ; '.join('set("%s",%s)' % (k, VNAMES[vi]) for k, vi in history)
    if fresh_root:
        hist_s = '[store root created by the first set] ' + hist_s
        out['fresh_root_runs'] = 1
    if fail is not None:
        hist_s += ' [fsync call #%d of the history fails with EIO]' % fail
        out['fsync_fault_runs'] = 1
    full = None
    for cut in range(len(trace) + 1):
        prefix = trace[:cut]
        acked, inflight, prev, maybe = {}, None, {}, {}
        for op in prefix:
            if op[0] == 'begin':
                inflight = (op[1], op[2])
            elif op[0] == 'ack':
                acked[op[1]] = op[2]
                maybe.pop(op[1], None)
                inflight = None
            elif op[0] == 'fail':
                # the set raised: it promised nothing, and like an interrupted set it may have harmed only its own key
                maybe.setdefault(op[1], []).append(op[2])
                inflight = None
        if cut > 0 and trace[cut - 1][0] in ('begin', 'close'):
            pass
        if cut > 0 and trace[cut - 1][0] in ('begin', 'fail'):
            continue                    # same file-system state as the previous prefix
        out['prefixes'] += 1
        imgs = images(prefix, base='/' if fresh_root else ROOT)
        for img, dirs in imgs:
            out['images'] += 1
            res = recover(img, dirs, make_root=not fresh_root)
            out['recoveries'] += 1
            sig = hash((tuple(sorted(img.items())), tuple(dirs), fresh_root)) & 0xffffffffffff
            out['nontrivial'].add(sig)
            out['outcomes'].add(hash(tuple(sorted(res.items()))) & 0xffffffff)
            for k in KEYS:
                r = res[k]
                if (inflight is not None and k == inflight[0]) or k in maybe:
                    allowed = [('ok', U)] + [('ok', cn(VALUES[v])) for v in maybe.get(k, ())]
                    if inflight is not None and k == inflight[0]:
                        allowed.append(('ok', cn(VALUES[inflight[1]])))
                    if k in acked:
                        allowed.append(('ok', cn(VALUES[acked[k]])))
                    if r[0] == 'exc' or r in allowed:
                        continue
                    cls, exp = 'inflight-key-reads-garbage', 'previous value, new value, :undefined or an error'
                elif k in acked:
                    if r == ('ok', cn(VALUES[acked[k]])):
                        continue
                    cls, exp = 'acknowledged-set-lost', VNAMES[acked[k]]
                else:
                    if r == ('ok', U):
                        continue
                    cls, exp = 'never-set-key-not-undefined', ':undefined'
                at = 'after op %d/%d (%s)' % (cut, len(trace), _opname(trace[cut - 1]) if cut else 'start')
                obs = 'key "%s" reads %s' % (k, _showres(r))
                out['violations'].append(dict(
                    key='%s | crash %s | %s' % (hist_s, at, cls), observed=obs, expected=exp, group=cls,
                    case={'history': [list(h) for h in history], 'cut': cut, 'fail': fail, 'fresh_root': fresh_root,
                          'trace': [_opname(o) for o in trace],
                          'image': {p: (d[:24].decode('latin1') + ('...' if len(d) > 24 else '')) + ' (%d bytes)' % len(d)
                                    for p, d in img.items()}, 'dirs': dirs},
                    snippet=None))
    return out


# ---------------------------------------------------------------------------------------------
# two epochs: a process killed inside a set, then a new process on the same directory (the page cache survives a process
# death, only a power loss drops what was not synced)

KEPT = ('begin', 'ack', 'mkdir', 'create', 'trunc', 'write', 'fsync', 'fsync_dir', 'close')


def volatile_state(prefix):
    """What a new process sees after the old one died at this point of its trace: every effect so far, synced or not."""
    dirs, files = {ROOT}, {}
    for op in prefix:
        if op[0] == 'mkdir':
            dirs.add(op[1])
        elif op[0] == 'create' or op[0] == 'trunc':
            files[op[1]] = b''
        elif op[0] == 'write':
            files[op[1]] = files.get(op[1], b'') + op[2]
    return sorted(dirs), files


def record_epoch2(dirs, files, k, do_get, vi2):
    fs = MemFS()
    fs.mkdirs(ROOT)
    for d in dirs:
        fs.mkdirs(d)
    for p, data in files.items():
        fs.put(p, data)
    _patch(fs)
    st = KeyValueStorage(ROOT)
    got = None
    try:
        if do_get:
            try:
                got = ('ok', cn(st.get(k)))
            except Exception as e:      # noqa: BLE001 - a torn value of the killed set may not unpickle
                got = ('exc', type(e).__name__)
        fs.log.append(('begin', k, vi2))
        st.set(k, VALUES[vi2])
        fs.log.append(('ack', k, vi2))
    finally:
        st.cache.executor.shutdown(wait=True)
        restore()
    return [op for op in fs.log if op[0] in KEPT], got


def two_epoch_cases(quick):
    out = []
    for k in (('a', 'd/x') if quick else KEYS):
        for vi in ((0,) if quick else (0, 2)):
            n = len(record([(k, vi)]))
            for kill_at in range(1, n):             # after the begin marker, before the ack
                for do_get in (False, True):
                    for vi2 in (vi, 1):             # the same value again (a retried set) or another one
                        out.append((k, vi, kill_at, do_get, vi2))
    return out


def check_two_epoch(case):
    k, vi, kill_at, do_get, vi2 = case
    out = {'images': 0, 'nontrivial': set(), 'prefixes': 0, 'violations': [], 'recoveries': 0, 'outcomes': set(),
           'two_epoch_histories': 1}
    t1 = record([(k, vi)])[:kill_at]
    dirs, files = volatile_state(t1)
    t2, got = record_epoch2(dirs, files, k, do_get, vi2)
    name = 'set("%s",%s) killed after op %d/%d (%s) ; new process: %sset("%s",%s)' % (
        k, VNAMES[vi], kill_at, len(t1), _opname(t1[-1]), ('get("%s") ; ' % k) if do_get else '', k, VNAMES[vi2])
    for cut in range(len(t2) + 1):
        if cut > 0 and t2[cut - 1][0] == 'begin':
            continue
        pre2 = t2[:cut]
        acked = any(op[0] == 'ack' for op in pre2)
        inflight = any(op[0] == 'begin' for op in pre2) and not acked
        out['prefixes'] += 1
        for img, idirs in images(t1 + pre2):
            out['images'] += 1
            res = recover(img, idirs)
            out['recoveries'] += 1
            out['nontrivial'].add(hash(('2', tuple(sorted(img.items())), tuple(idirs), cut)) & 0xffffffffffff)
            out['outcomes'].add(hash(tuple(sorted(res.items()))) & 0xffffffff)
            for key in KEYS:
                r = res[key]
                if key != k:
                    if r == ('ok', U):
                        continue
                    cls, exp = 'never-set-key-not-undefined', ':undefined'
                elif acked:
                    if r == ('ok', cn(VALUES[vi2])):
                        continue
                    cls, exp = 'acknowledged-set-lost', VNAMES[vi2]
                else:
                    allowed = [('ok', U), ('ok', cn(VALUES[vi]))] + ([('ok', cn(VALUES[vi2]))] if inflight else [])
                    if r[0] == 'exc' or r in allowed:
                        continue
                    cls, exp = 'inflight-key-reads-garbage', 'a value of an interrupted set, :undefined or an error'
                at = 'power loss after op %d/%d of the new process (%s)' % (cut, len(t2), _opname(t2[cut - 1]) if cut else 'start')
                out['violations'].append(dict(
                    key='%s | %s | %s' % (name, at, cls), observed='key "%s" reads %s' % (key, _showres(r)), expected=exp,
                    group=cls, case={'two_epoch': list(case), 'cut': cut, 'trace1': [_opname(o) for o in t1],
                                     'trace2': [_opname(o) for o in t2],
                                     'image': {p: '%d bytes' % len(d) for p, d in img.items()}, 'dirs': idirs},
                    snippet=None))
    return out


def _opname(op):
    if op[0] == 'write':
        return 'write %s %dB' % (op[1], len(op[2]))
    return ' '.join(str(x) for x in op)


def _showres(r):
    if r[0] == 'exc':
        return 'raise ' + r[1]
    s = show(r[1])
    return s if len(s) < 40 else s[:20] + '...(%d chars)' % len(s)


def histories(n):
    ops = [(k, vi) for k in KEYS for vi in range(len(VALUES))]
    out = []
    for ln in range(1, n + 1):
        out.extend(itertools.product(ops, repeat=ln))
    return out


# ---------------------------------------------------------------------------------------------
# binding the model to the code: the kernel sees the same sequence as memfs logs (strace on a real directory)

def strace_conformance(history):
    d = os.path.join(runner.scratch_dir(), 'strace')
    os.makedirs(d, exist_ok=True)
    root = os.path.join(d, 'root')
    import shutil
    shutil.rmtree(root, ignore_errors=True)
    os.makedirs(root)
    out = os.path.join(d, 'trace.txt')
    code = ('import sys\nfrom klongpy.db.sys_fn_kvs import KeyValueStorage\n'
            'st=KeyValueStorage(%r)\nV=%r\n' % (root, VALUES)
            + ''.join('st.set(%r,V[%d])\n' % (k, vi) for k, vi in history) + 'st.cache.executor.shutdown()\n')
    try:
        r = subprocess.run(['strace', '-f', '-e', 'trace=mkdir,openat,write,fsync,fdatasync,close', '-o', out,
                            sys.executable, '-c', code], capture_output=True, text=True, timeout=120)
    except (OSError, subprocess.TimeoutExpired) as e:
        return None, 'strace unavailable: %r' % (e,)
    if r.returncode != 0 or not os.path.exists(out):
        return None, 'strace failed: ' + r.stderr[-200:]
    import re
    fds = {}
    seq = []
    for line in open(out, errors='replace'):
        m = re.match(r'\d+\s+(\w+)\((.*)\)\s+=\s+(-?\d+)', line)
        if not m:
            continue
        call, args, ret = m.group(1), m.group(2), int(m.group(3))
        if call == 'mkdir':
            p = args.split('"')[1]
            if p.startswith(root + '/') and ret == 0:
                seq.append(('mkdir', p[len(root):]))
        elif call == 'openat':
            parts = args.split('"')
            if len(parts) > 1 and parts[1].startswith(root) and ret >= 0:
                rel = parts[1][len(root):]
                kind = 'dir' if 'O_DIRECTORY' in args or ('O_WRONLY' not in args and 'O_RDWR' not in args) else 'w'
                fds[ret] = (rel, kind)
                if kind == 'w':
                    seq.append(('open-w', rel))
        elif call in ('write', 'fsync', 'fdatasync', 'close'):
            fd = int(args.split(',')[0])
            if fd in fds:
                rel, kind = fds[fd]
                if call == 'write':
                    seq.append(('write', rel, ret))
                elif call == 'close':
                    if kind == 'w':
                        seq.append(('close', rel))
                    del fds[fd]
                else:
                    seq.append(('fsync_dir' if kind == 'dir' else 'fsync', rel or '/'))
    mem = []
    for op in record(history):
        k = op[0]
        rel = op[1][len(ROOT):] if len(op) > 1 and isinstance(op[1], str) and op[1].startswith(ROOT) else None
        if k == 'mkdir':
            mem.append(('mkdir', rel))
        elif k in ('create', 'trunc'):
            mem.append(('open-w', rel))
        elif k == 'write':
            mem.append(('write', rel, len(op[2])))
        elif k == 'fsync':
            mem.append(('fsync', rel))
        elif k == 'fsync_dir':
            mem.append(('fsync_dir', rel or '/'))
        elif k == 'close':
            mem.append(('close', rel))
    shutil.rmtree(root, ignore_errors=True)
    return (seq == mem), {'strace': seq, 'memfs': mem}


# ---------------------------------------------------------------------------------------------
# real process killed at every operation boundary (page cache intact: only "harms no other key / store still opens")

KILL_DRIVER = r'''
import os, sys, builtins
import klongpy.db.file_cache as fc
from klongpy.db.sys_fn_kvs import KeyValueStorage
root, kill_at, hist = sys.argv[1], int(sys.argv[2]), eval(sys.argv[3])
V = %r
count = [0]
def tick():
    if count[0] == kill_at:
        os._exit(77)
    count[0] += 1
class OsProxy:
    def __getattr__(self, n):
        return getattr(os, n)
    def makedirs(self, *a, **k):
        tick(); return os.makedirs(*a, **k)
    def fsync(self, fd):
        tick(); return os.fsync(fd)
class F:
    def __init__(self, f): self.f = f
    def write(self, b): tick(); return self.f.write(b)
    def fileno(self): return self.f.fileno()
    def flush(self): return self.f.flush()
    def read(self, *a): return self.f.read(*a)
    def __enter__(self): return self
    def __exit__(self, *a): tick(); self.f.close(); return False
def my_open(p, mode='r', *a, **k):
    if 'w' in mode: tick()
    return F(builtins.open(p, mode, *a, **k))
fc.os = OsProxy(); fc.open = my_open
st = KeyValueStorage(root)
for k, vi in hist:
    st.set(k, V[vi])
    print('ACK', k, vi, flush=True)
os._exit(0)
'''


def kill_runs(history):
    """Kill a real process at every boundary of the history; the parent then opens the directory."""
    import shutil
    out = {'kill_runs': 0, 'violations': []}
    base = os.path.join(runner.scratch_dir(), 'kill.%d' % os.getpid())
    env = dict(os.environ)
    k = 0
    while True:
        root = os.path.join(base, 'r%d' % k)
        shutil.rmtree(root, ignore_errors=True)
        os.makedirs(root)
        r = subprocess.run([sys.executable, '-c', KILL_DRIVER % (VALUES,), root, str(k), repr(list(history))],
                           capture_output=True, text=True, env=env, timeout=120)
        acked = {}
        for line in r.stdout.splitlines():
            if line.startswith('ACK '):
                _, key, vi = line.split()
                acked[key] = int(vi)
        inflight = None
        if r.returncode == 77:
            n_ack = len([ln for ln in r.stdout.splitlines() if ln.startswith('ACK ')])
            inflight = history[n_ack][0] if n_ack < len(history) else None
        st = KeyValueStorage(root)
        try:
            for key in KEYS:
                try:
                    got = ('ok', cn(st.get(key)))
                except Exception as e:      # noqa: BLE001
                    got = ('exc', type(e).__name__)
                if key == inflight:
                    continue
                exp = ('ok', cn(VALUES[acked[key]])) if key in acked else ('ok', U)
                if got != exp:
                    out['violations'].append(dict(
                        key='%s | process killed at boundary %d | other-key-harmed' % (list(history), k),
                        observed='key "%s" reads %s' % (key, _showres(got)), expected=_showres(exp), group='kill',
                        case={'history': [list(h) for h in history], 'kill_at': k}))
        finally:
            st.cache.executor.shutdown(wait=True)
        out['kill_runs'] += 1
        shutil.rmtree(root, ignore_errors=True)
        if r.returncode == 0:
            break
        if r.returncode != 77:
            raise runner.HarnessError('kill driver failed: ' + r.stderr[-300:])
        k += 1
    shutil.rmtree(base, ignore_errors=True)
    return out


def run(cfg):
    logging.disable(logging.CRITICAL)
    rep = runner.Report('C17', 'fault_enumeration')
    hs = histories(cfg.pick(2, 3))

    def work(chunk):
        t = {}
        for h, fail, *fr in chunk:
            runner.merge_counts(t, check_history(h, fail, bool(fr and fr[0])))
        return t

    # environment deviation, bound 1: any single fsync call of the history fails (EIO) and syncs nothing
    jobs = [(h, None) for h in hs]
    for h in hs:
        if len(h) <= cfg.pick(2, 3):
            jobs.extend((h, i) for i in range(count_fsyncs(h)))
    # the store root does not exist before the first set (its parent does): histories of <= 2 sets, and each of their fsync
    # calls failing in turn
    for h in hs:
        if len(h) <= 2:
            jobs.append((h, None, True))
            if len(h) == 1:
                jobs.extend((h, i, True) for i in range(sum(1 for op in record(h, None, True) if op[0] in ('fsync', 'fsync_dir'))))
    total = {}
    for part in runner.pmap(work, jobs, cfg):
        runner.merge_counts(total, part)
    te = two_epoch_cases(cfg.quick)

    def work2(chunk):
        t = {}
        for c in chunk:
            runner.merge_counts(t, check_two_epoch(c))
        return t
    for part in runner.pmap(work2, te, cfg):
        runner.merge_counts(total, part)
    rep.extend_violations(total.get('violations', []))
    # a get or set of the same key in flight while the set is called (c17_concurrent: every schedule up to the bound)
    from . import c17_concurrent
    conc = {}
    cunits = [(c, c.get('bound', cfg.pick(1, 2))) for c in c17_concurrent.configurations(cfg.quick)]
    for part in runner.pmap(c17_concurrent.work, cunits, cfg, chunk=1):
        runner.merge_counts(conc, part)
    rep.extend_violations(conc.get('violations', []))
    conf_hist = [('a', 0), ('d/x', 2), ('a', 1), ('d/x', 0)]
    ok, detail = strace_conformance(conf_hist)
    if ok is False:
        raise runner.HarnessError('memfs trace differs from the kernel-level trace under strace: %s' % json.dumps(detail))
    kill = {'kill_runs': 0}
    if not cfg.quick:
        khs = [h for h in histories(2) if len(h) == 2 and len({k for k, _ in h}) == 2][:12] + [(('a', 0), ('a', 2)), (('d/x', 2), ('d/x', 0))]

        def kwork(chunk):
            t = {}
            for h in chunk:
                runner.merge_counts(t, kill_runs(h))
            return t
        for part in runner.pmap(kwork, khs, cfg, chunk=1):
            runner.merge_counts(kill, part)
        rep.extend_violations(kill.get('violations', []))
    sample_trace = [_opname(o) for o in record([('d/x', 0)])]
    rep.coverage = {
        'evaluations': total.get('recoveries', 0) + kill['kill_runs'] + conc.get('conc_recoveries', 0),
        'concurrent_part': {'configurations': [c['name'] for c, _ in cunits], 'preemption_bound_completed': {c['name']: b for c, b in cunits},
                            'schedules_executed': conc.get('conc_executions', 0),
                            'scheduling_points': conc.get('conc_transitions', 0),
                            'executions_by_preemptions': conc.get('conc_by_preemptions', {}),
                            'crash_images_recovered': conc.get('conc_recoveries', 0),
                            'distinct_outcomes': len(conc.get('conc_outcomes', ())),
                            'oracle': 'every call returns; history linearizable with every returned set taking effect; every '
                                      'crash image of the complete trace reads a final value of those linearizations'},
        'distinct_nontrivial': len(total.get('nontrivial', ())),
        'rule': 'every history of <= %d sets over 3 keys (flat, nested) x 3 values (two of 20 bytes, one of 20000 bytes); '
                'for every prefix of the recorded kernel-level trace every crash image allowed by the persistence model '
                '(entries persisted/lost independently, per-file pending operations in order, written data as byte prefix '
                '1, n/2, n-1, n) is materialised and recovered with a fresh KeyValueStorage; distinct = distinct '
                '(history position, image) pairs by content' % cfg.pick(2, 3),
        'samples': [{'history': 'set("d/x",small1)', 'trace': sample_trace}],
        'exhaustive': True,
        'histories': len(hs),
        'two_epoch_histories (process killed inside a set at every trace position, new process: [get,] set same/other value, '
        'power loss at every position)': total.get('two_epoch_histories', 0),
        'runs_with_one_failing_fsync (every fsync call of every history, one at a time)': total.get('fsync_fault_runs', 0),
        'runs_with_a_store_root_created_by_the_first_set': total.get('fresh_root_runs', 0),
        'trace_prefixes': total.get('prefixes', 0),
        'crash_images': total.get('images', 0),
        'distinct_recovery_outcomes': len(total.get('outcomes', ())),
        'kill_at_boundary_runs': kill['kill_runs'],
        'strace_conformance': ('memfs trace == syscall trace for %s' % (conf_hist,)) if ok else str(detail),
    }
    rep.assumptions = [
        'POSIX-style persistence model as stated in the module docstring (a model of the standard, not of one kernel)',
        'memfs places the real io.BufferedWriter on top of a raw in-memory file, so buffering is the real one; the '
        'resulting operation sequence is compared with strace of the same history on a real directory',
        'the store root directory exists durably before the history, or (fresh-root runs) its parent does and the first set creates it',
        'kill-at-boundary runs keep the page cache: they only show that no other key is harmed and the store opens',
        'concurrent part: thread switches only at scheduling points (lock, submit, task start, future wait, file-system '
        'calls, unlocked accesses to the shared fields of the cache), as in C18',
    ]
    return rep


def replay(cfg, path):
    logging.disable(logging.CRITICAL)
    with open(path) as f:
        r = json.load(f)
    case = r['case']
    if case.get('kind') == 'concurrent':
        from . import c17_concurrent
        return c17_concurrent.replay(case)
    hist = [tuple(h) for h in case['history']]
    if 'kill_at' in case:
        print(kill_runs(hist))
        return 0
    fr = bool(case.get('fresh_root'))
    trace = record(hist, case.get('fail'), fr)
    for i, op in enumerate(trace):
        print('%2d %s%s' % (i + 1, _opname(op), '   <-- crash after this' if i + 1 == case['cut'] else ''))
    for img, dirs in images(trace[:case['cut']], base='/' if fr else ROOT):
        print({p: len(d) for p, d in img.items()}, dirs, '->',
              {k: _showres(v) for k, v in recover(img, dirs, make_root=not fr).items()})
    return 0

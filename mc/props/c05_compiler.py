"""C05 - compiled and interpreted execution of an expression are indistinguishable  (E1, level model_checking).

Bounded exhaustive product

    expressions of the compilable grammar  x  evaluation positions  x  bindings of a, b  x  rebinding histories of a
    x  backends {numpy, torch-cpu}

Each case is one *history*: bind b, bind a, evaluate the program, rebind a (Klong `a::v` or Python klong['a']=v),
evaluate the SAME text / the same function again, (rebind, evaluate) once more.  It is run twice on real code:

    subject : a KlongInterpreter with the real klongpy.interpreter.compile_expr (wrapped only to count),
    twin    : a KlongInterpreter evaluated while klongpy.interpreter.compile_expr is a stub returning None
              (the observation point named by the property; the stub counts its calls, so "the twin took the
              interpreted path" is measured, not assumed).

After every evaluation the two canonical outcomes (values.cn, int/real kind kept) must be equal; a failure
(:undefined or an exception) on one side must be a failure on the other (exception classes are not compared).

Interpreter reuse.  Creating an interpreter costs ~0.5 ms, a case ~0.1 ms, so one interpreter pair per backend is
reused by a worker.  Reuse is itself a rebinding history, so it is made sound, not assumed:  the whole mutable state
of a KlongInterpreter is {_context, _parse_cache, _compiled_cache, _module} (checked against vars() at creation);
AST nodes - the carriers of the `_compiled` memo - are reachable only from _parse_cache and from function values in
the global scope.  `Env.reset` empties the global scope and both caches and checks that the scope stack has its
creation-time depth and (every 256 cases and at the end of every chunk) that the system scopes still hold the
identical objects as at creation.  After reset no AST node of an earlier case is reachable.  In addition phase X
re-runs a complete sub-product with one brand-new interpreter pair per history and demands outcome-for-outcome
equality with the reused pair (a difference is a HarnessError).

The product is too large to be run as one block (2-node expressions x 6 positions x 121 bindings x histories), so it
is cut into phases, each a COMPLETE product over its stated sets (`build_phases`; sizes and universes are written to
the evidence).  A history of length n judges all its prefixes, each distinct prefix exactly once.

Reporting.  One root cause fails in thousands of enumerated cases; each failing case is reduced to the smallest
failing case(s) that explain it (see `minimise`) and those are reported, with a root-cause `group`.  The number of
failing enumerated cases is in coverage.failing_cases_before_reduction.
"""
import hashlib
import json
import time
import warnings

import klongpy.interpreter as ki
from klongpy import KlongInterpreter
from klongpy.types import KGSym, KGFn, KGCall, KGOp, KGAdverb

from .. import runner
from ..values import I, R, S, L, D, U, cn, lit, show, close, has_literal, _promote, _block_shape
from ..values import show_outcome as _show_outcome

PID = 'C05'

# ---------------------------------------------------------------------------------------------
# expression grammar
#
# tree :=  leaf                      'a' | 'b' | '2' | '0.5' | '0'
#       |  ('n', tree)               negate            -E
#       |  ('r', op, tree)           reduce            op/E
#       |  ('s', op, tree)           scan              op\E
#       |  ('b', op, tree, tree)     binop / cmp       L op R

LEAVES = ('a', 'b', '2', '0.5', '0')
BIN_FULL = ('+', '-', '*', '%', '^', '>', '<', '=')
UN_FULL = (('n',),) + tuple(('r', o) for o in '+*|&') + tuple(('s', o) for o in '+*|&')
# reduced set for 3-node expressions: one representative per IR node kind (binop -, cmp <, negate, reduce +/, scan +\),
# plus the partner of each order-sensitive representative that is a mirror pair (< and >), plus ^ (the one binop whose
# result kind depends on the operand values); both operand orders of every binary operator arise from the tree
# enumeration itself.
BIN_RED = ('-', '^', '<', '>')
UN_RED = (('n',), ('r', '+'), ('s', '+'))
# 3-node expressions leave ^ out: compiled code computes a^b with unbounded Python integers, and three nested powers
# (a::4; a^a^a^a = 4^4^256) do not terminate inside one uninterruptible C call - no per-case watchdog can stop that
# (the interpreter answers at once with an OverflowError).  The defect is reported from a directed probe instead
# (`power_tower_probe`); with <= 2 nodes the largest power is 4^4^4 (155 digits).  % takes the place of ^.
BIN_RED3 = ('-', '%', '<', '>')


def gen_exprs(max_nodes, unary, binary, leaves=LEAVES):
    """All trees with 0..max_nodes operator nodes; returns list of lists by node count."""
    by_n = [list(leaves)]
    for n in range(1, max_nodes + 1):
        cur = []
        for u in unary:
            for c in by_n[n - 1]:
                cur.append(u + (c,))
        for o in binary:
            for k in range(0, n):
                for l in by_n[k]:
                    for r in by_n[n - 1 - k]:
                        cur.append(('b', o, l, r))
        by_n.append(cur)
    return by_n


def text(t, ren=None):
    """Klong source of a tree.  Klong evaluates right to left without precedence: the right operand of a dyad and the
    operand of a prefix operator extend to the end of the expression, so only non-leaf LEFT operands need parentheses."""
    if isinstance(t, str):
        return ren.get(t, t) if ren else t
    k = t[0]
    if k == 'n':
        return '-' + text(t[1], ren)
    if k == 'r':
        return t[1] + '/' + text(t[2], ren)
    if k == 's':
        c = text(t[2], ren)
        return t[1] + '\\' + ('(' + c + ')' if c[0] == '*' else c)     # `\*` would read as the adverb Scan-Iterating
    l = text(t[2], ren)
    if not isinstance(t[2], str):
        l = '(' + l + ')'
    return l + t[1] + text(t[3], ren)


def uses(t, v):
    if isinstance(t, str):
        return t == v
    if t[0] == 'b':
        return uses(t[2], v) or uses(t[3], v)
    return uses(t[-1], v)


def nodes(t):
    if isinstance(t, str):
        return 0
    if t[0] == 'b':
        return 1 + nodes(t[2]) + nodes(t[3])
    return 1 + nodes(t[-1])


def ast_shape(n):
    """Parsed klongpy AST -> tree of the grammar above (None if it is something else).  Used to prove that every
    generated text denotes the intended tree."""
    if isinstance(n, KGSym):
        return str.__str__(n)
    if type(n) is int or type(n) is float:
        return repr(n)
    if isinstance(n, KGCall) and n.is_adverb_chain():
        ch = n.a
        if isinstance(ch, list) and len(ch) == 3 and isinstance(ch[0], KGAdverb) and isinstance(ch[0].a, KGOp) \
                and isinstance(ch[1], KGAdverb):
            c = ast_shape(ch[2])
            if c is None:
                return None
            return ('r' if ch[1].a == '/' else 's' if ch[1].a == '\\' else '?', ch[0].a.a, c)
        return None
    if isinstance(n, KGFn) and n.is_op():
        if n.a.arity == 2 and isinstance(n.args, list) and len(n.args) == 2:
            l, r = ast_shape(n.args[0]), ast_shape(n.args[1])
            return None if l is None or r is None else ('b', n.a.a, l, r)
        if n.a.arity == 1 and n.a.a == '-':
            a = n.args[0] if isinstance(n.args, list) else n.args
            c = ast_shape(a)
            return None if c is None else ('n', c)
    return None


# ---------------------------------------------------------------------------------------------
# positions

POSITIONS = ('top', 'fn', 'lam', 'cnt', 'join', 'arr')
REN = {'a': 'x', 'b': 'y'}


def program(pos, t):
    """-> (setup text or None, evaluated text).  The evaluated text is the SAME string at every step of a history."""
    e = text(t)
    if pos == 'top':
        return None, e
    if pos == 'fn':
        return 'f::{' + e + '}', 'f()'
    if pos == 'lam':
        ua, ub = uses(t, 'a'), uses(t, 'b')
        args = (('a' if ua else '0') + ';b') if ub else ('a' if ua else '')
        return None, '{' + text(t, REN) + '}(' + args + ')'
    if pos == 'cnt':
        return None, '#' + e
    if pos == 'join':
        return None, (e if isinstance(t, str) else '(' + e + ')') + ',1'
    if pos == 'arr':
        return None, '[;' + e + ';' + e + ']'
    raise ValueError(pos)


def check_parse(kl, pos, t):
    """The generated text must parse to the intended tree in the intended position (else the harness is wrong)."""
    setup, ev = program(pos, t)
    src = setup if pos == 'fn' else ev
    p = kl.prog(src)[1]
    ok = len(p) == 1
    if ok:
        n = p[0]
        try:
            if pos == 'top':
                got = [ast_shape(n)]
            elif pos == 'fn':
                got = [ast_shape(n.args[1].a)] if n.a.a == '::' else [None]
            elif pos == 'lam':
                got = [_unren(ast_shape(n.a if not isinstance(n.a, KGFn) or n.a.is_op() or n.a.is_adverb_chain()
                                        else n.a.a))]
            elif pos == 'cnt':
                got = [ast_shape(n.args if not isinstance(n.args, list) else n.args[0])] if n.a.a == '#' else [None]
            elif pos == 'join':
                got = [ast_shape(n.args[0])] if n.a.a == ',' and n.args[1] == 1 else [None]
            else:
                got = [ast_shape(x) for x in n] if len(n) == 2 else [None]
        except Exception:       # noqa: BLE001
            got = [None]
        ok = all(g == t for g in got)
    if not ok:
        raise runner.HarnessError('C05 generator: %r does not parse to %r at %s' % (src, t, pos))


def _unren(t):
    if t is None:
        return None
    if isinstance(t, str):
        return {'x': 'a', 'y': 'b'}.get(t, t)
    k = t[0]
    if k == 'n':
        return ('n', _unren(t[1]))
    if k in 'rs':
        return (k, t[1], _unren(t[2]))
    return ('b', t[1], _unren(t[2]), _unren(t[3]))


# ---------------------------------------------------------------------------------------------
# bindings

UNIV = (I(4), I(0), I(-3), R(2.5), L(I(1), I(2), I(3)), L(R(1.5), R(2.5)), L(), L(L(I(1), I(2)), L(I(3), I(4))),
        L(I(1), L(I(2), I(3))), S('ab'), D([(I(1), I(2))]),
        # beyond U11 (only phase Z binds them): vectors whose reductions are the special value 0 - as a NumPy integer,
        # not a Python number - so that the zero tests of Divide and Power meet a computed zero (sum, product / min, max)
        L(I(1), I(-1)), L(I(0), I(1), I(2)), L(I(-3), I(0)), L(R(0.0), R(0.0)))
ULIT = tuple(lit(v) for v in UNIV)
NU = 11                         # U11: the universe of the complete products
ZERO_RED = (11, 12, 13, 14)     # Z4: the zero-reducing vectors
# sub-universes (indices into UNIV) used where the full product is out of reach; every phase names the one it uses
SUB6 = (0, 3, 4, 6, 7, 9)       # U6: one value per admission / shape class: 4, 2.5, [1 2 3], [], [[1 2] [3 4]], "ab"
SUB4 = (0, 4, 7, 9)             # U4: 4, [1 2 3], [[1 2] [3 4]], "ab"
SUB_B3 = (0, 3, 4)              # B3: 4, 2.5, [1 2 3]
SUB_B2 = (0, 4)                 # B2: 4, [1 2 3]
STYLES = ('kg', 'py')           # a::v evaluated as Klong text  /  klong['a'] = value from Python
# Both styles end in KlongInterpreter.__setitem__ (Define calls it), which clears _compiled_cache; what survives a
# rebinding is the `_compiled` memo on AST nodes below the root.  Note on -3: `a::-3` evaluates Negate(3) and binds a
# NumPy integer, which compile_expr does NOT admit (only Python int/float and ndarray): the universe therefore has
# admitted atoms (4, 0, 2.5), a non-admitted atom (-3), admitted arrays (numeric, empty, rank 2, object/nested) and
# non-admitted values (string, dictionary).


# ---------------------------------------------------------------------------------------------
# the pair of interpreters

class Stat:
    real_calls = 0          # compile_expr attempts (subject)
    compiled = 0            # attempts that produced code
    ran = 0                 # compiled code that ran to completion and produced the value
    raised = 0              # compiled code that raised (interpreter fallback)
    stub_calls = 0          # compile_expr attempts answered by the stub (twin)


_REAL = ki.compile_expr


def _traced_compile(ast, klong):
    Stat.real_calls += 1
    r = _REAL(ast, klong)
    if not r:
        return r
    Stat.compiled += 1
    fn, syms = r

    def counted(*a):
        try:
            v = fn(*a)
        except Exception:
            Stat.raised += 1
            raise
        Stat.ran += 1
        return v
    return (counted, syms)


def _stub_compile(ast, klong):
    Stat.stub_calls += 1
    return None


STATE_ATTRS = {'_backend', '_context', '_vd', '_vm', '_start_time', '_module', '_parse_cache', '_compiled_cache'}


def make_interp(backend):
    if backend == 'numpy':
        return KlongInterpreter()
    return KlongInterpreter(backend='torch', device='cpu')


class Env:
    """Subject and twin interpreter of one backend, reusable across cases (see module docstring)."""

    def __init__(self, backend):
        self.backend = backend
        self.rebuild()

    def rebuild(self):
        ki.compile_expr = _REAL
        backend = self.backend
        self.sub = make_interp(backend)
        self.twin = make_interp(backend)
        self.snap = []
        for kl in (self.sub, self.twin):
            if set(vars(kl)) != STATE_ATTRS:
                raise runner.HarnessError('C05: KlongInterpreter has state the reset does not know: %r'
                                          % sorted(set(vars(kl)) ^ STATE_ATTRS))
            stack = kl._context._context
            if len(stack[0]) != 0:
                raise runner.HarnessError('C05: fresh interpreter has a non-empty global scope')
            self.snap.append((len(stack), [dict(d) for d in list(stack)[1:]]))
        self.n = 0

    def reset(self):
        self.n += 1
        deep = (self.n & 255) == 0
        for kl, (depth, sysd) in zip((self.sub, self.twin), self.snap):
            stack = kl._context._context
            if len(stack) != depth or kl._module is not None:
                raise runner.HarnessError('C05 reuse: scope stack / module changed')
            stack[0].clear()
            kl._parse_cache.clear()
            kl._compiled_cache.clear()
            if deep:
                self.deep_check()

    def deep_check(self):
        for kl, (depth, sysd) in zip((self.sub, self.twin), self.snap):
            for d, s in zip(list(kl._context._context)[1:], sysd):
                if len(d) != len(s) or any(d.get(k, d) is not v for k, v in s.items()):
                    raise runner.HarnessError('C05 reuse: a system scope changed')


class FreshEnv:
    """One brand-new interpreter pair per history (cross-check of Env)."""

    def __init__(self, backend):
        self.backend = backend
        self.sub = self.twin = None

    def reset(self):
        self.sub = make_interp(self.backend)
        self.twin = make_interp(self.backend)

    def rebuild(self):
        ki.compile_expr = _REAL

    def deep_check(self):
        pass


def _outcome(kl, src):
    try:
        return ('ok', cn(kl(src)))
    except RecursionError:
        return ('exc', 'RecursionError')
    except Exception as e:      # noqa: BLE001 - every failure class is an observation
        return ('exc', type(e).__name__)


def vlit(v):
    """A binding is an index into UNIV (enumerated cases) or a literal text (reduced cases, see `minimise`)."""
    return ULIT[v] if isinstance(v, int) else v


def run_side(kl, setup, ev, b0, hist):
    """Bind, evaluate, rebind, evaluate ... on one interpreter; returns the list of outcomes (one per evaluation).
    hist = ((style, binding) ...) for a; the first style is always 'kg'.  b0 = binding or None."""
    if b0 is not None:
        kl('b::' + vlit(b0))
    outs = []
    first = True
    for style, ai in hist:
        if style == 'kg':
            kl('a::' + vlit(ai))
        else:
            kl['a'] = kl(vlit(ai))
        if first:
            first = False
            if setup is not None:
                kl(setup)
        outs.append(_outcome(kl, ev))
    if not hist:
        if setup is not None:
            kl(setup)
        outs.append(_outcome(kl, ev))
    return outs


def run_history(env, setup, ev, b0, hist):
    env.reset()
    ki.compile_expr = _traced_compile
    try:
        so = run_side(env.sub, setup, ev, b0, hist)
        ran_after_subject = Stat.ran
        ki.compile_expr = _stub_compile
        real_before = Stat.real_calls
        to = run_side(env.twin, setup, ev, b0, hist)
        if Stat.ran != ran_after_subject or Stat.real_calls != real_before:
            raise runner.HarnessError('C05: the twin executed compiled code')
    finally:
        ki.compile_expr = _REAL
    return so, to


def _shrink_ints(c):
    """Canonical value with integers beyond 60 digits replaced by a symbol carrying bit length and a hex digest (compiled
    code computes with unbounded Python integers: 4^4^8 has 39457 digits and CPython refuses to print it)."""
    if c[0] == 'i' and c[1].bit_length() > 200:
        return ('y', 'int~%dbits~%s' % (c[1].bit_length(), hashlib.sha1(hex(c[1]).encode()).hexdigest()[:10]))
    if c[0] == 'l':
        return ('l', tuple(_shrink_ints(e) for e in c[1]))
    return c


def show_outcome(o):
    return _show_outcome(('ok', _shrink_ints(o[1])) if o[0] == 'ok' else o)


def failure(o):
    return o[0] == 'exc' or o[1] == U


def same(a, b):
    """Equality demanded by the property.  NaN equals NaN, -0.0 equals 0.0; everything else exact, kind included."""
    if a[0] == 'ok' and b[0] == 'ok':
        return a[1] == b[1] or close(a[1], b[1], rtol=0.0, atol=0.0)
    return failure(a) and failure(b)


# ---------------------------------------------------------------------------------------------
# plans: which histories are run for a program

class Plan:
    """depth 1..3; A = indices for a at every step, B = indices for b, styles = rebinding styles."""

    def __init__(self, name, depth, A, B, styles=STYLES):
        self.name, self.depth, self.A, self.B, self.styles = name, depth, tuple(A), tuple(B), tuple(styles)

    def count(self, ua, ub):
        nb = len(self.B) if ub else 1
        if not ua:
            return nb
        na, ns = len(self.A), len(self.styles)
        n = na
        for _ in range(self.depth - 1):
            n *= (na - 1) * ns
        return nb * n

    def histories(self, ua, ub, bsel=None):
        """Yields (b0, hist, first_flags): first_flags[i] is True when the prefix ending at evaluation i is met for
        the first time in this enumeration (so every distinct prefix is judged exactly once)."""
        B = (self.B if bsel is None else bsel) if ub else (None,)
        if not ua:
            for b0 in B:
                yield b0, (), (True,)
            return
        d = self.depth
        steps = [(s, a) for s in self.styles for a in self.A]
        for b0 in B:
            for a0 in self.A:
                h0 = (('kg', a0),)
                if d == 1:
                    yield b0, h0, (True,)
                    continue
                f1 = True
                for s1 in steps:
                    if s1[1] == a0:
                        continue
                    if d == 2:
                        yield b0, h0 + (s1,), (f1, True)
                        f1 = False
                        continue
                    f2 = True
                    for s2 in steps:
                        if s2[1] == s1[1]:
                            continue
                        yield b0, h0 + (s1, s2), (f1, f2, True)
                        f1 = f2 = False


def hist_text(setup, ev, b0, hist, upto):
    parts = []
    if b0 is not None:
        parts.append('b::' + vlit(b0))
    for i, (style, ai) in enumerate(hist[:upto + 1]):
        parts.append(('a::' if style == 'kg' else 'py:a=') + vlit(ai))
        if i == 0 and setup is not None:
            parts.append(setup)
        parts.append(ev)
    if not hist:
        if setup is not None:
            parts.append(setup)
        parts.append(ev)
    return ' ; '.join(parts)


def snippet(backend, setup, ev, b0, hist, upto):
    steps = []
    if b0 is not None:
        steps.append(('do', 'b::' + vlit(b0)))
    for i, (style, ai) in enumerate(hist[:upto + 1]):
        steps.append(('do', 'a::' + vlit(ai)) if style == 'kg' else ('py', vlit(ai)))
        if i == 0 and setup is not None:
            steps.append(('do', setup))
        steps.append(('ev', ev))
    if not hist:
        if setup is not None:
            steps.append(('do', setup))
        steps.append(('ev', ev))
    kw = '' if backend == 'numpy' else "backend='torch', device='cpu'"
    return ('import klongpy.interpreter as ki\nfrom klongpy import KlongInterpreter\n'
            'STEPS = %r\n'
            'def run(compiled):\n'
            '    real = ki.compile_expr\n'
            '    if not compiled:\n'
            '        ki.compile_expr = lambda ast, klong: None      # the interpreter-only twin\n'
            '    try:\n'
            '        k = KlongInterpreter(%s)\n'
            '        out = []\n'
            '        for kind, src in STEPS:\n'
            "            if kind == 'py':\n"
            "                k['a'] = k(src)\n"
            "            elif kind == 'do':\n"
            '                k(src)\n'
            '            else:\n'
            '                try:\n'
            '                    out.append(repr(k(src)))\n'
            '                except Exception as e:\n'
            "                    out.append('exc ' + type(e).__name__)\n"
            '        return out\n'
            '    finally:\n'
            '        ki.compile_expr = real\n'
            "print('compiled   :', run(True))\nprint('interpreted:', run(False))\n" % (steps, kw))


# ---------------------------------------------------------------------------------------------
# root-cause labels (assigned by inspection of the failing case; used for triage only, never for the verdict)

def _shape(c):
    return ('l', tuple(_shape(e) for e in c[1])) if c[0] == 'l' else ('n',) if c[0] in 'ir' else (c[0],)


def diff_class(a, b):
    if a[0] != 'ok' or b[0] != 'ok':
        return 'value-vs-error' if a[0] == 'ok' else 'error-vs-value'
    ca, cb = a[1], b[1]
    if ca == U or cb == U:
        return 'undefined-vs-value' if ca == U else 'value-vs-undefined'
    pa, pb = _promote(ca), _promote(cb)
    if close(pa, pb, 0.0, 0.0):
        return 'kind'
    if close(pa, pb, 1e-6, 0.0):
        return 'rounding'
    return 'value' if _shape(ca) == _shape(cb) else 'shape'


def root_label(t):
    if isinstance(t, str):
        return 'leaf'
    if t[0] == 'n':
        return 'negate'
    if t[0] == 'r':
        return 'reduce' + t[1]
    if t[0] == 's':
        return 'scan' + t[1]
    return ('cmp' if t[1] in '<>=' else 'binop') + t[1]


def value_kind(o):
    if o[0] != 'ok':
        return 'error'
    c = o[1]
    k = c[0]
    if k == 'l':
        if not c[1]:
            return 'empty'
        sh = _block_shape(c)
        return 'nested' if sh is None else 'vector' if len(sh) == 1 else 'matrix'
    return {'i': 'int', 'r': 'real', 'u': 'undefined', 's': 'string', 'd': 'dict'}.get(k, k)


def operand_kinds(env, t, b0, hist, out):
    """Kinds of the interpreter's values of the root's operands under the final bindings."""
    ks = []
    for c in slots(t):
        ua, ub = uses(c, 'a'), uses(c, 'b')
        ks.append(value_kind(sub_run(env, 'top', c, b0 if ub else None, final_only(hist) if ua else (), out)[1]))
    return ks


def classify(env, pos, t, b0, hist, a, b, out):
    """Root-cause label of a reduced failing case (triage aid; assigned from where the reduced case fails and how)."""
    if len(hist) >= 2:
        return 'stale-node-memo'
    if isinstance(t, str):
        return 'other:leaf'
    d = diff_class(a, b)
    tb = '' if env.backend == 'numpy' else 'torch-'

    def pattern(n):
        """Known defect pattern at node n (operator + kinds of the interpreter's operand values), or None."""
        ks = operand_kinds(env, n, b0, hist, out)
        if n[0] == 's' and ks[0] in ('int', 'real', 'matrix', 'nested'):
            return tb + 'scan-of-' + ('atom' if ks[0] in ('int', 'real') else ks[0])
        if n[0] == 'r' and ks[0] in ('empty', 'matrix', 'nested'):
            return tb + 'reduce-of-' + ks[0]
        if n[0] == 'b' and n[1] == '^':
            if d == 'kind':
                return tb + 'power-result-kind'
            if d == 'rounding':
                return tb + 'power-rounding'
            if 'nested' in ks or 'matrix' in ks:
                return tb + 'power-nested-operands'
            if a[0] == 'ok' and 'complex' in show(_shrink_ints(a[1])):
                return tb + 'power-negative-base'
            return tb + 'power-inf-or-overflow'
        if n[0] == 'b' and n[1] == '%':
            if tb and d == 'rounding':
                return 'torch-divide-float32'
            if ks[1] in ('int', 'real'):
                c = n[3]
                ua, ub = uses(c, 'a'), uses(c, 'b')
                o = sub_run(env, 'top', c, b0 if ub else None, final_only(hist) if ua else (), out)[1]
                if o[0] == 'ok' and o[1][1] == 0:
                    return tb + 'divide-by-zero'
        return None

    def search(n):
        # operands first: in a reduced case an operand that contains a variable does not fail on its own, so a pattern
        # below the root can only sit in a variable-free operand (never compiled on its own) and is then the cause
        if isinstance(n, str):
            return None
        for c in slots(n):
            p = search(c)
            if p is not None:
                return p
        return pattern(n)

    p = search(t)
    if p is not None:
        return p
    ks = operand_kinds(env, t, b0, hist, out)
    return tb + 'other:' + root_label(t) + ':' + d + ':' + '/'.join(ks) + ('' if pos == 'top' else '@' + pos)


# ---------------------------------------------------------------------------------------------
# worker

_ENVS = {}


def get_env(backend, fresh=False):
    key = (backend, fresh)
    e = _ENVS.get(key)
    if e is None:
        warnings.simplefilter('ignore', RuntimeWarning)         # numpy overflow / invalid-value chatter only
        warnings.filterwarnings('ignore', category=UserWarning, module='torch')
        e = _ENVS[key] = FreshEnv(backend) if fresh else Env(backend)
    return e


def run_item(item, out, record=None):
    """item = (backend, pos, tree, plan, fresh, bsel)."""
    backend, pos, t, plan, fresh, bsel = item
    env = get_env(backend, fresh)
    if not fresh:
        check_parse(env.sub, pos, t)
    setup, ev = program(pos, t)
    ua, ub = uses(t, 'a'), uses(t, 'b')
    outcomes = out['outcomes']
    for b0, hist, firsts in plan.histories(ua, ub, bsel):
        try:
            with runner.watchdog(20):
                so, to = run_history(env, setup, ev, b0, hist)
        except runner.CaseTimeout:
            env.rebuild()
            key = backend + ' | ' + hist_text(setup, ev, b0, hist, len(hist))
            out['violations'].append(dict(key=key, observed='did not terminate', expected='terminates',
                                          case={'backend': backend, 'pos': pos, 'tree': t, 'b0': b0, 'hist': hist,
                                                'from': key},
                                          snippet=None, group='timeout'))
            continue
        out['histories'] += 1
        out['evals'] += len(so)
        for i, first in enumerate(firsts):
            if not first:
                continue
            out['states'] += 1
            a, b = so[i], to[i]
            sa = show_outcome(a)
            outcomes.add(hash(sa))
            if record is not None:
                record[backend + ' | ' + hist_text(setup, ev, b0, hist, i)] = sa + ' / ' + show_outcome(b)
            if i == len(firsts) - 1 and len(out['samples']) < 2:
                out['samples'].append(backend + ' | ' + hist_text(setup, ev, b0, hist, i) + '  =>  ' + sa)
            if same(a, b):
                if a[0] == 'exc':
                    out['both_fail'] += 1
                    if a[0] != b[0]:
                        out['undef_vs_error'] += 1
                elif b[0] == 'exc':
                    out['undef_vs_error'] += 1
                continue
            out['failing_cases'] += 1
            if fresh:
                continue            # the cross-check phase only compares with the reused pair
            origin = backend + ' | ' + hist_text(setup, ev, b0, hist, i)
            for m in minimise(env, pos, t, b0, hist[:i + 1], a, b, out):
                emit(out, env, origin, *m)


def new_out():
    return {'histories': 0, 'evals': 0, 'states': 0, 'violations': [], 'outcomes': set(), 'undef_vs_error': 0,
            'both_fail': 0, 'programs': 0, 'failing_cases': 0, 'minimisation_runs': 0, 'samples': []}


# ---------------------------------------------------------------------------------------------
# reporting: every failing case is reduced to the smallest failing case(s) that explain it, and those are reported.
#
# One root cause fails in every larger expression that contains the failing sub-expression and after every history
# that ends in the failing binding.  Reporting all of them would bury the few causes under 10^5..10^6 lines, so a
# failing case C = (position, tree, b, history) is replaced by
#   1. the case with the history cut to its last binding / without its first / without its middle step, if that
#      shorter history fails with the same pair of outcomes (the failure does not depend on the dropped step), else
#   2. the same tree, bindings and history at position `top`, if it fails there too (the wrapper is not the cause), else
#   3. the failing cases among (position, child, b, history) for the children of the tree's root, if there are any
#      (a wrong operand explains a wrong result), else
#   4. (histories of length <= 1, trees with >= 2 nodes) the root operator applied to variables bound to the VALUES of
#      its non-leaf operands (literal text of the interpreter's value of each operand), if that one-node case fails
#      with the same pair of outcomes (how the operand was computed is not the cause), else
#   5. the same case with b renamed to a when only b occurs (nothing in klongpy depends on the name), if it fails with
#      the same pair of outcomes,
# recursively, until none applies.  Every reported case is run on real code in the same way as an enumerated case and
# is a violation in its own right (cases from step 4 bind values outside the enumerated universe; they are derived
# witnesses, the enumerated case they come from is recorded in `case.from`).  The verdict never depends on the
# reduction: a run with a failing case always reports at least one violation; `failing_cases` counts unreduced cases.
# Limit: a NEW defect that shows only in cases which also contain an already failing sub-case is reported through
# that sub-case (still a violation, but possibly one already listed as a known finding).

_SUB = {}


def sub_run(env, pos, t, b0, hist, out):
    k = (env.backend, pos, t, b0, hist)
    r = _SUB.get(k)
    if r is None:
        if len(_SUB) > 200000:
            _SUB.clear()
        setup, ev = program(pos, t)
        out['minimisation_runs'] += 1
        try:
            with runner.watchdog(20):
                so, to = run_history(env, setup, ev, b0, hist)
            r = (so[-1], to[-1])
        except runner.CaseTimeout:
            env.rebuild()
            r = (('exc', 'CaseTimeout'), ('exc', 'CaseTimeout'))        # not an explanation of anything
        _SUB[k] = r
    return r


def children(t):
    if isinstance(t, str):
        return ()
    cs = (t[2], t[3]) if t[0] == 'b' else (t[-1],)
    return tuple(dict.fromkeys(cs))


def slots(t):
    return (t[2], t[3]) if t[0] == 'b' else (t[-1],)


def with_slots(t, cs):
    return ('b', t[1], cs[0], cs[1]) if t[0] == 'b' else t[:-1] + (cs[0],)


def final_only(hist):
    return (('kg', hist[-1][1]),) if hist else ()


def abstract_operands(env, t, b0, hist, out):
    """Step 4: -> (tree', b0', hist') with every non-leaf operand of the root replaced by a variable bound to the
    literal of the interpreter's value of that operand, or None when that is not expressible."""
    cs = slots(t)
    if all(isinstance(c, str) for c in cs) or len(hist) > 1:
        return None
    new, bind = [], {}
    for name, c in zip(('a', 'b'), cs):         # the operand in slot 0 / 1 becomes the variable a / b
        if isinstance(c, str) and c not in ('a', 'b'):
            new.append(c)                       # a constant stays
            continue
        if isinstance(c, str):
            v = (hist[-1][1] if hist else None) if c == 'a' else b0
            if v is None:
                return None
            bind[name] = vlit(v)                # a variable keeps its value
        else:
            ua, ub = uses(c, 'a'), uses(c, 'b')
            o = sub_run(env, 'top', c, b0 if ub else None, final_only(hist) if ua else (), out)[1]
            if o[0] != 'ok' or not has_literal(o[1]) or _shrink_ints(o[1]) != o[1]:
                return None
            bind[name] = lit(o[1])
        new.append(name)
    if 'a' not in bind:                         # constant left operand: the right one is called a
        if 'b' not in bind:
            return None
        new = ['a' if x == 'b' else x for x in new]
        bind = {'a': bind['b']}
    return with_slots(t, new), bind.get('b'), (('kg', bind['a']),)


def minimise(env, pos, t, b0, hist, a, b, out):
    """-> list of (pos, tree, b0, hist, a, b): minimal failing cases explaining the failing case."""
    # 1. shorter histories with the same pair of outcomes
    if len(hist) >= 2:
        cands = [final_only(hist)]
        if len(hist) == 3:
            cands.append((('kg', hist[1][1]), hist[2]))
            if hist[0][1] != hist[2][1]:
                cands.append((hist[0], hist[2]))
        for h in cands:
            a2, b2 = sub_run(env, pos, t, b0, h, out)
            if same(a2, a) and same(b2, b):
                return minimise(env, pos, t, b0, h, a2, b2, out)
    # 2. the bare expression
    if pos != 'top':
        a2, b2 = sub_run(env, 'top', t, b0, hist, out)
        if not same(a2, b2):
            return minimise(env, 'top', t, b0, hist, a2, b2, out)
    # 3. failing operands
    found = []
    for c in children(t):
        ua, ub = uses(c, 'a'), uses(c, 'b')
        cb = b0 if ub else None
        ch = hist if ua else ()
        a2, b2 = sub_run(env, pos, c, cb, ch, out)
        if not same(a2, b2):
            found.extend(minimise(env, pos, c, cb, ch, a2, b2, out))
    if found:
        return found
    # 4. operand values instead of operand expressions
    if nodes(t) >= 2:
        r = abstract_operands(env, t, b0, hist, out)
        if r is not None:
            t2, bb, hh = r
            try:
                a2, b2 = sub_run(env, pos, t2, bb, hh, out)
            except runner.HarnessError:
                raise
            except Exception:       # noqa: BLE001 - a value that cannot be bound as a literal: no reduction
                a2 = b2 = None
            if a2 is not None and same(a2, a) and same(b2, b):
                return minimise(env, pos, t2, bb, hh, a2, b2, out)
    # 5. only b occurs: call it a
    if uses(t, 'b') and not uses(t, 'a') and b0 is not None:
        t2 = rename(t, {'b': 'a'})
        a2, b2 = sub_run(env, pos, t2, None, (('kg', b0),), out)
        if same(a2, a) and same(b2, b):
            return [(pos, t2, None, (('kg', b0),), a2, b2)]
    return [(pos, t, b0, hist, a, b)]


def rename(t, m):
    if isinstance(t, str):
        return m.get(t, t)
    return with_slots(t, [rename(c, m) for c in slots(t)])


def emit(out, env, origin, pos, t, b0, hist, a, b):
    backend = env.backend
    setup, ev = program(pos, t)
    i = max(len(hist) - 1, 0)
    key = backend + ' | ' + hist_text(setup, ev, b0, hist, i)
    obs = show_outcome(a)
    seen = out.setdefault('_emitted', {})
    v = seen.get((key, obs))
    if v is not None:
        if (len(origin), origin) < (len(v['case']['from']), v['case']['from']):
            v['case']['from'] = origin
        return
    v = seen[(key, obs)] = dict(
        key=key, observed=obs, expected=show_outcome(b),
        case={'backend': backend, 'pos': pos, 'tree': t, 'b0': b0, 'hist': hist, 'from': origin},
        snippet=None, group=classify(env, pos, t, b0, hist, a, b, out))
    out['violations'].append(v)


def make_work(record=False):
    def work(items):
        out = new_out()
        rec = {} if record else None
        s0 = (Stat.real_calls, Stat.compiled, Stat.ran, Stat.raised, Stat.stub_calls)
        c0 = time.process_time()
        for it in items:
            run_item(it, out, rec)
            out['programs'] += 1
        for e in _ENVS.values():
            e.deep_check()
        out.pop('_emitted', None)
        out['cpu_s'] = time.process_time() - c0
        out['compile_attempts'] = Stat.real_calls - s0[0]
        out['compiled'] = Stat.compiled - s0[1]
        out['compiled_ran'] = Stat.ran - s0[2]
        out['compiled_raised'] = Stat.raised - s0[3]
        out['stub_calls'] = Stat.stub_calls - s0[4]
        if record:
            out['record'] = rec
        return out
    return work


# ---------------------------------------------------------------------------------------------
# run

def build_phases(cfg):
    """-> list of (phase name, backend, positions, expression list, Plan)."""
    full = gen_exprs(2, UN_FULL, BIN_FULL)
    e01 = full[0] + full[1]
    e2 = full[2]
    red = gen_exprs(3, UN_RED, BIN_RED)
    ALL = tuple(range(NU))
    KG = ('kg',)
    P = Plan
    # arithmetic over two comparisons (3 nodes): the representative binop of the reduced 3-node set is '-', which raises
    # for two truth-value arrays and falls back to the interpreter, whereas + and * of two boolean arrays are logical
    # or / and - a different code path of the compiled form.  Complete over (+ - *) x (> < =)^2 x leaves^4.
    cl = ('a', 'b', '2') if cfg.quick else LEAVES
    cmp2 = [('b', o, ('b', c1, l1, r1), ('b', c2, l2, r2)) for o in '+-*' for c1 in '><=' for c2 in '><='
            for l1 in cl for r1 in cl for l2 in cl for r2 in cl]
    # a reduction as operand of the operators with a special case for zero (Divide: zero divisor -> :undefined; Power:
    # zero base / exponent), the other operand a leaf: complete over (% ^) x both operand orders x (+ * | &) x leaves
    zred = [t for o in '%^' for r in '+*|&' for l in LEAVES for t in (('b', o, l, ('r', r, 'b')), ('b', o, ('r', r, 'b'), l))]
    zphases = [('Z', 'numpy', ('top', 'fn', 'lam'), zred, P('len1 a in {4 0 2.5 [1 2 3]}, b in Z4', 1, (0, 1, 3, 4), ZERO_RED)),
               ('ZT', 'torch', ('top',), zred, P('len1 a in {4 2.5}, b in Z4', 1, (0, 3), ZERO_RED))]
    if cfg.quick:
        return zphases + [
            ('C3', 'numpy', ('top', 'fn'), cmp2, P('len1 a in U11, b in B3', 1, ALL, SUB_B3)),
            ('C3T', 'torch', ('top',), cmp2, P('len1 a in U6, b in B2', 1, SUB6, SUB_B2)),
            # every expression with <= 1 operator node, everywhere, every binding, every length-2 history
            ('H2', 'numpy', POSITIONS, e01, P('len2 a,b in U11, both styles', 2, ALL, ALL)),
            # every expression with 2 operator nodes, bare and as a function body
            ('S2', 'numpy', ('top', 'fn'), e2, P('len1 a in U11, b in B3', 1, ALL, SUB_B3)),
            # length-3 histories where they reach new memo states: 2-node expressions (reduced operator set) whose
            # root node keeps its memo (operand of a non-compilable verb, value visible)
            ('H3', 'numpy', ('join',), red[2], P('len3 a in U4, b in {[1 2 3]}, a::', 3, SUB4, (4,), KG)),
            ('T', 'torch', POSITIONS, e01, P('len2 a in U6, b in B2, both styles', 2, SUB6, SUB_B2)),
        ]
    return zphases + [
        ('C3', 'numpy', ('top', 'fn'), cmp2, P('len1 a in U11, b in B3', 1, ALL, SUB_B3)),
        ('C3T', 'torch', ('top',), cmp2, P('len1 a in U6, b in B2', 1, SUB6, SUB_B2)),
        ('H2', 'numpy', POSITIONS, e01, P('len2 a,b in U11, both styles', 2, ALL, ALL)),
        ('S2', 'numpy', POSITIONS, e2, P('len1 a,b in U11', 1, ALL, ALL)),
        ('S3', 'numpy', ('top',), red[3], P('len1 a in U11, b in B2', 1, ALL, SUB_B2)),
        ('H2x', 'numpy', ('join',), e2, P('len2 a in U11, b in B2, a::', 2, ALL, SUB_B2, KG)),
        ('H3', 'numpy', POSITIONS, e01, P('len3 a in U6, b in B2, both styles', 3, SUB6, SUB_B2)),
        ('H3x', 'numpy', ('join',), e2, P('len3 a in U6, b in {[1 2 3]}, a::', 3, SUB6, (4,), KG)),
        ('T', 'torch', POSITIONS, e01, P('len2 a in U11, b in U6, both styles', 2, ALL, SUB6)),
        ('T2', 'torch', ('top',), e2, P('len1 a in U6, b in B3', 1, SUB6, SUB_B3)),
    ]


def crosscheck_phase(cfg):
    full = gen_exprs(1, UN_FULL, BIN_FULL)
    return ('X', 'numpy', POSITIONS, full[0] + full[1],
            Plan('len2 a in U4, b in B2, both styles', 2, cfg.pick(SUB4, SUB6), SUB_B2))


def make_items(phase, fresh=False):
    """One item per (program, b) so that no item is much heavier than the others; -> (items, weights)."""
    name, backend, positions, exprs, plan = phase
    items, weights = [], []
    for t in exprs:
        ua, ub = uses(t, 'a'), uses(t, 'b')
        w = plan.count(ua, False)
        for pos in positions:
            for bsel in ([(b,) for b in plan.B] if ub else [None]):
                items.append((backend, pos, t, plan, fresh, bsel))
                weights.append(w)
    return items, weights


def chunk_by_weight(items, weights, jobs):
    """Deterministic chunks of roughly equal weight (the seed only permutes the order in which pmap hands them out)."""
    total = sum(weights)
    target = min(max(total // (jobs * 12) + 1, 1500), 12000)
    chunks, cur, w = [], [], 0
    for it, wt in zip(items, weights):
        cur.append(it)
        w += wt
        if w >= target:
            chunks.append(cur)
            cur, w = [], 0
    if cur:
        chunks.append(cur)
    return chunks


def run_phases(cfg, specs):
    """specs = [(label, phase, fresh, record)].  All chunks of all phases go through ONE fan-out (no barrier between
    phases, one fork per worker); -> {label: merged counts}."""
    works = {False: make_work(False), True: make_work(True)}
    tagged, per = [], {}
    for label, ph, fresh, record in specs:
        items, weights = make_items(ph, fresh)
        per[label] = new_out()
        per[label]['planned_histories'] = sum(weights)
        tagged.extend((label, record, c) for c in chunk_by_weight(items, weights, cfg.jobs))

    def fn(cs):
        return [(label, works[record](c)) for label, record, c in cs]
    for parts in runner.pmap(fn, tagged, cfg, chunk=1):
        for label, part in parts:
            runner.merge_counts(per[label], part)
    return per


PROBE = ('numpy', 'top', ('b', '^', 'a', ('b', '^', 'a', ('b', '^', 'a', 'a'))), None, (('kg', 0),))     # a::4 ; a^a^a^a
PROBE_SECONDS = 15


def power_tower_start():
    """The one 3-node family kept out of the fan-out (see BIN_RED3): run its smallest member in a child process that
    can be killed.  -> handle for power_tower_finish."""
    import multiprocessing
    import resource
    ctx = multiprocessing.get_context('fork')
    q = ctx.SimpleQueue()
    backend, pos, t, b0, hist = PROBE
    setup, ev = program(pos, t)

    def child():
        try:
            soft = 3 << 30
            resource.setrlimit(resource.RLIMIT_AS, (soft, resource.getrlimit(resource.RLIMIT_AS)[1]))
        except (ValueError, OSError):
            pass
        ki.compile_expr = _REAL
        q.put(show_outcome(run_side(make_interp(backend), setup, ev, b0, hist)[-1]))
    p = ctx.Process(target=child, daemon=True)
    p.start()
    return p, q, time.time()


def power_tower_finish(handle, rep_violations):
    p, q, t0 = handle
    backend, pos, t, b0, hist = PROBE
    setup, ev = program(pos, t)
    p.join(max(0.0, PROBE_SECONDS - (time.time() - t0)))
    if p.is_alive():
        p.kill()
        p.join()
        observed = 'did not terminate within %d s (killed)' % PROBE_SECONDS
    else:
        observed = q.get() if p.exitcode == 0 else 'child died with exit code %s' % p.exitcode
    ki.compile_expr = _stub_compile
    try:
        expected = show_outcome(run_side(make_interp(backend), setup, ev, b0, hist)[-1])
    finally:
        ki.compile_expr = _REAL
    key = backend + ' | ' + hist_text(setup, ev, b0, hist, 0)
    ok = observed == expected or (observed.startswith('exc:') and expected.startswith('exc:'))
    if not ok:
        rep_violations.append(dict(
            key=key, observed=observed, expected=expected,
            case={'backend': backend, 'pos': pos, 'tree': t, 'b0': b0, 'hist': hist, 'from': key, 'probe': True},
            snippet=None, group='power-unbounded-integer'))
    return {'case': key, 'observed': observed, 'expected': expected, 'same': ok}


def _tup(x):
    return tuple(_tup(e) for e in x) if isinstance(x, (list, tuple)) else x


def case_snippet(c):
    setup, ev = program(c['pos'], _tup(c['tree']))
    hist = _tup(c['hist'])
    return snippet(c['backend'], setup, ev, c['b0'], hist, max(len(hist) - 1, 0))


def run(cfg):
    rep = runner.Report(PID, 'model_checking')
    phases = build_phases(cfg)
    if any(p[1] == 'torch' for p in phases):
        import torch       # noqa: F401 - imported once in the parent; the forked workers inherit it
    # reuse cross-check (phase X): the same sub-product with the reused pair and with a brand-new pair per history
    xp = crosscheck_phase(cfg)
    per = run_phases(cfg, [(p[0], p, False, False) for p in phases]
                     + [('X', xp, False, True), ('Xfresh', xp, True, True)])
    reused, fresh = per['X'], per.pop('Xfresh')
    ra, rb = reused.get('record', {}), fresh.get('record', {})
    if not ra or set(ra) != set(rb):
        raise runner.HarnessError('C05 reuse cross-check: different case sets (%d / %d)' % (len(ra), len(rb)))
    diff = sorted(k for k in ra if ra[k] != rb[k])
    if diff:
        raise runner.HarnessError('C05 reuse cross-check: reused and fresh interpreter pairs disagree on %d cases, '
                                  'first: %s : %s vs %s' % (len(diff), diff[0], ra[diff[0]], rb[diff[0]]))
    total = new_out()
    phase_cov = {}
    spec = {p[0]: p for p in phases + [xp]}
    for name, t in per.items():
        t.pop('record', None)
        ph = spec[name]
        if t['histories'] != t['planned_histories']:
            raise runner.HarnessError('C05 phase %s: ran %d of %d planned histories'
                                      % (name, t['histories'], t['planned_histories']))
        phase_cov[name] = {
            'backend': ph[1], 'positions': list(ph[2]), 'expressions': len(ph[3]),
            'max_operator_nodes': max(nodes(e) for e in ph[3]), 'plan': ph[4].name,
            'programs_x_b': t['programs'], 'histories': t['histories'], 'states_judged': t['states'],
            'evaluations_per_side': t['evals'], 'failing_cases': t['failing_cases'],
            'reported_after_reduction': len({(v['key'], v['observed']) for v in t['violations']}),
            'compile_attempts': t['compile_attempts'], 'compiled': t['compiled'],
            'compiled_code_produced_the_value': t['compiled_ran'],
            'compiled_code_raised_then_interpreted': t['compiled_raised'],
            'twin_stub_calls': t['stub_calls'], 'cpu_s': round(t['cpu_s'], 1),
        }
        if t['stub_calls'] == 0 or t['compiled_ran'] == 0:
            raise runner.HarnessError('C05 phase %s: the observation point was not exercised' % name)
        runner.merge_counts(total, t)
    fresh.pop('record', None)

    # one violation per (key, observed); `from` = smallest enumerated case that reduces to it (deterministic)
    best = {}
    for v in total['violations']:
        k = (v['key'], v['observed'])
        cur = best.get(k)
        if cur is None or (len(v['case']['from']), v['case']['from']) < (len(cur['case']['from']), cur['case']['from']):
            best[k] = v
    vs = sorted(best.values(), key=lambda v: (v['key'], v['observed']))
    groups = {}
    for v in vs:
        groups.setdefault(v['group'], []).append(v)
    want = {id(v) for v in vs[:runner.MAX_REPLAYS + 5]}
    for g in groups.values():
        want.update(id(v) for v in sorted(g, key=lambda v: (len(v['key']), v['key']))[:3])
    for v in vs:
        if id(v) in want and v['group'] != 'timeout':
            v['snippet'] = case_snippet(v['case'])
    rep.extend_violations(vs)

    samples = sorted(total.get('samples', []))
    step = max(1, len(samples) // 10)
    rep.coverage = {
        'states': total['states'],
        'transitions': total['evals'],
        'traces_validated_against_impl': total['histories'],
        'distinct_outcomes': len(total['outcomes']),
        'exhaustive': True,
        'samples': samples[::step][:12],
        'failing_cases_before_reduction': total['failing_cases'],
        'violations_reported': len(vs),
        'violations_by_group': {g: len(x) for g, x in sorted(groups.items())},
        'minimisation_runs': total['minimisation_runs'],
        'both_sides_fail': total['both_fail'],
        'undefined_on_one_side_error_on_the_other': total['undef_vs_error'],
        'compiled_code_produced_the_value': total['compiled_ran'],
        'compiled_code_raised_then_interpreted': total['compiled_raised'],
        'twin_stub_calls': total['stub_calls'],
        'reuse_crosscheck': {'cases_compared': len(ra), 'fresh_pairs_created': 2 * fresh['histories'],
                             'disagreements': 0},
        'cpu_s': round(total['cpu_s'] + fresh['cpu_s'], 1),
        'phases': phase_cov,
        'universe': {'U11': list(ULIT[:NU]), 'Z4': [ULIT[i] for i in ZERO_RED], 'U6': [ULIT[i] for i in SUB6], 'U4': [ULIT[i] for i in SUB4],
                     'B3': [ULIT[i] for i in SUB_B3], 'B2': [ULIT[i] for i in SUB_B2]},
        'rule': 'complete product, per phase, of: expression trees of the compilable grammar (leaves a b 2 0.5 0; binop '
                '+ - * % ^, cmp > < =, negate, reduce and scan of + * | &; 3-node phases: - ^ < >, negate, +/, +\\) '
                'with the stated number of operator nodes x the stated positions (top: E; fn: f::{E} then f(); lam: '
                '{E with x,y}(a;b); cnt: #E; join: (E),1; arr: [;E;E]) x bindings of b x histories of a of the stated '
                'length (bind, evaluate, rebind to a different value by a::v or klong["a"]=v, evaluate the same text '
                'again) over the stated universe; a state is a (backend, program, b, history prefix) and is judged once: '
                'outcome with the real compile_expr == outcome with compile_expr stubbed to None',
    }
    rep.assumptions = [
        'oracle = the tree-walking interpreter of the same tree (compile_expr stubbed): a defect shared by both paths '
        'is invisible here (C01/C02 judge the interpreter itself)',
        'numeric-block promotion (DESIGN 2.4) on both sides: inside a rectangular all-numeric list one real makes all '
        'leaves real; kind is compared for atoms, all-integer blocks and ragged lists',
        'floats are compared exactly (NaN equals NaN, -0.0 equals 0.0); exception classes are not compared; :undefined '
        'on one side and an exception on the other count as the same failure (the property says ":undefined or an '
        'error"); measured occurrences are in coverage.undefined_on_one_side_error_on_the_other',
        'interpreter pairs are reused across cases after a verified reset (global scope and both caches emptied, scope '
        'stack and system scopes checked); validated by coverage.reuse_crosscheck against one new pair per history',
        'compile_expr of the subject is wrapped only to count calls and completed runs of compiled code',
        'only a is rebound in histories; expressions in b alone are evaluated once per binding (a and b are '
        'interchangeable names: every expression occurs with the roles of a and b swapped)',
        'reported violations are reduced cases (shorter history, bare expression, failing operand, operand values, b '
        'renamed to a), each run on real code; failing_cases_before_reduction counts the enumerated failing cases; a '
        'new defect that only shows together with an already failing sub-case is reported through that sub-case',
        'torch backend: CPU device only, and a smaller product than numpy (stated per phase)',
        'values outside U11, expressions with more operator nodes than stated, histories longer than 3 and rebinding '
        'of b are not covered',
    ]
    if total['undef_vs_error']:
        rep.notes.append('%d states had :undefined on one side and an exception on the other (accepted)'
                         % total['undef_vs_error'])
    return rep


def replay(cfg, path):
    with open(path) as f:
        r = json.load(f)
    c = r['case']
    t, hist = _tup(c['tree']), _tup(c['hist'])
    setup, ev = program(c['pos'], t)
    print('key      :', r['key'])
    print('group    :', r.get('group'), '   reduced from:', c.get('from'))
    env = FreshEnv(c['backend'])
    s0 = (Stat.compiled, Stat.ran, Stat.raised, Stat.stub_calls)
    with runner.watchdog(60):
        so, to = run_history(env, setup, ev, c['b0'], hist)
    for i, (a, b) in enumerate(zip(so, to)):
        print('evaluation %d of %s' % (i + 1, ev))
        print('   compile_expr real : %s' % show_outcome(a))
        print('   compile_expr stub : %s   %s' % (show_outcome(b), 'same' if same(a, b) else 'DIFFERENT'))
    print('subject: %d expressions compiled, compiled code produced a value %d times, raised %d times; twin: %d stub '
          'calls' % (Stat.compiled - s0[0], Stat.ran - s0[1], Stat.raised - s0[2], Stat.stub_calls - s0[3]))
    print('recorded : observed %s, expected %s' % (r.get('observed'), r.get('expected')))
    return 0


def selftest():
    """The generator and the judge against their own example tables."""
    ex = [(('b', '+', 'a', ('b', '*', 'b', '2')), 'a+b*2'), (('b', '*', ('b', '+', 'a', 'b'), '2'), '(a+b)*2'),
          (('n', ('b', '+', 'a', 'b')), '-a+b'), (('b', '+', ('n', 'a'), 'b'), '(-a)+b'),
          (('r', '+', ('b', '+', 'a', 'b')), '+/a+b'), (('s', '*', ('r', '*', 'a')), '*\\(*/a)'),
          (('b', '-', 'a', ('n', 'b')), 'a--b'), (('b', '%', '0.5', ('s', '|', 'a')), '0.5%|\\a')]
    for t, s in ex:
        assert text(t) == s, (t, text(t), s)
    assert program('lam', ('b', '+', 'a', 'b')) == (None, '{x+y}(a;b)')
    assert program('lam', ('n', 'b')) == (None, '{-y}(0;b)')
    assert program('fn', ('n', 'a')) == ('f::{-a}', 'f()')
    assert program('join', ('n', 'a')) == (None, '(-a),1') and program('join', 'a') == (None, 'a,1')
    kl = KlongInterpreter()
    full = gen_exprs(1, UN_FULL, BIN_FULL)
    assert [len(x) for x in full] == [5, 245]
    for t in full[0] + full[1]:
        for pos in POSITIONS:
            check_parse(kl, pos, t)
    ok, exc, und = ('ok', I(1)), ('exc', 'TypeError'), ('ok', U)
    assert same(ok, ('ok', I(1))) and not same(ok, ('ok', R(1.0))) and not same(ok, exc) and not same(ok, und)
    assert same(exc, ('exc', 'ValueError')) and same(exc, und) and same(und, und)
    assert same(('ok', R(float('nan'))), ('ok', R(float('nan'))))
    assert same(('ok', cn(kl('[1 0.5]'))), ('ok', L(R(1.0), R(0.5))))
    for p in (Plan('p', 1, SUB4, SUB_B2), Plan('p', 2, SUB6, SUB_B2), Plan('p', 3, SUB4, SUB_B2, ('kg',))):
        for ua in (False, True):
            for ub in (False, True):
                hs = list(p.histories(ua, ub))
                assert len(hs) == p.count(ua, ub) and len(set(hs)) == len(hs)
                judged = sum(sum(f) for _, _, f in hs)
                assert judged == len({(b0, h[:i + 1]) for b0, h, f in hs for i in range(len(f))})
    return True

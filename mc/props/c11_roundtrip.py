"""C11 - readable output reads back to the same value (.w -> .rs / .r, Format -> Form).

Complete product enumeration (E1 degenerated to an input universe, DESIGN 3.C11) over a closed universe of data
values.  Per value v (a *spec*, see below) the real pipeline is run in a real interpreter:

    v       = Python/numpy object built by `build(spec)` and injected with klong['v'] = ...   (NOT read from a literal:
              the property is about writer -> reader, so the subject must not have passed through the reader)
    text    = what `.w(v)` puts on the To-Channel (a StringIO selected with `.tc`)
    rs:  v' = `.rs(text)`                   r:  v' = `.r()` with the From-Channel (`.fc`) positioned on text
    require   cn(v') == norm(canon(spec))   and   `.w(v')` writes exactly `text` again
    atoms:    form:   `v:$$v`   matches v   (integers, reals, characters, strings, symbols)
              fmt-rs: `.rs($v)` matches v   (integers, reals, symbols: there `$` gives the readable form)

Specs are canonical tuples of mc.values except that a dictionary keeps its insertion order:
    ('i',n) ('r',x) ('c',ch) ('s',str) ('y',name) ('l',(spec...)) ('d',((kspec,vspec)...))
Runtime representation built from a spec (the representation klongpy itself uses): Python int / float (or numpy
scalars, rep 'np'), KGChar, str, KGSym, dict; a rectangular all-numeric list is ONE homogeneous ndarray (int64, or
float64 as soon as one leaf is real - the DESIGN 2.4 weakening is applied to the universe itself, so the spec that is
checked is already normalised); every other list is a 1-d object ndarray of its children; `[]` is an empty float64
array.
"""
import hashlib
import io
import itertools
import json
import multiprocessing
import re

import numpy as np

from klongpy import KlongInterpreter
from klongpy.types import KGChar, KGSym, KGChannel, KGChannelDir

from .. import runner
from ..values import cn, norm, show, _block_shape, _has_real, _promote

ALPHA = 'ab" \n[]:;0'           # the 10-character string alphabet of DESIGN 2.4
CASE_TIMEOUT = 4.0              # seconds per value (all paths); a legitimate value needs < 1 ms
ATTEMPTS = 3                    # a timeout is a verdict only if the value times out on every attempt (wall-clock timers
                                # fire spuriously when the whole VM stalls: observed, 28 values at once, none reproducible)
MAX_HANGS = 10                  # confirmed hangs per run after which the remaining values are skipped (and reported)
CAP_PER_ITEM = 200             # violations kept per work item (all are counted); unchanged tree stays far below
CAP_TOTAL = 6000                # violations kept per run after sorting by key (deterministic)
I64 = (-2 ** 63, 2 ** 63 - 1)


def I(n):
    return ('i', n)


def R(x):
    return ('r', float(x))


def C(ch):
    return ('c', ch)


def S(s):
    return ('s', s)


def Y(s):
    return ('y', s)


def L(*e):
    return ('l', tuple(e))


def D(*pairs):
    return ('d', tuple(pairs))


# ---------------------------------------------------------------------------------------------
# spec helpers

def snorm(s):
    """DESIGN 2.4 numeric-block promotion on a spec (dictionary order kept)."""
    t = s[0]
    if t == 'l':
        if _block_shape(s) is not None:
            return _promote(s) if _has_real(s) else s
        return ('l', tuple(snorm(e) for e in s[1]))
    if t == 'd':
        return ('d', tuple((snorm(k), snorm(v)) for k, v in s[1]))
    return s


def to_canon(s):
    t = s[0]
    if t == 'l':
        return ('l', tuple(to_canon(e) for e in s[1]))
    if t == 'd':
        return ('d', frozenset((to_canon(k), to_canon(v)) for k, v in s[1]))
    return s


def _real_key(x):
    return repr(float(x))


def skey(s):
    """Deterministic text naming a spec (Klong-literal-like, dictionary order kept, raw characters)."""
    t = s[0]
    if t == 'i':
        return str(s[1])
    if t == 'r':
        return _real_key(s[1])
    if t == 'c':
        return '0c' + s[1]
    if t == 's':
        return '"' + s[1].replace('"', '""') + '"'
    if t == 'y':
        return ':' + s[1]
    if t == 'l':
        return '[' + ' '.join(skey(e) for e in s[1]) + ']'
    if t == 'd':
        return ':{' + ' '.join('[' + skey(k) + ' ' + skey(v) + ']' for k, v in s[1]) + '}'
    raise ValueError(s)


def _ints_fit(s):
    if s[0] == 'i':
        return I64[0] <= s[1] <= I64[1]
    if s[0] == 'l':
        return all(_ints_fit(e) for e in s[1])
    return True


def _nested(s):
    return [_nested(e) for e in s[1]] if s[0] == 'l' else s[1]


def _is_block(s):
    sh = _block_shape(s)
    return sh is not None and sh != (0,) and _ints_fit(s)


def build(s, rep='py'):
    """Spec -> runtime value, independent of klongpy's reader and of backend.kg_asarray."""
    t = s[0]
    if t == 'i':
        return np.int64(s[1]) if rep == 'np' else s[1]
    if t == 'r':
        return np.float64(s[1]) if rep == 'np' else s[1]
    if t == 'c':
        return KGChar(s[1])
    if t == 's':
        return s[1]
    if t == 'y':
        return KGSym(s[1])
    if t == 'd':
        d = {}
        for k, v in s[1]:
            d[build(k)] = build(v)
        if len(d) != len(s[1]):
            raise runner.HarnessError('dictionary spec with colliding keys: %s' % skey(s))
        return d
    if not s[1]:
        return np.array([], dtype=np.float64)
    if _is_block(s):
        return np.array(_nested(s), dtype=np.float64 if _has_real(s) else np.int64)
    a = np.empty(len(s[1]), dtype=object)
    for i, e in enumerate(s[1]):
        a[i] = build(e)
    return a


def pyexpr(s, rep='py'):
    """Python source building the same runtime value (for stand-alone snippets)."""
    t = s[0]
    if t == 'i':
        return 'np.int64(%d)' % s[1] if rep == 'np' else repr(s[1])
    if t == 'r':
        return 'np.float64(%r)' % s[1] if rep == 'np' else repr(s[1])
    if t == 'c':
        return 'KGChar(%r)' % s[1]
    if t == 's':
        return repr(s[1])
    if t == 'y':
        return 'KGSym(%r)' % s[1]
    if t == 'd':
        return '{' + ', '.join(pyexpr(k) + ': ' + pyexpr(v) for k, v in s[1]) + '}'
    if not s[1]:
        return 'np.array([], dtype=np.float64)'
    if _is_block(s):
        return 'np.array(%r, dtype=np.%s)' % (_nested(s), 'float64' if _has_real(s) else 'int64')
    return 'O(' + ', '.join(pyexpr(e) for e in s[1]) + ')'


def spec_to_json(s):
    t = s[0]
    if t == 'l':
        return ['l', [spec_to_json(e) for e in s[1]]]
    if t == 'd':
        return ['d', [[spec_to_json(k), spec_to_json(v)] for k, v in s[1]]]
    return [t, s[1]]


def spec_from_json(j):
    t = j[0]
    if t == 'l':
        return ('l', tuple(spec_from_json(e) for e in j[1]))
    if t == 'd':
        return ('d', tuple((spec_from_json(k), spec_from_json(v)) for k, v in j[1]))
    if t == 'r':
        return ('r', float(j[1]))
    return (t, j[1])


def depth(s):
    if s[0] == 'l':
        return 1 + max([depth(e) for e in s[1]] or [0])
    if s[0] == 'd':
        return 1 + max([max(depth(k), depth(v)) for k, v in s[1]] or [0])
    return 0


def trivial(s):
    """The rule behind `distinct_nontrivial`: a non-negative integer, or a flat list of such (incl. []), exercises no
    writer/reader rule beyond digits, blanks and one bracket pair."""
    if s[0] == 'i':
        return s[1] >= 0
    if s[0] == 'l':
        return all(e[0] == 'i' and e[1] >= 0 for e in s[1])
    return False


def has_dict(s):
    if s[0] == 'd':
        return True
    if s[0] == 'l':
        return any(has_dict(e) for e in s[1])
    return False


# ---------------------------------------------------------------------------------------------
# the universe

INTS = [0, 1, -1, 2, 3, 5, -3, 7, 10, 42, -42, 100, 123456789012, -123456789012, 2 ** 31 - 1, -2 ** 31, 2 ** 31,
        2 ** 53, 2 ** 53 + 1, 2 ** 63 - 1, -2 ** 63, 2 ** 63, 2 ** 64, -2 ** 64, 10 ** 30, -10 ** 30]
REALS = [0.0, 0.5, -1.5, 2.0, -2.0, 0.1, -0.1, 1e-7, -1e-7, 1.5e20, -1.5e20, 1e15, 1e16, 1e21, 1e22, 1e-5, 0.0001,
         123456789.125, 123456789012345678.0, 0.30000000000000004, 1 / 3, 1e100, 1e-100, 1.7976931348623157e308,
         2.2250738585072014e-308, 5e-324]
CHARS = list(ALPHA) + ['A', 'c', 'e', '-', '.', "'", '\\', '\t', '{', '}', '(', 'é']
SYMS = ['foo', 'x', 'a', 'a1', 'Foo', 'foo.bar', 'e', 'c']
EXTRA_STRINGS = ['hello foo', 'say "hi"!', 'a""b', '""""', 'line1\nline2', 'tab\there', 'é"', '0c"', ':"comment"',
                 '[1 2 3]', ':{[1 2]}', 'x;y', "it's", '-1', '1e-07', ':foo', '0c', 'a\\"b', '   ']


def all_strings():
    out = []
    for n in range(4):
        out.extend(''.join(p) for p in itertools.product(ALPHA, repeat=n))
    return out


# kind-representative atom sets for the list levels (no integer and real of equal value in one set, so that block
# promotion maps different specs to different values).  A2, B1 are subsets of A1; A3 of A2; B3 of B1.
A1 = [I(0), I(1), I(-1), I(123456789012), I(2 ** 63 - 1), I(-2 ** 63),
      R(0.5), R(-1.5), R(2.0), R(1e-7), R(1.5e20),
      C('a'), C('"'), C(' '), C(']'), C('\n'),
      S(''), S('a'), S('a"b'), S(':"'), S('0c'), S('] ['), S(' '), S('\n'),
      Y('foo'), Y('x')]
A2 = [I(1), I(-1), R(0.5), R(1e-7), C('a'), C('"'), S('a'), S('a"b'), S(':"'), Y('foo')]
B1 = [I(1), R(-1.5), C(' '), S('a"b'), S(''), Y('x')]
A3 = [I(1), I(-1), R(1e-7), C('"'), S('a"b'), Y('foo')]
B3 = [I(1), C(' '), S('a"b')]
F3 = [I(1), S('a"b'), Y('x')]
G3 = [L(), L(I(1)), L(R(-1.5), I(1)), L(C(' ')), L(S('a"b'), S('')), L(Y('x')), L(S(''), C(' '))]
# quick tier, depth 3: a documented subset
A3Q = [I(1), C('"'), S('a"b')]
B3Q = [I(1), S('a"b')]
F3Q = [I(1)]
G3Q = [L(), L(S('a"b'), S('')), L(Y('x')), L(R(-1.5), I(1))]


def lists_upto(elems, maxlen, minlen=0):
    out = []
    for n in range(minlen, maxlen + 1):
        out.extend(('l', p) for p in itertools.product(elems, repeat=n))
    return out


def level_elems(quick):
    """Element sets of the three list levels: name -> (elements, number of leading elements that are 'old')."""
    l1s = lists_upto(B1, 2)                                              # 43 depth-1 lists
    e2 = A2 + l1s
    if quick:
        a3, b3, f3, g3 = A3Q, B3Q, F3Q, G3Q
    else:
        a3, b3, f3, g3 = A3, B3, F3, G3
    l1s3 = lists_upto(b3, 2 if not quick else 1)
    fg = f3 + g3
    l2s = [s for s in lists_upto(fg, 2, 1) if any(e[0] == 'l' for e in s[1])]         # depth-2 lists
    e3 = a3 + l1s3 + l2s
    return {
        'L1': (A1, 0),                     # every list over A1 is new
        'L2': (e2, len(A2)),               # lists without a list element were level 1 already
        'L3': (e3, len(a3) + len(l1s3)),   # lists without a depth-2 element were level <= 2 already
    }


def dict_universe(quick):
    if quick:
        keys = [I(1), I(-1), R(1e-7), S('a"b'), C('b'), Y('foo')]
        vals = [I(1), R(-1.5), C(' '), S('a"b'), Y('x'), L(I(1), I(2)), L(S('a'), C('b')), D((I(1), I(2)))]
        k2 = [I(1), S('a'), Y('foo')]
        v2 = [I(-1), S('a"b'), L(I(1), I(2))]
    else:
        keys = [I(1), I(-1), I(123456789012), R(0.5), R(1e-7), S('a'), S('a"b'), S(':"'), C('b'), C('"'), Y('foo')]
        vals = [I(1), I(-1), R(-1.5), R(1e-7), C('a'), C(' '), S(''), S('a"b'), S('] ['), Y('x'),
                L(), L(I(1), I(2)), L(I(-1), R(0.5)), L(S('a'), C('b')), L(L(I(1)), L(I(2), I(3))), L(Y('foo'), S('x')),
                L(L()), D(), D((I(1), I(2))), D((S('a'), L(I(1))))]
        k2 = [I(1), I(-1), S('a'), C('b'), Y('foo')]
        v2 = [I(1), S('a"b'), L(I(1), I(2)), R(-1.5), D((I(1), I(2)))]
    out = [D()]
    out.extend(D((k, v)) for k in keys for v in vals)
    entries = [(k, v) for k in k2 for v in v2]
    out.extend(D(e1, e2) for e1 in entries for e2 in entries if e1[0] != e2[0])
    out.append(D((I(1), I(2)), (S('a'), S('b')), (Y('foo'), L(I(1), S('x')))))
    out.append(D((C('a'), C('b')), (R(0.5), R(-1.5)), (I(-1), D((I(1), I(2))))))
    d0 = [D(), D((I(1), I(2))), D((S('a"b'), L(I(-1), S('x')))), D((Y('foo'), C(' ')), (I(-1), R(1e-7)))]
    if quick:
        d0 = d0[1:3]
    for d in d0:
        out.extend([L(d), L(I(1), d), L(d, S('a')), L(L(d))])
    out.extend(L(d, e) for d in d0 for e in d0)
    return out


def work_items(cfg):
    """Deterministic list of work items; each is small enough for one worker call, the set does not depend on seed."""
    quick = cfg.quick
    items = []
    atoms = []
    for n in INTS:
        atoms.append((I(n), 'py'))
        if I64[0] <= n <= I64[1]:
            atoms.append((I(n), 'np'))
    for x in REALS:
        atoms.append((R(x), 'py'))
        atoms.append((R(x), 'np'))
    atoms.extend((C(c), 'py') for c in CHARS)
    atoms.extend((Y(y), 'py') for y in SYMS)
    atoms.extend((S(s), 'py') for s in EXTRA_STRINGS)
    items.append(('explicit', 'atoms', atoms))
    strings = all_strings()
    for i in range(0, len(strings), 101):
        items.append(('explicit', 'strings', [(S(s), 'py') for s in strings[i:i + 101]]))
    # every string / character as a list element (reader inside read_list: separators, `:"` look-ahead)
    for i in range(0, len(strings), 101):
        part = strings[i:i + 101]
        items.append(('explicit', 'string-in-list', [(L(S(s)), 'py') for s in part] + [(L(S(s), I(1)), 'py') for s in part]))
    chl = []
    for c in CHARS:
        chl.extend([(L(C(c)), 'py'), (L(C(c), C(c)), 'py'), (L(C(c), I(1)), 'py'), (L(I(1), C(c)), 'py')])
    big = [L(I(2 ** 64), I(1)), L(I(-10 ** 30)), L(I(2 ** 63), S('a')), L(L(I(2 ** 64)), L(I(1), I(2)))]
    items.append(('explicit', 'char-in-list', chl + [(b, 'py') for b in big]))
    dicts = dict_universe(quick)
    for i in range(0, len(dicts), 60):
        items.append(('explicit', 'dicts', [(d, 'py') for d in dicts[i:i + 60]]))
    levels = level_elems(quick)
    items.append(('explicit', 'L1', [(L(), 'py')]))
    for name in ('L1', 'L2', 'L3'):
        elems, old = levels[name]
        for i in range(len(elems)):
            items.append(('product', name, i))
    return items, levels


def product_specs(elems, old, first):
    """All lists of length 1..3 over elems starting with elems[first] that contain an element of index >= old."""
    e0 = elems[first]
    new0 = first >= old
    idx = range(len(elems))
    for n in (0, 1, 2):
        for rest in itertools.product(idx, repeat=n):
            if new0 or any(j >= old for j in rest):
                yield ('l', (e0,) + tuple(elems[j] for j in rest))


# ---------------------------------------------------------------------------------------------
# the real pipeline

class Env:
    """One real interpreter whose To-Channel and From-Channel are StringIO objects (selected with .tc / .fc)."""

    def __init__(self):
        self.k = KlongInterpreter()
        self.out = io.StringIO()
        self.inp = io.StringIO()
        self.ic = KGChannel(self.inp, KGChannelDir.INPUT)
        self.k['oc'] = KGChannel(self.out, KGChannelDir.OUTPUT)
        self.k['ic'] = self.ic
        self.k('.tc(oc)')
        self.k('.fc(ic)')

    def write(self, v):
        self.out.seek(0)
        self.out.truncate()
        self.k['v'] = v
        self.k('.w(v)')
        return self.out.getvalue()

    def read_rs(self, text):
        self.k['t'] = text
        return self.k('.rs(t)')

    def read_r(self, text):
        self.inp.seek(0)
        self.inp.truncate()
        self.inp.write(text)
        self.inp.seek(0)
        self.ic.at_eof = False
        return self.k('.r()')

    def form(self, v):
        self.k['v'] = v
        return self.k('v:$$v')

    def fmt_rs(self, v):
        self.k['v'] = v
        return self.k('.rs($v)')


def _try(fn, *a):
    try:
        return ('ok', fn(*a))
    except RecursionError:
        return ('exc', 'RecursionError')
    except Exception as e:          # noqa: BLE001 - every failure class is an observation
        return ('exc', type(e).__name__)


_ADDR = re.compile(r' at 0x[0-9a-fA-F]+')


def _show_c(c):
    try:
        return show(c)
    except Exception:               # noqa: BLE001 - canonical forms of non-data objects
        return repr(c)


def check_value(env, s, rep):
    """Run every path for one value. Returns (text or None, number of pipeline runs, list of failures) where a failure
    is (path, observed, expected)."""
    exp = norm(to_canon(s))
    v = build(s, rep)
    if cn(v) != exp:
        raise runner.HarnessError('builder does not produce the specified value: %s -> %r' % (skey(s), v))
    fails = []
    runs = 0
    w = _try(env.write, v)
    if w[0] == 'exc':
        return None, 1, [('w', 'write=exc:' + w[1], 'write succeeds')]
    text = w[1]
    exp_s = 'read=ok:%s rewrite=%r' % (_show_c(exp), text)
    for path, reader in (('rs', env.read_rs), ('r', env.read_r)):
        runs += 1
        r = _try(reader, text)
        if r[0] == 'exc':
            fails.append((path, 'text=%r read=exc:%s' % (text, r[1]), exp_s))
            continue
        c2 = _try(cn, r[1])
        w2 = _try(env.write, r[1])
        same_v = c2 == ('ok', exp)
        same_t = w2 == ('ok', text)
        if not (same_v and same_t):
            obs = 'text=%r read=%s' % (text, 'ok:' + _show_c(c2[1]) if c2[0] == 'ok' else 'uncanonical:' + c2[1])
            if not same_t:      # (object addresses in the text of a non-data object are not part of the observation)
                obs += ' rewrite=%s' % (_ADDR.sub('', repr(w2[1])) if w2[0] == 'ok' else 'exc:' + w2[1])
            fails.append((path, obs, exp_s))
    if has_dict(s):
        # a second reading of the same text after the program has updated, in place, every dictionary of the first reading
        # (dictionaries are the only values a program can change: `d,[k v]`); what a text reads as depends on the text alone
        for path, reader in (('rs-again', env.read_rs), ('r-again', env.read_r)):
            runs += 1
            r1 = _try(reader, text)
            if r1[0] != 'ok':
                continue            # reported above
            _update_dicts(env, r1[1])
            r = _try(reader, text)
            c2 = _try(cn, r[1]) if r[0] == 'ok' else r
            if c2 != ('ok', exp):
                fails.append((path, 'text=%r second read=%s' % (text, 'ok:' + _show_c(c2[1]) if c2[0] == 'ok' else 'exc:' + str(c2[1])),
                              exp_s))
    if s[0] in 'ircsy':
        runs += 1
        r = _try(env.form, build(s, rep))
        c2 = _try(cn, r[1]) if r[0] == 'ok' else r
        if c2 != ('ok', exp):
            fails.append(('form', 'form=%s' % ('ok:' + _show_c(c2[1]) if c2[0] == 'ok' else 'exc:' + c2[1]),
                          'form=ok:' + _show_c(exp)))
    if s[0] in 'iry':
        runs += 1
        r = _try(env.fmt_rs, build(s, rep))
        c2 = _try(cn, r[1]) if r[0] == 'ok' else r
        if c2 != ('ok', exp):
            fails.append(('fmt-rs', 'fmt-rs=%s' % ('ok:' + _show_c(c2[1]) if c2[0] == 'ok' else 'exc:' + c2[1]),
                          'fmt-rs=ok:' + _show_c(exp)))
    return text, runs, fails


def _update_dicts(env, v, depth=0):
    """`d,[:zz 1]` (Klong's in-place dictionary update, run by the interpreter) on every dictionary inside v."""
    if isinstance(v, dict):
        for w in list(v.values()):
            _update_dicts(env, w, depth + 1)
        env.k['dd'] = v
        env.k('dd,[:zz 1]')
    elif isinstance(v, (list, np.ndarray)) and getattr(v, 'dtype', object) == object and depth < 8:
        for w in v:
            _update_dicts(env, w, depth + 1)


def classify(s, path, observed):
    """Root-cause label, assigned by inspection of what was observed on the pinned tree."""
    if path in ('rs', 'r') and has_dict(s) and '<fn/0>' in observed:
        return 'dict-read-as-unevaluated-call'
    if path == 'r' and s[0] in 'ir' and s[1] < 0 and 'read=ok:<KGOp>' in observed:
        return 'r-channel-reads-minus-as-operator'
    if 'did not terminate' in observed:
        return 'hang'
    if path in ('rs', 'r') and 'read=ok:' in observed and _has_bracket_elem(s):
        return 'bracket-string-element-read-as-list-opener'
    return None


def _has_bracket_elem(s, inside=False):
    if s[0] == 'l':
        return any(_has_bracket_elem(e, True) for e in s[1])
    if s[0] == 'd':
        return any(_has_bracket_elem(k, True) or _has_bracket_elem(v, True) for k, v in s[1])
    return inside and s in (('s', '['), ('c', '['))


SNIPPET = '''import io, numpy as np
from klongpy import KlongInterpreter
from klongpy.types import KGChar, KGSym, KGChannel, KGChannelDir
def O(*a):
    r = np.empty(len(a), dtype=object)
    for i, x in enumerate(a): r[i] = x
    return r
k = KlongInterpreter(); out = io.StringIO()
k['oc'] = KGChannel(out, KGChannelDir.OUTPUT); k('.tc(oc)')
v = %s
k['v'] = v
%s
'''

SNIP_PATH = {
    'w': "k('.w(v)')                      # expected: writes the readable form",
    'rs': "k('.w(v)'); text = out.getvalue(); print(repr(text))\n"
          "k['t'] = text; r = k('.rs(t)'); print(repr(r))                  # expected: the same value as v\n"
          "out.seek(0); out.truncate(); k['v'] = r; k('.w(v)'); print(repr(out.getvalue()))   # expected: == text",
    'r': "k('.w(v)'); text = out.getvalue(); print(repr(text))\n"
         "k['ic'] = KGChannel(io.StringIO(text), KGChannelDir.INPUT); k('.fc(ic)')\n"
         "r = k('.r()'); print(repr(r))                                    # expected: the same value as v\n"
         "out.seek(0); out.truncate(); k['v'] = r; k('.w(v)'); print(repr(out.getvalue()))   # expected: == text",
    'rs-again': "k('.w(v)'); text = out.getvalue(); k['t'] = text; r1 = k('.rs(t)')\n"
                "# update every dictionary inside r1 in place (k['dd'] = <dictionary>; k('dd,[:zz 1]')), then read the text again:\n"
                "print(repr(k('.rs(t)')))                                       # expected: the same value as v",
    'r-again': "# as rs-again, reading with .r() from a channel holding the text both times",
    'form': "print(repr(k('$v')), repr(k('v:$$v')))      # expected: v again",
    'fmt-rs': "print(repr(k('$v')), repr(k('.rs($v)')))      # expected: v again",
}


def _vkey(path, s, rep):
    return '%s|%s%s' % (path, skey(s), '' if rep == 'py' else '|' + rep)


def _violation(s, rep, path, observed, expected):
    return dict(key=_vkey(path, s, rep), observed=observed, expected=expected, group=classify(s, path, observed),
                case={'spec': spec_to_json(s), 'rep': rep, 'path': path},
                snippet=SNIPPET % (pyexpr(s, rep), SNIP_PATH[path]))


def _h(text):
    return hashlib.blake2b(text.encode('utf8', 'surrogatepass'), digest_size=8).digest()


def run_case(env, s, rep, out, hangs):
    """check_value under the per-case watchdog. Returns (env, text, runs, fails); env is replaced after a timeout."""
    for attempt in range(ATTEMPTS):
        try:
            with runner.watchdog(CASE_TIMEOUT):
                text, runs, fails = check_value(env, s, rep)
            return env, text, runs, fails
        except runner.CaseTimeout:
            out['timeouts'] += 1
            env = Env()
    with hangs.get_lock():
        hangs.value += 1
    return env, None, 1, [('rs', 'did not terminate within %gs (%d attempts)' % (CASE_TIMEOUT, ATTEMPTS), 'terminates')]


def make_worker(levels, hangs):
    def work(chunk):
        out = {'values': 0, 'evaluations': 0, 'violations_total': 0, 'viol': [], 'by_class': {}, 'samples': {},
               'hv': [], 'hn': [], 'timeouts': 0, 'skipped_after_hangs': 0}
        env = Env()
        for item in chunk:
            kind, name = item[0], item[1]
            if kind == 'explicit':
                gen = iter(item[2])
                iid = '%s/%s' % (name, skey(item[2][0][0]))
            else:
                elems, old = levels[name]
                gen = ((s, 'py') for s in product_specs(elems, old, item[2]))
                iid = '%s/%03d' % (name, item[2])
            kept = 0
            hv, hn = [], []
            nsample = 0
            for s, rep in gen:
                s = snorm(s)
                if hangs.value >= MAX_HANGS:
                    out['skipped_after_hangs'] += 1
                    continue
                env, text, runs, fails = run_case(env, s, rep, out, hangs)
                out['values'] += 1
                out['evaluations'] += runs
                out['by_class'][name] = out['by_class'].get(name, 0) + 1
                h = _h(skey(s) + '|' + rep)
                hv.append(h)
                if not trivial(s):
                    hn.append(h)
                if nsample < 2 and text is not None and (kind == 'explicit' or depth(s) >= 2):
                    out['samples'].setdefault(iid, []).append([skey(s), text])
                    nsample += 1
                for path, observed, expected in fails:
                    out['violations_total'] += 1
                    if kept < CAP_PER_ITEM:
                        kept += 1
                        out['viol'].append(_violation(s, rep, path, observed, expected))
            out['hv'].append(b''.join(hv))
            out['hn'].append(b''.join(hn))
        return out
    return work


def selftest():
    """The harness's own pieces against hand-written examples (no reference model: the oracle is the identity)."""
    ex = [
        (I(-3), '-3', '-3'), (R(1e-7), '1e-07', '1e-07'), (C('"'), '0c"', "KGChar('\"')"), (S('a"b'), '"a""b"', "'a\"b'"),
        (Y('foo'), ':foo', "KGSym('foo')"), (L(), '[]', 'np.array([], dtype=np.float64)'),
        (L(I(1), R(0.5)), '[1.0 0.5]', 'np.array([1.0, 0.5], dtype=np.float64)'),
        (L(I(1), S('a')), '[1 "a"]', "O(1, 'a')"),
        (L(L(I(1), I(2)), L(I(3), I(4))), '[[1 2] [3 4]]', 'np.array([[1, 2], [3, 4]], dtype=np.int64)'),
        (L(L(I(1)), L(I(2), R(0.5))), '[[1] [2.0 0.5]]', 'O(np.array([1], dtype=np.int64), np.array([2.0, 0.5], dtype=np.float64))'),
        (D((I(1), I(2)), (S('a'), L())), ':{[1 2] ["a" []]}', "{1: 2, 'a': np.array([], dtype=np.float64)}"),
    ]
    for s, key, py in ex:
        s = snorm(s)
        assert skey(s) == key, (skey(s), key)
        assert pyexpr(s) == py, (pyexpr(s), py)
        assert spec_from_json(json.loads(json.dumps(spec_to_json(s)))) == s
        assert cn(build(s)) == norm(to_canon(s)), s
    b = build(L(I(1), S('a'), L(I(1), I(2))))
    assert b.dtype == object and b.shape == (3,) and b[2].dtype == np.int64
    assert build(L(L(I(1), I(2)), L(I(3), R(4.5)))).dtype == np.float64
    assert build(L(I(2 ** 64), I(1))).dtype == object
    assert trivial(I(5)) and trivial(L()) and trivial(L(I(1), I(2))) and not trivial(I(-1)) and not trivial(L(S('')))
    assert depth(L(L(L()))) == 3 and depth(D((I(1), L(I(1))))) == 2 and has_dict(L(L(D()))) and not has_dict(L())
    assert len(all_strings()) == 1111
    # subset relations the duplicate-skipping of the list levels relies on
    assert set(A2) <= set(A1) and set(B1) <= set(A1) and set(A3) <= set(A2) and set(B3) <= set(B1)
    assert set(A3Q) <= set(A2) and set(B3Q) <= set(B1)
    for q in (True, False):
        lv = level_elems(q)
        for name, (elems, old) in lv.items():
            assert len(set(elems)) == len(elems), name
            n, o = len(elems), old
            want = sum(n ** k - o ** k for k in (1, 2, 3))
            got = sum(1 for i in range(n) for _ in product_specs(elems, old, i)) if n <= 60 else want
            assert got == want, (name, got, want)
        assert all(depth(e) <= 1 for e in lv['L2'][0]) and max(depth(e) for e in lv['L3'][0]) == 2
    # the comparison can fail: different kinds / order-sensitive text
    assert cn(build(C('a'))) != cn(build(S('a'))) and cn(1) != cn(1.0) and cn(KGSym('a')) != cn('a')
    # the channels: what `.w` puts on the StringIO To-Channel is exactly what writer.kg_write returns (whatever that is on
    # the tree under test), and `.r` consumes the StringIO From-Channel.  No expectation about the text itself here.
    from klongpy.writer import kg_write
    env = Env()
    for s in (I(-3), S('a"b'), C('"'), L(I(1), S('x'), L(R(0.5)))):
        v = build(s)
        assert env.write(v) == kg_write(v, env.k._backend), skey(s)
    try:
        env.read_r('7 8')
    except Exception:               # noqa: BLE001 - the reader's behaviour is judged by the check, not here
        pass
    assert env.inp.tell() > 0 or env.ic.at_eof
    return 'spec/builder/key examples ok; .w on the StringIO channel == kg_write; .r consumes the StringIO channel'


FILE_FIRST = ['"é"', '"日本"', '"a"', '0cé', '[1 "é"]', '1', '-2.5', ':foo', '"x""y"', '["ab" [0cü]]']
FILE_SECOND = ['1', '"ab"', '[1 2]', '"é"', ':{[1 2]}']


def file_pairs(rep):
    """Two values written one after the other (separated by a blank) to a real UTF-8 file and read back with two .r()
    calls: the second read starts where the first object ended (the in-memory channels of the main part count
    characters like the reader does; a file channel counts bytes).  Complete product FILE_FIRST x FILE_SECOND."""
    import os
    from klongpy import KlongInterpreter
    d = runner.scratch_dir()
    n = 0
    for a in FILE_FIRST:
        for b in FILE_SECOND:
            n += 1
            path = os.path.join(d, 'c11_pair_%d.txt' % n)
            k = KlongInterpreter()
            try:
                with runner.watchdog(CASE_TIMEOUT):
                    k('a::%s;b::%s' % (a, b))
                    k('c::.oc("%s");.tc(c);.w(a);.d(" ");.w(b);.cc(c)' % path)
                    k('i::.ic("%s");.fc(i)' % path)
                    got = [cn(k('.r()')), cn(k('.r()'))]
                    want = [cn(k('a')), cn(k('b'))]
                    obs = 'read [%s ; %s]' % (show(got[0]), show(got[1]))
            except runner.CaseTimeout:
                obs, got, want = 'did not terminate', None, 0
            except Exception as e:      # noqa: BLE001
                obs, got, want = 'exc:' + type(e).__name__, None, 0
            if got != want:
                rep.violation('file: .w(%s);.d(" ");.w(%s) then .r();.r()' % (a, b), obs, 'the two values in order',
                              case={'part': 'file', 'a': a, 'b': b}, group='consecutive-reads-from-a-file',
                              snippet="from klongpy import KlongInterpreter\nk = KlongInterpreter()\n"
                                      "k('a::%s;b::%s')\nk('c::.oc(\"/tmp/p.txt\");.tc(c);.w(a);.d(\" \");.w(b);.cc(c)')\n"
                                      "k('i::.ic(\"/tmp/p.txt\");.fc(i)')\nprint(k('.r()'), k('.r()'))\n" % (a, b))
            try:
                os.remove(path)
            except OSError:
                pass
    return n


def run(cfg):
    rep = runner.Report('C11', 'exploration')
    n_pairs = file_pairs(rep)
    msg = selftest()
    items, levels = work_items(cfg)
    hangs = multiprocessing.get_context('fork').Value('i', 0)       # shared with the forked workers
    work = make_worker(levels, hangs)
    total = {}
    hv, hn, viol = [], [], []
    for part in runner.pmap(work, items, cfg, chunk=1):
        hv.extend(part.pop('hv'))
        hn.extend(part.pop('hn'))
        viol.extend(part.pop('viol'))       # not through merge_counts: its list cap depends on completion order
        runner.merge_counts(total, part)
    viol.sort(key=lambda v: (v['key'], v['observed']))
    for v in viol[:CAP_TOTAL]:
        rep.violation(v['key'], v['observed'], v['expected'], case=v['case'], snippet=v['snippet'], group=v['group'])
    dv = int(np.unique(np.frombuffer(b''.join(hv), dtype='<u8')).size)
    dn = int(np.unique(np.frombuffer(b''.join(hn), dtype='<u8')).size)
    samples = []
    for iid in sorted(total.get('samples', {})):
        pre = iid.split('/')[0]
        if sum(1 for x in samples if x['class'] == pre) < 2:
            k, t = total['samples'][iid][-1]
            samples.append({'class': pre, 'value': k, 'written': t})
    suppressed = total.get('violations_total', 0) - len(rep.violations)
    skipped = total.get('skipped_after_hangs', 0)
    if skipped:
        rep.violation('aborted', '%d values hung on every attempt' % hangs.value, 'every value terminates', group='hang',
                      case=None, snippet=None)
        rep.notes.append('%d values skipped after %d confirmed hangs: the run is not exhaustive' % (skipped, hangs.value))
    rep.coverage = {
        'evaluations': total.get('evaluations', 0),
        'values': total.get('values', 0),
        'value_pairs_through_a_utf8_file': n_pairs,
        'distinct_values': dv,
        'distinct_nontrivial': dn,
        'values_by_class': dict(sorted(total.get('by_class', {}).items())),
        'list_levels': {n: {'elements': len(e), 'old_elements': o} for n, (e, o) in sorted(levels.items())},
        'violating_evaluations': total.get('violations_total', 0),
        'violations_not_listed': suppressed,
        'timeouts_incl_retried': total.get('timeouts', 0),
        'confirmed_hangs': hangs.value,
        'skipped_after_hangs': skipped,
        'samples': samples,
        'exhaustive': skipped == 0,
        'oracle_selfcheck': msg,
        'rule': 'every value of the closed universe (atoms of every kind incl. numpy scalars, all 1111 strings over the '
                '10-character alphabet up to length 3 alone and as list elements, characters, symbols, all lists of '
                'length 0..3 over kind-representative element sets nested to depth %d%s, dictionaries of them) is injected '
                'as a Python/numpy object, written with .w to a StringIO channel, read back with .rs and with .r, compared '
                'in canonical form and written again; atoms also through v:$$v and .rs($v). evaluations = pipeline runs '
                '(value x path). distinct_nontrivial = distinct values (64-bit hash of the value key) that are not a '
                'non-negative integer or a flat list of non-negative integers'
                % (3, ' (depth 3 over a reduced element set)' if cfg.quick else ''),
    }
    rep.assumptions = [
        'DESIGN 2.4 weakening applied to the universe: a rectangular all-numeric list is one homogeneous ndarray, so a '
        'block holding an integer and a real is the all-real block (an object array [1 0.5], which `1_["a" 1 0.5]` '
        'produces, writes "[1 0.5]" but reads back and rewrites as "[1.0 0.5]"; not judged)',
        'values are injected as the representation klongpy itself uses (int/float/numpy scalars, KGChar, str, KGSym, dict, '
        'homogeneous ndarray for numeric blocks, 1-d object ndarray otherwise); n-d object arrays and torch tensors are '
        'not injected',
        '-0.0, nan and inf are outside the universe (inf is written as "inf" and read as the symbol :inf)',
        'symbols are read with no module open (.rs / .r qualify symbol names inside a module)',
        '.r is exercised on a channel holding exactly the written text; consecutive objects on one channel are not covered',
        'dictionary keys that collide as Python keys (0ca vs "a", C10) are kept out of the dictionary universe',
    ]
    if suppressed:
        rep.notes.append('%d violating evaluations beyond the listing caps are counted but not listed' % suppressed)
    return rep


def replay(cfg, path):
    with open(path) as f:
        r = json.load(f)
    case = r['case']
    s = spec_from_json(case['spec'])
    rp = case.get('rep', 'py')
    env = Env()
    print('value  :', skey(s), '(rep %s)' % rp, ' python:', pyexpr(s, rp))
    out = {'timeouts': 0}
    env, text, runs, fails = run_case(env, s, rp, out, multiprocessing.Value('i', 0))
    print('written:', repr(text), '(timeouts: %d)' % out['timeouts'])
    for p, observed, expected in fails:
        print('VIOLATED [%s] observed: %s\n          expected: %s' % (p, observed, expected))
    if not fails:
        print('holds on this tree (%d pipeline runs)' % runs)
    return 1 if fails else 0

"""C10 - a dictionary behaves as a finite map under any sequence of operations.

E1 (explicit-state BFS over the real interpreter): operations are Klong source texts evaluated by
KlongInterpreter.__call__; after every operation the result and the complete dictionary state reachable from the
variables d and e are compared with a reference model (Python dicts keyed by *tagged* keys, aliasing by object id,
fresh object per literal evaluation).
"""
import itertools

from klongpy import KlongInterpreter

from .. import bfs, runner
from ..values import I, R, C, S, Y, L, U, cn, canon, norm, lit, show

PRELUDE = 'f::{:{[1 10] ["a" 20]}};g::{:{["c" :{["n" 0]}] [7 1]}}'
F_LITERAL = ((I(1), I(10)), (S('a'), I(20)))

# key 0 is in both alphabets: 0 is also "no count" for Drop and "false", i.e. the key most likely to be special-cased
# (seeded change C10a was missed before it was added)
KEYS_T = [I(1), I(0), I(2), I(-1), R(1.5), C('a'), S('a'), S('ab'), Y('a'), S('')]
VALS_T = [I(0), L(), L(I(1), I(2)), S('s'), L(I(7))]      # incl. a one-element list (a list, not its element)
KEYS_Q = [I(1), I(0), R(1.5), C('a'), S('a'), Y('a'), S('ab')]
VALS_Q = [I(0), L(I(1), I(2)), S('s'), L(I(7))]

LITERALS = [
    (),
    ((I(1), I(10)),),
    ((S('a'), I(1)), (Y('a'), I(2)), (I(2), S('s'))),
]


def tagkey(k):
    """Model key: numbers by value (1 and 1.0 are the same number), everything else by kind and content."""
    if k[0] in 'ir':
        return ('n', float(k[1]))
    return k


def pair(k, v):
    """What the list literal [k v] denotes (numeric block promotion applies to the pair itself)."""
    p = norm(L(k, v))
    return p[1][0], p[1][1]


class Model:
    def __init__(self):
        self.objs = []            # list of dict: tagkey -> (key, value)   value canonical or ('ref', oid)
        self.vars = {'d': None, 'e': None}
        self.called = frozenset()

    def new(self, pairs):
        o = {}
        for k, v in pairs:
            k, v = pair(k, v)
            o[tagkey(k)] = (k, v)
        self.objs.append(o)
        return len(self.objs) - 1

    def resolve(self, oid, depth=0):
        out = []
        for tk, (k, v) in self.objs[oid].items():
            if v[0] == 'ref':
                v = self.resolve(v[1], depth + 1)
            out.append((k, v))
        return ('d', frozenset(out))

    def key(self):
        ren = {}
        order = []

        def visit(oid):
            if oid in ren:
                return
            ren[oid] = len(ren)
            order.append(oid)
            for tk in sorted(self.objs[oid], key=repr):
                v = self.objs[oid][tk][1]
                if v[0] == 'ref':
                    visit(v[1])

        for n in ('d', 'e'):
            if self.vars[n] is not None:
                visit(self.vars[n])
        objs = []
        for oid in order:
            items = []
            for tk in sorted(self.objs[oid], key=repr):
                k, v = self.objs[oid][tk]
                items.append((k, ('ref', ren[v[1]]) if v[0] == 'ref' else v))
            objs.append(tuple(items))
        return (tuple(ren.get(self.vars[n]) if self.vars[n] is not None else None for n in ('d', 'e')),
                tuple(objs), self.called)


# --- operations ---------------------------------------------------------------------------------
# op = (kind, ...)   text(op) is the Klong source; apply(model, op) returns the expected result:
#   ('val', canonical) | ('dict', oid) | ('pairs', oid) multiset of [k v] | None (not judged)

def text(op):
    k = op[0]
    if k == 'lit':
        return op[1] + ':::{' + ' '.join('[' + lit(a) + ' ' + lit(b) + ']' for a, b in LITERALS[op[2]]) + '}'
    if k == 'addr':
        return '%s,[%s %s]' % (op[1], lit(op[2]), lit(op[3]))
    if k == 'addl':
        return '[%s %s],%s' % (lit(op[2]), lit(op[3]), op[1])
    if k == 'find':
        return '%s?%s' % (op[1], lit(op[2]))
    if k == 'index':            # Index with a list of keys: the list of their values
        return '%s@,%s' % (op[1], lit(op[2]))
    if k == 'index2':
        return '%s@%s' % (op[1], lit(L(op[2], op[3])))
    if k == 'drop':
        return '(%s)_%s' % (lit(op[2]), op[1])
    if k == 'size':
        return '#' + op[1]
    if k == 'each':
        return "{x}'" + op[1]
    if k == 'alias':
        return '%s::%s' % (op[1], op[2])
    if k == 'fcall':
        return op[1] + '::f()'
    if k == 'ffind':
        return 'f()?%s' % lit(op[1])
    if k == 'feach':
        return "{x}'f()"
    if k == 'nest':
        return 'd,(%s),,e' % lit(op[1])
    if k == 'nestj':            # the tuple made by a plain Join of the key and the dictionary (a dictionary is an atom)
        return 'd,%s,e' % lit(op[1])
    if k == 'nestl':            # the tuple on the left of the dictionary
        return '((%s),,e),d' % lit(op[1])
    if k == 'nfind':
        return '(d?%s)?%s' % (lit(op[1]), lit(op[2]))
    if k == 'gcall':            # a literal with a dictionary literal as a value: every evaluation makes both afresh
        return op[1] + '::g()'
    if k == 'gnfind':
        return '(g()?"c")?"n"'
    if k == 'nadd':             # update, in place, the dictionary found under a key of d
        return '(d?%s),[%s %s]' % (lit(op[1]), lit(op[2]), lit(op[3]))
    raise ValueError(op)


def apply(m, op):
    k = op[0]
    if k == 'lit':
        m.vars[op[1]] = m.new(LITERALS[op[2]])
        return ('dict', m.vars[op[1]])
    if k in ('addr', 'addl'):
        oid = m.vars[op[1]]
        kk, vv = pair(op[2], op[3])
        m.objs[oid][tagkey(kk)] = (kk, vv)
        return ('dict', oid)
    if k == 'find':
        e = m.objs[m.vars[op[1]]].get(tagkey(op[2]))
        if e is None:
            return ('val', U)
        return ('dict', e[1][1]) if e[1][0] == 'ref' else ('val', e[1])
    if k in ('index', 'index2'):
        vs = []
        for kk in op[2:]:
            e = m.objs[m.vars[op[1]]].get(tagkey(kk))
            if e is None or e[1][0] == 'ref':
                return None         # a key the dictionary does not have / a dictionary as element: not prescribed
            vs.append(e[1])
        return ('val', norm(L(*vs)))     # a list of numbers is one numeric block (DESIGN 2.4)
    if k == 'drop':
        m.objs[m.vars[op[1]]].pop(tagkey(op[2]), None)
        return ('dict', m.vars[op[1]])
    if k == 'size':
        return ('val', I(len(m.objs[m.vars[op[1]]])))
    if k == 'each':
        return ('pairs', m.vars[op[1]])
    if k == 'alias':
        m.vars[op[1]] = m.vars[op[2]]
        return ('dict', m.vars[op[1]])
    if k == 'fcall':
        m.vars[op[1]] = m.new(F_LITERAL)
        m.called = m.called | {'f'}
        return ('dict', m.vars[op[1]])
    if k == 'ffind':
        m.called = m.called | {'f'}
        d = {tagkey(a): b for a, b in F_LITERAL}
        return ('val', d.get(tagkey(op[1]), U))
    if k == 'feach':
        m.called = m.called | {'f'}
        oid = m.new(F_LITERAL)
        r = ('pairsval', m.resolve(oid))
        m.objs.pop()
        return r
    if k in ('nest', 'nestj', 'nestl'):
        m.objs[m.vars['d']][tagkey(op[1])] = (op[1], ('ref', m.vars['e']))
        return ('dict', m.vars['d'])
    if k == 'nfind':
        e = m.objs[m.vars['d']].get(tagkey(op[1]))
        if e is None or e[1][0] != 'ref':
            return None
        e2 = m.objs[e[1][1]].get(tagkey(op[2]))
        if e2 is None:
            return ('val', U)
        return ('dict', e2[1][1]) if e2[1][0] == 'ref' else ('val', e2[1])
    if k == 'gcall':
        inner = m.new(((S('n'), I(0)),))
        outer = m.new(((I(7), I(1)),))
        m.objs[outer][tagkey(S('c'))] = (S('c'), ('ref', inner))
        m.vars[op[1]] = outer
        m.called = m.called | {'g'}
        return ('dict', outer)
    if k == 'gnfind':
        m.called = m.called | {'g'}
        return ('val', I(0))
    if k == 'nadd':
        e = m.objs[m.vars['d']].get(tagkey(op[1]))
        if e is None or e[1][0] != 'ref':
            return None
        kk, vv = pair(op[2], op[3])
        m.objs[e[1][1]][tagkey(kk)] = (kk, vv)
        return ('dict', e[1][1])
    raise ValueError(op)


READS = ('find', 'size', 'each', 'ffind', 'feach', 'nfind', 'gnfind', 'index', 'index2')


def enabled(m, keys, vals, nest):
    ops = []
    for var in ('d', 'e'):
        for i in range(len(LITERALS)):
            if var == 'd' or i == 1:
                ops.append(('lit', var, i))
        ops.append(('fcall', var))
    for k in keys[:2]:
        ops.append(('ffind', k))
    ops.append(('ffind', S('a')))
    ops.append(('feach',))
    if m.vars['d'] is not None:
        ops.append(('alias', 'e', 'd'))
    if m.vars['e'] is not None:
        ops.append(('alias', 'd', 'e'))
    for var in ('d', 'e'):
        if m.vars[var] is None:
            continue
        ks = keys if var == 'd' else keys[:4]
        vs = vals if var == 'd' else vals[:2]
        for k in ks:
            for v in vs:
                ops.append(('addr', var, k, v))
            ops.append(('addl', var, k, vals[(keys.index(k)) % len(vals)]))
            ops.append(('find', var, k))
            if k[0] != 'c':         # a list of one character is a string in Klong: `d@,0ca` is `d@"a"`, not Index by a key list
                ops.append(('index', var, k))
            if k is not ks[0]:
                ops.append(('index2', var, k, ks[0]))
            ops.append(('drop', var, k))
        ops.append(('size', var))
        ops.append(('each', var))
    if nest and m.vars['d'] is not None and m.vars['e'] is not None and m.vars['d'] != m.vars['e']:
        # e inside d only if e does not (transitively) contain d: keeps the object graph acyclic
        if not _reaches(m, m.vars['e'], m.vars['d']):
            ops.append(('nest', Y('n')))
            ops.append(('nestj', S('ab')))      # a two-character string key: looks like a [k v] pair to a careless test
            ops.append(('nestl', Y('n')))
    if nest:
        ops.append(('gcall', 'd'))
        ops.append(('gcall', 'e'))
        ops.append(('gnfind',))
    for nk in (Y('n'), S('ab'), S('c')):
        if nest and m.vars['d'] is not None and tagkey(nk) in m.objs[m.vars['d']]:
            for k in keys[:3] + ([S('n')] if nk == S('c') else []):
                ops.append(('nfind', nk, k))
            e = m.objs[m.vars['d']][tagkey(nk)]
            if e[1][0] == 'ref':
                ops.append(('nadd', nk, S('n'), I(5)))
                ops.append(('nadd', nk, keys[0], vals[0]))
    return ops


def _reaches(m, a, b):
    if a == b:
        return True
    return any(v[1][0] == 'ref' and _reaches(m, v[1][1], b) for v in m.objs[a].values())


def build(hist):
    kl = KlongInterpreter()
    kl(PRELUDE)
    m = Model()
    for op in hist:
        kl(text(op))
        apply(m, op)
    return kl, m


def _pairs_multiset(c):
    """canonical result of {x}'d -> sorted tuple of (k, v) pairs, or None if it is not a list of pairs."""
    if c[0] != 'l':
        return None
    out = []
    for e in c[1]:
        if e[0] == 'l' and len(e[1]) == 2:
            out.append((e[1][0], e[1][1]))
        elif e[0] == 's' and len(e[1]) == 2:          # a pair of two characters may come back as a 2-char string
            out.append((C(e[1][0]), C(e[1][1])))
        else:
            return None
    return tuple(sorted(out, key=repr))


def _expected_pairs(d):
    # the result list as a whole is subject to numeric-block promotion (all pairs numeric, one real => all real)
    whole = norm(('l', tuple(L(k, v) for k, v in d[1])))
    return tuple(sorted(((e[1][0], e[1][1]) for e in whole[1]), key=repr))


def check_state(kl, m):
    """Compare every variable's dictionary (resolved through nested references) with the model."""
    bad = []
    for n in ('d', 'e'):
        oid = m.vars[n]
        if oid is None:
            continue
        try:
            got = cn(kl[n])
        except Exception as e:      # noqa: BLE001
            got = ('exc', type(e).__name__)
        exp = m.resolve(oid)
        if got != exp:
            bad.append((n, got, exp))
    # aliasing is an object-level fact: same model object <=> same Python object
    if m.vars['d'] is not None and m.vars['e'] is not None:
        same = kl['d'] is kl['e']
        if same != (m.vars['d'] == m.vars['e']):
            bad.append(('alias', ('i', int(same)), ('i', int(m.vars['d'] == m.vars['e']))))
    return bad


def judge(kl, m, op, hist):
    """Execute op on the real interpreter and the model; return list of violation dicts."""
    viol = []
    src = text(op)
    exp = apply(m, op)
    try:
        got = ('ok', cn(kl(src)))
    except Exception as e:          # noqa: BLE001
        got = ('exc', type(e).__name__)
    ok = True
    expected_s = None
    if exp is not None:
        if got[0] != 'ok':
            ok = False
            expected_s = 'no exception'
        elif exp[0] == 'val':
            ok = got[1] == exp[1]
            expected_s = show(exp[1])
        elif exp[0] == 'dict':
            e = m.resolve(exp[1])
            ok = got[1] == e
            expected_s = show(e)
        elif exp[0] in ('pairs', 'pairsval'):
            e = m.resolve(exp[1]) if exp[0] == 'pairs' else exp[1]
            want = _expected_pairs(e)
            have = _pairs_multiset(got[1])
            ok = have == want
            expected_s = 'multiset ' + ' '.join('[%s %s]' % (show(a), show(b)) for a, b in want)
    history = [text(h) for h in hist]
    if not ok:
        viol.append(_viol(history, src, 'result', show(got[1]) if got[0] == 'ok' else 'exc:' + got[1], expected_s))
    for n, g, e in check_state(kl, m):
        viol.append(_viol(history, src, 'state(%s)' % n, show(g) if g[0] != 'exc' else 'exc:' + g[1], show(e)))
    return viol


def _viol(history, src, what, observed, expected):
    prog = history + [src]
    snippet = ('from klongpy import KlongInterpreter\nk = KlongInterpreter()\nk(%r)\n' % PRELUDE
               + ''.join('print(k(%r))\n' % p for p in prog))
    return dict(key=' ; '.join(prog) + ' @' + what, observed=observed, expected=expected,
                case={'prelude': PRELUDE, 'history': history, 'op': src, 'what': what}, snippet=snippet)


def make_expand(keys, vals, nest):
    def expand(hist):
        out = {'succ': [], 'transitions': 0, 'violations': [], 'reads': 0, 'writes': 0, 'outcomes': set()}
        kl, m = build(hist)
        ops = enabled(m, keys, vals, nest)
        # reads are applied to the one instance in sequence (each is followed by a full state comparison, so a read
        # that disturbs the state is caught); every write gets a fresh replay of the history
        for op in ops:
            if op[0] in READS:
                v = judge(kl, m, op, hist)
                out['reads'] += 1
                out['transitions'] += 1
                out['violations'].extend(v)
        for op in ops:
            if op[0] in READS:
                continue
            kl2, m2 = build(hist)
            v = judge(kl2, m2, op, hist)
            out['writes'] += 1
            out['transitions'] += 1
            out['violations'].extend(v)
            out['outcomes'].add(hash(m2.key()) & 0xffffffff)
            out['succ'].append((op, None if v else m2.key()))
        return out
    return expand


def run(cfg):
    rep = runner.Report('C10', 'model_checking')
    keys, vals = (KEYS_Q, VALS_Q) if cfg.quick else (KEYS_T, VALS_T)
    # phase A: every key kind except the character (deep); phase B: the colliding trio 0ca / "a" / :a (shallow).
    # The split exists because of a known defect (0ca and "a" are one key): with the character in the deep alphabet
    # every history that touches both keys fails and nothing beyond it can be compared with the model.
    keys_a = [k for k in keys if k != C('a')]
    depth = cfg.pick(4, 5)
    total = bfs.search(make_expand(keys_a, vals, True), cfg, depth, max_states=cfg.pick(40000, 2000000))
    rep.extend_violations(total.get('violations', []))
    tb = bfs.search(make_expand([C('a'), S('a'), Y('a')], vals[:2], False), cfg, cfg.pick(2, 3))
    rep.extend_violations(tb.get('violations', []))
    for k in ('states', 'transitions', 'reads', 'writes'):
        total[k] = total.get(k, 0) + tb.get(k, 0)
    total.setdefault('outcomes', set()).update(tb.get('outcomes', ()))
    total['layers'] = {'A': total['layers'], 'B': tb['layers']}
    sample_hist = [PRELUDE, text(('lit', 'd', 2)), text(('alias', 'e', 'd')), text(('addr', 'e', C('a'), I(0))),
                   text(('find', 'd', S('a')))]
    rep.coverage = {
        'states': total['states'],
        'transitions': total['transitions'],
        'traces_validated_against_impl': total['transitions'],
        'samples': [sample_hist, [PRELUDE, 'd::f()', 'd,[1 0]', 'f()?1']],
        'exhaustive': not total['capped'],
        'max_depth': total['max_depth'],
        'layers': total['layers'],
        'frontier_states_not_expanded': total['unexpanded_frontier'],
        'reads': total.get('reads', 0), 'writes': total.get('writes', 0),
        'distinct_outcomes': len(total.get('outcomes', ())),
        'keys': [show(k) for k in keys], 'values': [show(v) for v in vals],
        'rule': 'BFS over operation histories on variables d, e and the literal-holding function f; states merged on '
                '(model contents per dictionary object, alias relation, literal functions called); every state is '
                'expanded with every enabled operation up to max_depth',
    }
    rep.assumptions = [
        'states with equal model contents, alias relation and called-literal set have the same futures (the '
        'implementation keeps one Python dict per dictionary object; parse-cache sharing of literals is covered by C04)',
        'numeric-block promotion: the pair literal [k v] with one real member denotes two reals (applied to both sides)',
        'the order of f\'d is free: compared as a multiset of [k v] pairs',
    ]
    return rep


def replay(cfg, path):
    import json
    with open(path) as f:
        r = json.load(f)
    kl = KlongInterpreter()
    kl(r['case']['prelude'])
    for p in r['case']['history'] + [r['case']['op']]:
        try:
            print(p, '->', show(cn(kl(p))))
        except Exception as e:      # noqa: BLE001
            print(p, '-> exc', type(e).__name__, e)
    print('expected (%s): %s' % (r['case']['what'], r['expected']))
    return 0

"""C14 - every remote call gets its own answer or an error: never another's, never hangs.

E2 + E3.  The real NetworkClient (call, _run, _listen, _cleanup_pending_responses, close, cleanup, _stop, real
ReaderWriterConnectionProvider, real stream_send_msg / stream_recv_msg, real asyncio.StreamReader) runs on a virtual
loop that is ONE logical thread of the baton scheduler; 1-3 caller threads each perform one nc.call (or nc.close);
an environment thread plays the server from a finite script (response order, cut class of every response, fault kind
and position).  For every script all interleavings of callers, loop and environment with at most `bound` preemptions
are explored; scheduling points: every loop handle, run_coroutine_threadsafe(...).result(), Event.wait, every
environment action, and (line-level mode) every source line of call / _listen / _run / _cleanup_pending_responses.
"""
import asyncio
import itertools
import json
import logging
import struct
import sys
import threading
import types
import uuid as _uuid

from .. import runner
from ..sched import Sched, Abort, explore, _alternatives
from ..vloop import VLoop

import klongpy.sys_fn_ipc as ipc

_REAL = {'asyncio': ipc.asyncio, 'uuid': ipc.uuid, 'threading': ipc.threading}


# ---------------------------------------------------------------------------------------------
# seams

class SResult:
    """What run_coroutine_threadsafe returns: result() blocks through the scheduler."""

    def __init__(self, s, name):
        self.s, self.name = s, name
        self._done = False
        self._res = None
        self._exc = None

    def _set(self, task):
        if task.cancelled():
            self._exc = asyncio.CancelledError()
        elif task.exception() is not None:
            self._exc = task.exception()
        else:
            self._res = task.result()
        self._done = True

    def result(self, timeout=None):
        self.s.point('wait result of ' + self.name)
        if not self._done:
            self.s.block_until(lambda: self._done, 'blocked in result() of ' + self.name)
        if self._exc is not None:
            raise self._exc
        return self._res


class SEvent:
    def __init__(self, s):
        self.s = s
        self._flag = False

    def set(self):
        self._flag = True

    def clear(self):
        self._flag = False

    def is_set(self):
        return self._flag

    def wait(self, timeout=None):
        self.s.point('Event.wait')
        if not self._flag:
            self.s.block_until(lambda: self._flag, 'blocked in Event.wait')
        return True


class Proxy:
    """Module look-alike: attributes of the real module unless overridden."""

    def __init__(self, real, **over):
        self.__dict__['_real'] = real
        self.__dict__.update(over)

    def __getattr__(self, n):
        return getattr(self._real, n)


class FakeWriter:
    def __init__(self):
        self.buf = bytearray()
        self.closing = False
        self.reset = False
        self.closed_by_client = False

    def write(self, data):
        if self.reset:
            return                      # a lost transport drops writes silently (drain raises)
        self.buf += bytes(data)

    async def drain(self):
        if self.reset:
            raise ConnectionResetError('Connection lost')
        if self.slow_drain:
            # environment answer "the transport buffer is above the high-water mark": drain() really suspends
            await asyncio.sleep(0)
            if self.reset:
                raise ConnectionResetError('Connection lost')

    def close(self):
        self.closing = True
        self.closed_by_client = True

    def is_closing(self):
        return self.closing

    async def wait_closed(self):
        return None

    def get_extra_info(self, name, default=None):
        return ('127.0.0.1', 4000) if name == 'peername' else default


def frames(buf):
    """Complete request frames in the client's output buffer: list of (uuid bytes, message object)."""
    import pickle
    out = []
    i = 0
    while len(buf) - i >= 20:
        n = struct.unpack('!I', bytes(buf[i + 16:i + 20]))[0]
        if len(buf) - i - 20 < n:
            break
        out.append((bytes(buf[i:i + 16]), pickle.loads(bytes(buf[i + 20:i + 20 + n]))))
        i += 20 + n
    return out


# ---------------------------------------------------------------------------------------------

CUTS = ['whole', 'in_id', 'in_len', 'in_body', 'split3']


def cut_chunks(frame, cut):
    n = len(frame)
    if cut == 'whole':
        return [frame]
    if cut == 'in_id':
        return [frame[:8], frame[8:]]
    if cut == 'in_len':
        return [frame[:18], frame[18:]]
    if cut == 'in_body':
        k = 20 + (n - 20) // 2
        return [frame[:k], frame[k:]]
    if cut == 'split3':
        k = 20 + (n - 20) // 2
        return [frame[:8], frame[8:k], frame[k:]]
    raise ValueError(cut)


class Harness:
    def __init__(self, conf, prefix, line_level=False):
        self.conf = conf
        self.line_level = line_level
        self.sched = Sched(prefix, horizon=6000)
        s = self.sched
        self.loop = VLoop()
        self.counter = [0]
        self.results = {}               # caller index -> ('ok', value) | ('exc', name)
        self.sent = {}                  # request body -> response payload the environment sent completely
        self.partial = set()
        self.fault = None
        self.env_done = False
        self.callers_done = 0

        def uuid4():
            self.counter[0] += 1
            return _uuid.UUID(int=self.counter[0])

        def run_coroutine_threadsafe(coro, loop):
            fut = SResult(s, getattr(coro, '__qualname__', 'coroutine'))

            def start():
                task = loop.create_task(coro)
                task.add_done_callback(fut._set)
            loop.call_soon_threadsafe(start)
            return fut

        ipc.asyncio = Proxy(_REAL['asyncio'], run_coroutine_threadsafe=run_coroutine_threadsafe)
        ipc.uuid = Proxy(_REAL['uuid'], uuid4=uuid4)
        ipc.threading = Proxy(_REAL['threading'], Event=lambda: SEvent(s))
        self.reader = asyncio.StreamReader(loop=self.loop)
        self.writer = FakeWriter()
        self.writer.slow_drain = bool(conf.get('slow_drain'))
        prov = ipc.ReaderWriterConnectionProvider(self.reader, self.writer, 'h', 1)
        self.nc = ipc.NetworkClient(self.loop, self.loop, None, prov)
        self.nc.running = True
        self.run_task = None

    # -- logical threads ------------------------------------------------------------------------
    def loop_thread(self):
        s, loop = self.sched, self.loop
        loop.enter()
        try:
            self.run_task = loop.create_task(self.nc._run(None, None, None))
            while True:
                if loop._ready:
                    s.point('loop: run next handle')
                    loop.run_one_ready()
                    continue
                if self.others_done():
                    break
                s.block_until(lambda: bool(loop._ready) or self.others_done(), 'loop idle')
        finally:
            loop.leave()

    def others_done(self):
        return self.env_done and self.callers_done == len(self.conf['callers'])

    def caller_thread(self, i, what):
        s = self.sched

        def body():
            s.point('caller%d starts' % i)
            try:
                if what == 'close':
                    self.nc.close()
                    self.results[i] = ('ok', 'closed')
                else:
                    self.results[i] = ('ok', self.nc.call('req%d' % i))
            except Abort:
                raise
            except BaseException as e:      # noqa: BLE001
                self.results[i] = ('exc', type(e).__name__)
            finally:
                self.callers_done += 1
        return body

    def env_thread(self):
        s, loop = self.sched, self.loop

        # A transport delivers one event per loop iteration and polls for the next one only after the handles queued
        # before the poll have run: the server's next event is therefore appended only after its previous event handle
        # has been executed (otherwise feed_data immediately followed by set_exception would overtake the reader task's
        # wake-up, which no real transport can do).
        delivered = [True]

        def deliver(fn, *args):
            if not delivered[0]:
                s.block_until(lambda: delivered[0], 'server: previous transport event not yet processed')
            delivered[0] = False

            def handle():
                try:
                    fn(*args)
                finally:
                    delivered[0] = True
            loop.call_soon_threadsafe(handle)

        def feed(chunk):
            deliver(self.reader.feed_data, chunk)

        def request(body):
            for mid, msg in frames(self.writer.buf):
                if (msg == body) or (body == 'close' and isinstance(msg, ipc.KGRemoteCloseConnection)):
                    return mid, msg
            return None

        try:
            for act in self.conf['script']:
                kind = act[0]
                if kind in ('respond', 'ack_close', 'respond_partial'):
                    body = act[1]
                    s.point('server: wait for request %s' % body)
                    if request(body) is None:
                        s.block_until(lambda: request(body) is not None or self.callers_done == len(self.conf['callers']),
                                      'server waits for request %s' % body)
                    r = request(body)
                    if r is None:
                        continue            # the caller gave up before sending (e.g. connection already gone)
                    mid, msg = r
                    payload = msg if kind == 'ack_close' else 'resp-' + str(body)
                    frame = ipc.encode_message(_uuid.UUID(bytes=mid), payload)
                    chunks = cut_chunks(frame, act[2] if len(act) > 2 else 'whole')
                    if kind == 'respond_partial':
                        chunks = chunks[:1]
                        self.partial.add(body)
                    for j, ch in enumerate(chunks):
                        s.point('server: send %s chunk %d/%d' % (body, j + 1, len(chunks)))
                        feed(ch)
                    if kind != 'respond_partial':
                        self.sent[body] = payload
                elif kind == 'eof':
                    s.point('server: EOF')
                    self.fault = 'eof'
                    deliver(self.reader.feed_eof)
                elif kind == 'reset':
                    s.point('server: connection reset')
                    self.fault = 'reset'
                    self.writer.reset = True
                    self.writer.closing = True
                    deliver(self.reader.set_exception, ConnectionResetError('reset by peer'))
                else:
                    raise ValueError(act)
        finally:
            self.env_done = True

    def run(self):
        s = self.sched
        tracer = self._tracer() if self.line_level else None

        def wrap(fn):
            if tracer is None:
                return fn

            def traced():
                sys.settrace(tracer)
                try:
                    return fn()
                finally:
                    sys.settrace(None)
            return traced

        try:
            s.spawn(wrap(self.loop_thread), 'loop')
            for i, what in enumerate(self.conf['callers']):
                s.spawn(wrap(self.caller_thread(i, what)), 'caller%d' % i)
            s.spawn(self.env_thread, 'server')
            s.run()
        finally:
            restore()
            # finish every coroutine of this execution now (deterministically) instead of at some later garbage
            # collection inside another execution; the scheduler is inert by now (sched.finished)
            self.listener_done = self.run_task is not None and self.run_task.done()
            self.pending_left = len(self.nc.pending_responses)
            try:
                self.loop.enter()
                for t in asyncio.all_tasks(self.loop):
                    t.cancel()
                self.loop.run_all_ready()
            except Exception:       # noqa: BLE001
                pass
            finally:
                self.loop.leave()
                self.loop.close()
        return self

    def _tracer(self):
        s = self.sched
        codes = set()
        for fn in (ipc.NetworkClient.call, ipc.NetworkClient._listen, ipc.NetworkClient._run,
                   ipc.NetworkClient._cleanup_pending_responses, ipc.NetworkClient.close, ipc.NetworkClient.cleanup,
                   ipc.NetworkClient._stop):
            codes.add(fn.__code__)
        for const in ipc.NetworkClient.call.__code__.co_consts:
            if isinstance(const, types.CodeType):
                codes.add(const)

        def local(frame, event, arg):
            if event == 'line':
                s.point('line %s:%d' % (frame.f_code.co_name, frame.f_lineno))
            return local

        def glob(frame, event, arg):
            if frame.f_code in codes:
                return local
            return None
        return glob


def restore():
    ipc.asyncio = _REAL['asyncio']
    ipc.uuid = _REAL['uuid']
    ipc.threading = _REAL['threading']


# ---------------------------------------------------------------------------------------------
# oracle

def judge(h):
    s, conf = h.sched, h.conf
    out = []
    res = dict(h.results)
    h.leaked = False
    outcome = (tuple(sorted(res.items())), s.verdict)
    if s.verdict in ('deadlock', 'livelock'):
        waiting = [t.name for t in s.threads if t.state != 'done' and t.name.startswith('caller')]
        out.append(('hang', '%s: %s never return%s (%s)' % (s.verdict, ','.join(waiting) or 'threads', '' if len(waiting) > 1 else 's',
                                                            '; '.join(s.verdict_detail) if isinstance(s.verdict_detail, list) else s.verdict_detail),
                    'every call returns or raises'))
        return outcome, out
    for t in s.threads:
        if t.exc is not None and t.exc != 'aborted':
            out.append(('harness-thread-exception', '%s: %r' % (t.name, t.exc), 'no exception outside the recorded calls'))
    faulty = any(a[0] in ('eof', 'reset', 'respond_partial') for a in conf['script']) or 'close' in conf['callers']
    for i, what in enumerate(conf['callers']):
        r = res.get(i)
        if r is None:
            out.append(('no-result', 'caller%d finished without a result' % i, 'a value or an exception'))
            continue
        if what == 'close':
            continue
        body = 'req%d' % i
        if r[0] == 'ok':
            if body not in h.sent:
                out.append(('answer-from-nowhere', 'caller%d returned %r but the server never answered %s' % (i, r[1], body),
                            'an exception'))
            elif r[1] != h.sent[body]:
                out.append(('wrong-answer', 'caller%d (request %s) returned %r' % (i, body, r[1]), 'resp-' + body))
        else:
            if not faulty:
                out.append(('spurious-error', 'caller%d raised %s although its request was answered and the connection stayed up'
                            % (i, r[1]), 'resp-' + body))
    # A future left in the pending table after the listener has exited (registered by a caller that then failed in its
    # send) is a leak, not a violation of the property: the caller did get its error.  Counted, not judged.
    h.leaked = bool(h.listener_done and h.pending_left)
    return outcome, out


# ---------------------------------------------------------------------------------------------
# scripts

def scripts(quick):
    confs = []

    def add(name, callers, script):
        confs.append({'name': name, 'callers': callers, 'script': script})

    for n in ((1, 2) if quick else (1, 2, 3)):
        bodies = ['req%d' % i for i in range(n)]
        for order in itertools.permutations(bodies):
            oname = '>'.join(order)
            add('%d callers, answers %s, whole frames' % (n, oname), ['call'] * n, [('respond', b, 'whole') for b in order])
            for pos in range(n):
                for cut in CUTS[1:]:
                    if n == 3 and cut in ('in_len', 'split3') and pos > 0:
                        continue
                    sc = [('respond', b, cut if j == pos else 'whole') for j, b in enumerate(order)]
                    add('%d callers, answers %s, #%d %s' % (n, oname, pos + 1, cut), ['call'] * n, sc)
            for fault in ('eof', 'reset'):
                # fault before anything is answered / after k complete answers / in the middle of the k-th answer
                for k in range(n + 1):
                    if n == 3 and k not in (0, 1):
                        continue
                    sc = [('respond', b, 'whole') for b in order[:k]] + [(fault,)]
                    add('%d callers, answers %s, %s after %d answers' % (n, oname, fault, k), ['call'] * n, sc)
                    if k < n:
                        for cut in (('in_id', 'in_len', 'in_body') if n < 3 else ('in_body',)):
                            sc = [('respond', b, 'whole') for b in order[:k]] + [('respond_partial', order[k], cut), (fault,)]
                            add('%d callers, answers %s, %s inside answer %d (%s)' % (n, oname, fault, k + 1, cut),
                                ['call'] * n, sc)
    # drain() really suspends (environment deviation): the response may arrive before the sending task continues
    for n in (1, 2):
        bodies = ['req%d' % i for i in range(n)]
        for order in itertools.permutations(bodies):
            confs.append({'name': '%d callers, answers %s, whole frames, drain suspends' % (n, '>'.join(order)),
                          'callers': ['call'] * n, 'script': [('respond', b, 'whole') for b in order], 'slow_drain': True})
        confs.append({'name': '%d callers, eof after 0 answers, drain suspends' % n, 'callers': ['call'] * n,
                      'script': [('eof',)], 'slow_drain': True})
    # close racing with calls
    add('close acknowledged', ['close'], [('ack_close', 'close')])
    add('close answered by EOF', ['close'], [('eof',)])
    add('call || close, both served', ['call', 'close'], [('respond', 'req0', 'whole'), ('ack_close', 'close')])
    add('call || close, close served first', ['call', 'close'], [('ack_close', 'close'), ('respond', 'req0', 'whole')])
    add('call || close, only close served', ['call', 'close'], [('ack_close', 'close')])
    return confs


def run_conf(conf, prefix, line_level=False):
    return Harness(conf, prefix, line_level).run()


def explore_unit(unit):
    logging.disable(logging.CRITICAL)
    conf, roots, bound, line_level = unit
    out = {'executions': 0, 'transitions': 0, 'outcomes': {}, 'violations': [], 'by_preemptions': {}, 'max_points': 0}
    seen = set()
    try:
        for h in explore(lambda p: run_conf(conf, p, line_level), bound, roots=roots):
            s = h.sched
            out['executions'] += 1
            out['transitions'] += len(s.trace)
            out['max_points'] = max(out['max_points'], len(s.trace))
            p = str(s.preemptions())
            out['by_preemptions'][p] = out['by_preemptions'].get(p, 0) + 1
            outcome, bad = judge(h)
            out['outcomes'].setdefault(conf['name'], set()).add(hash(outcome))
            out['leaked_pending_entries'] = out.get('leaked_pending_entries', 0) + int(h.leaked)
            for cls, observed, expected in bad:
                key = '%s%s | %s' % (conf['name'], ' [line-level]' if line_level else '', cls)
                if (key, observed) in seen:
                    continue
                seen.add((key, observed))
                h2 = run_conf(conf, s.trace, line_level)
                o2, bad2 = judge(h2)
                if o2 != outcome or [b[:2] for b in bad2] != [b[:2] for b in bad]:
                    raise runner.HarnessError('schedule %s of %s is not reproducible' % (s.trace, conf['name']))
                out['violations'].append(dict(
                    key=key, observed=observed, expected=expected, group=cls,
                    case={'config': conf['name'], 'line_level': line_level, 'schedule': s.trace,
                          'preemptions': s.preemptions(), 'callers': conf['callers'], 'script': [list(a) for a in conf['script']],
                          'slow_drain': bool(conf.get('slow_drain')),
                          'steps': ['%s: %s' % (s.threads[tid].name, lab) for tid, lab in s.labels][-80:],
                          'results': {str(k): list(v) for k, v in h.results.items()}}))
    finally:
        restore()
    return out


def run(cfg):
    logging.disable(logging.CRITICAL)
    rep = runner.Report('C14', 'model_checking')
    confs = scripts(cfg.quick)
    units = []

    def is3(c):
        return len(c['callers']) == 3

    def plain_order(c):         # responses in request order or in reverse order
        return 'answers req0>req1>req2' in c['name'] or 'answers req2>req1>req0' in c['name']

    # Plan (measured on 16 idle cores: one 3-caller script at 1 preemption = 1.1 M executions / 170 s, a 2-caller script
    # at 2 preemptions = 160 k executions / 27 s; the complete product "every script at 2 preemptions" is days):
    #   every 1- and 2-caller script                                   1 preemption   (both tiers)
    #   thorough: every 1-caller script                                2 preemptions
    #             2-caller: the 16 scripts of `two2` (whole frames, faults after 0/1 answers, a fault inside an answer, a
    #                       split frame, drain suspends, call || close)                                          2
    #             3-caller: whole frames / eof / reset after 0 and 1 answers, answers in request or reverse order     0
    #             3-caller: eof / reset after 0 answers, eof after 1 answer, request order         1 preemption
    #   line-level (source lines of call/_listen/_run/_cleanup_pending_responses are scheduling points), 1 preemption:
    #             quick 1, thorough 12 two-caller fault scripts + the 3-caller "eof after 0 answers" script
    two2 = ('2 callers, answers req0>req1, whole frames', '2 callers, answers req1>req0, whole frames',
            '2 callers, answers req0>req1, eof after 0 answers', '2 callers, answers req0>req1, reset after 0 answers',
            '2 callers, answers req0>req1, eof after 1 answers', '2 callers, answers req1>req0, eof after 0 answers',
            '2 callers, answers req1>req0, eof after 1 answers', '2 callers, answers req0>req1, reset after 1 answers',
            '2 callers, answers req0>req1, eof inside answer 1 (in_body)', '2 callers, answers req0>req1, eof inside answer 2 (in_body)',
            '2 callers, answers req0>req1, #1 split3', '2 callers, answers req0>req1, whole frames, drain suspends',
            '2 callers, eof after 0 answers, drain suspends',
            'call || close, both served', 'call || close, close served first', 'call || close, only close served')
    three1 = ('3 callers, answers req0>req1>req2, eof after 0 answers', '3 callers, answers req0>req1>req2, reset after 0 answers',
              '3 callers, answers req0>req1>req2, eof after 1 answers')
    try:
        for conf in confs:
            if is3(conf):
                if not (plain_order(conf) and ('whole frames' in conf['name'] or 'after 0 answers' in conf['name']
                                               or 'after 1 answers' in conf['name'])):
                    conf['bound'] = None        # enumerated by scripts(), not explored: listed in the evidence
                    continue
                b = 1 if conf['name'] in three1 else 0
            elif cfg.quick:
                b = 1
            else:
                b = 2 if (len(conf['callers']) == 1 or conf['name'] in two2) else 1
            conf['bound'] = b
            h = run_conf(conf, [])
            units.append((conf, 'root-only', b, False))
            for cost, a in _alternatives(h.sched, 0, b):
                units.append((conf, [a], b, False))
        # line-level mode on the configurations where a caller can register while the listener is failing the others
        ll = [c for c in confs if c['name'].startswith('2 callers') and ('eof after 0' in c['name'] or 'reset after 0' in c['name']
                                                                         or 'eof after 1' in c['name'])]
        ll = ll[:cfg.pick(1, 12)]
        if not cfg.quick:
            ll += [c for c in confs if c['name'] == '3 callers, answers req0>req1>req2, eof after 0 answers']
        for conf in ll:
            h = run_conf(conf, [], True)
            units.append((conf, 'root-only', 1, True))
            for cost, a in _alternatives(h.sched, 0, 1):
                units.append((conf, [a], 1, True))
    finally:
        restore()

    def worker(us):
        t = {}
        for conf, roots, b, ll_ in us:
            r = explore_unit((conf, [[]], -1, ll_)) if roots == 'root-only' else explore_unit((conf, roots, b, ll_))
            runner.merge_counts(t, r)
        return t

    total = {}
    for part in runner.pmap(worker, units, cfg, chunk=2, pin=True, deadline_s=4 * 3600):
        runner.merge_counts(total, part)
    rep.extend_violations(total.get('violations', []))
    # server side: every request sequence up to the bound on the real connection handler (c14_server)
    from . import c14_server
    srv = {}
    for part in runner.pmap(c14_server.work, c14_server.cases(cfg.quick), cfg):
        runner.merge_counts(srv, part)
    rep.extend_violations(srv.get('violations', []))
    outcomes = total.get('outcomes', {})
    rep.coverage = {
        'states': sum(len(v) for v in outcomes.values()),
        'transitions': total.get('transitions', 0),
        'traces_validated_against_impl': total.get('executions', 0),
        'samples': [{'config': c['name'], 'callers': c['callers'], 'script': [list(a) for a in c['script']]}
                    for c in (confs[0], confs[len(confs) // 3], confs[-1])],
        'exhaustive': True,
        'bound_completed': {'scripts at 2 preemptions': len([c for c in confs if c.get('bound') == 2]),
                            'scripts at 1 preemption': len([c for c in confs if c.get('bound') == 1]),
                            'scripts at 0 preemptions (3 callers)': len([c for c in confs if c.get('bound') == 0]),
                            'scripts enumerated but not explored (3 callers, other orders / cut frames)':
                                len([c for c in confs if c.get('bound', 0) is None])},
        'scripts': len(confs),
        'server_side': {'request_kinds': [r[0] for r in c14_server.REQUESTS], 'deliveries': c14_server.DELIVERIES,
                        'max_requests_per_connection': cfg.pick(2, 3), 'runs (every sequence x every delivery)': srv.get('server_runs', 0),
                        'requests_judged': srv.get('server_requests', 0),
                        'distinct_observations': len(srv.get('server_outcomes', ()))},
        'executions_by_preemptions': total.get('by_preemptions', {}),
        'distinct_outcomes': sum(len(v) for v in outcomes.values()),
        'scripts_with_a_single_outcome': len([1 for v in outcomes.values() if len(v) < 2]),
        'max_points_per_execution': total.get('max_points', 0),
        'executions_leaving_a_future_in_the_pending_table_after_listener_exit (not judged)': total.get('leaked_pending_entries', 0),
        'rule': 'scripts = response orders x cut class per response x fault kind/position (+ close races); for each script '
                'every schedule of loop / callers / server with at most the number of preemptions given in bound_completed '
                '(the plan is in run()); '
                'a subset additionally at source-line granularity inside call/_listen/_run/_cleanup_pending_responses; '
                'states = distinct (per-caller result, verdict) outcomes per script; server side: every sequence of '
                '<= max_requests_per_connection requests over the request kinds x every delivery pattern on the real '
                'handle_client/_listen/execute_server_command with two virtual loops, each request judged: answered with '
                'the twin interpreter\'s value, or connection ended (never silence on an open connection)',
    }
    rep.assumptions = [
        'the event loop runs one handle at a time; caller threads interleave with it only at scheduling points (handle '
        'boundaries, result(), Event.wait, server actions) and, in line-level mode, at source lines of the named functions; '
        'bytecode-level switches inside a line are not modelled',
        'EOF leaves the writer open (half-close), a reset closes it and makes drain() raise',
        'server side: the loops are driven alternately to quiescence (one schedule); thread interleavings of the io and '
        'klong loops of a real server are not explored there; a loop whose ready queue has drained sleeps until a transport '
        'event or the self-pipe write of call_soon_threadsafe wakes it (a plain call_soon from the other loop wakes nobody)',
    ]
    return rep


def replay(cfg, path):
    logging.disable(logging.CRITICAL)
    with open(path) as f:
        r = json.load(f)
    case = r['case']
    if case.get('kind') == 'server':
        from . import c14_server
        return c14_server.replay(case)
    conf = {'name': case['config'], 'callers': case['callers'], 'script': [tuple(a) for a in case['script']],
            'slow_drain': case.get('slow_drain', False)}
    try:
        obs = []
        for _ in range(2):
            h = run_conf(conf, case['schedule'], case.get('line_level', False))
            outcome, bad = judge(h)
            obs.append((outcome, [b[:2] for b in bad]))
        for tid, lab in h.sched.labels:
            print('  %-8s %s' % (h.sched.threads[tid].name, lab))
        print('results:', h.results)
        for b in bad:
            print('VIOLATED', b)
        print('reproducible:', obs[0] == obs[1])
    finally:
        restore()
    return 0

"""C18 - the file cache is linearizable under concurrent get, update and unload.

E2: the real FileCache with its lock, executor, module-level open/os/time replaced (attribute assignment) by
scheduler-controlled versions; all schedules of small thread configurations up to a preemption bound.
Scheduling points: lock acquire, task submission, task start, future.result/done, every memfs call, and every access to
file_futures / file_access_times / current_memory_usage made without holding the lock.
"""
import itertools
import json
import logging

from .. import runner
from ..memfs import MemFS
from ..sched import Sched, SLock, SExecutor, explore, split_root, Abort

import klongpy.db.file_cache as fc

ABSENT = '<absent>'


class Clock:
    def __init__(self):
        self.t = 1000

    def time_ns(self):
        self.t += 1
        return self.t

    def time(self):
        self.t += 1
        return float(self.t)


_MON_FIELDS = ('current_memory_usage', 'file_futures', 'file_access_times')


def _make_monitored(base):
    ns = {}
    for f in _MON_FIELDS:
        def getter(self, f=f):
            self._touch(f, 'r')
            return self.__dict__['_m_' + f]

        def setter(self, v, f=f):
            self._touch(f, 'w')
            self.__dict__['_m_' + f] = v
        ns[f] = property(getter, setter)

    def _touch(self, field, rw):
        h = self.__dict__.get('_harness')
        if h is None:
            return
        lock = self.__dict__.get('file_futures_lock')
        if isinstance(lock, SLock) and not lock.held_by_me() and h.sched.me() is not None:
            h.unsync.add((field, rw))
            h.sched.point('unsync %s %s' % (rw, field))
    ns['_touch'] = _touch
    return type('Monitored' + base.__name__, (base,), ns)


class Harness:
    """One execution: fresh memfs, scheduler and cache; client threads run the configured operations."""

    def __init__(self, conf, prefix, cache_cls=None):
        self.conf = conf
        self.unsync = set()
        self.events = []            # (thread, opindex, 'call'|'ret', payload)
        self.sched = Sched(prefix, horizon=3000, state_fn=self._state)
        self.fs = MemFS(hook=self.sched.point)
        self.fs.mkdirs('/r')
        for name, data in conf['files'].items():
            self.fs.put('/r/' + name, data)
        fc.open = self.fs.open
        fc.os = self.fs.os
        fc.time = Clock()
        cls = _make_monitored(cache_cls or fc.FileCache)
        cache = cls(max_memory=conf['max_memory'], root_path='/r')
        cache.executor.shutdown(wait=False)
        cache.executor = SExecutor(self.sched)
        cache.file_futures_lock = SLock(self.sched, 'L')
        cache.__dict__['_harness'] = self
        self.cache = cache

    def _state(self):
        c = self.cache.__dict__
        ff = c.get('_m_file_futures', {})
        return (tuple(sorted((k, v[0], v[1], v[2]._done) for k, v in ff.items())),
                c.get('_m_current_memory_usage'), tuple(sorted(self.fs.snapshot().items())))

    def _client(self, ti, ops):
        def body():
            for oi, op in enumerate(ops):
                self.sched.point('call %s' % (op,))
                self.events.append((ti, oi, 'call', op))
                try:
                    if op[0] == 'get':
                        r = ('ok', bytes(self.cache.get_file(op[1])))
                    elif op[0] == 'update':
                        r = ('ok', bool(self.cache.update_file(op[1], op[2])))
                    elif op[0] == 'unload':
                        self.cache.unload_file(op[1])
                        r = ('ok', None)
                    else:
                        raise ValueError(op)
                except Abort:
                    raise
                except BaseException as e:      # noqa: BLE001
                    r = ('exc', type(e).__name__)
                self.events.append((ti, oi, 'ret', r))
        return body

    def run(self):
        for ti, ops in enumerate(self.conf['threads']):
            self.sched.spawn(self._client(ti, ops), 'client%d' % ti)
        try:
            self.sched.run()
        finally:
            fc.open = open
            import os as _os
            import time as _time
            fc.os = _os
            fc.time = _time
        return self


def restore():
    import os as _os
    import time as _time
    if 'open' in fc.__dict__:
        del fc.__dict__['open']
    fc.os = _os
    fc.time = _time


# ---------------------------------------------------------------------------------------------
# oracle

def history_ops(events):
    """events -> list of dict(thread, idx, op, call, ret, result) with logical times = event positions."""
    ops = {}
    for pos, (ti, oi, kind, payload) in enumerate(events):
        if kind == 'call':
            ops[(ti, oi)] = {'thread': ti, 'idx': oi, 'op': payload, 'call': pos, 'ret': None, 'result': None}
        else:
            ops[(ti, oi)]['ret'] = pos
            ops[(ti, oi)]['result'] = payload
    return [ops[k] for k in sorted(ops)]


def linearizations(ops, init):
    """All final register values over the linearizations of `ops` (one file) that respect real-time order and the
    register semantics; empty set = not linearizable."""
    n = len(ops)
    finals = set()
    order = []

    def ok_next(i, used):
        # i may come next iff no unused op j returned before i was called
        for j in range(n):
            if j != i and not used[j] and ops[j]['ret'] is not None and ops[j]['ret'] < ops[i]['call']:
                return False
        return True

    def step(reg, op):
        kind = op['op'][0]
        res = op['result']
        if kind == 'update':
            if res == ('ok', True):
                return True, bytes(op['op'][2])
            if res == ('ok', False):
                return True, reg
            if res == ('exc', 'MemoryError'):
                return True, reg
            return False, reg
        if kind == 'get':
            if res[0] == 'ok':
                return (reg != ABSENT and res[1] == reg), reg
            if res == ('exc', 'FileNotFoundError'):
                return reg == ABSENT, reg
            if res == ('exc', 'MemoryError'):
                return True, reg
            return False, reg
        if kind == 'unload':
            return res == ('ok', None), reg
        return False, reg

    def rec(used, reg, k):
        if k == n:
            finals.add(reg)
            return
        for i in range(n):
            if used[i] or not ok_next(i, used):
                continue
            good, nreg = step(reg, ops[i])
            if not good:
                continue
            used[i] = True
            rec(used, nreg, k + 1)
            used[i] = False

    rec([False] * n, init, 0)
    return finals


def judge(h):
    """-> (outcome summary (hashable), list of (class, observed, expected))."""
    s = h.sched
    conf = h.conf
    out = []
    ops = history_ops(h.events)
    results = tuple((o['thread'], o['idx'], o['op'][0], o['result']) for o in ops)
    if s.verdict in ('deadlock', 'livelock'):
        out.append((s.verdict, '%s: %s' % (s.verdict, s.verdict_detail), 'every call returns'))
        return ('verdict', s.verdict, results), out
    for t in s.threads:
        if t.exc is not None and t.exc != 'aborted':
            out.append(('harness-thread-exception', repr(t.exc), 'no exception outside recorded operations'))
    for o in ops:
        if o['ret'] is None:
            out.append(('no-return', 'operation %s never returned' % (o['op'],), 'every call returns'))
            return ('noreturn', results), out
        r = o['result']
        if r[0] == 'exc' and r[1] not in ('FileNotFoundError', 'MemoryError'):
            out.append(('exception', '%s raised %s' % (_opname(o['op']), r[1]),
                        'only FileNotFoundError / MemoryError may escape a call'))
    files = sorted({o['op'][1] for o in ops} | set(conf['files']))
    c = h.cache.__dict__
    ff = c['_m_file_futures']
    usage = c['_m_current_memory_usage']
    heap = c['_m_file_access_times']
    disk = h.fs.snapshot()
    final = []
    for f in files:
        fops = [o for o in ops if o['op'][1] == f]
        init = bytes(conf['files'][f]) if f in conf['files'] else ABSENT
        finals = linearizations(fops, init)
        d = disk.get('/r/' + f, ABSENT)
        if not finals:
            out.append(('not-linearizable', ' ; '.join('%s->%s' % (_opname(o['op']), _res(o['result'])) for o in fops),
                        'a sequential order of the calls consistent with real time and the register model'))
        elif d not in finals:
            out.append(('disk!=last-update', 'disk=%r possible=%s' % (d, sorted(map(repr, finals))),
                        'file on disk = value of the last successful update'))
        info = ff.get(f)
        if info is not None:
            if info[0]:
                out.append(('entry-left-writing', '%s entry still marked writing at quiescence' % f, 'no writing entry'))
            fut = info[2]
            if fut._done and fut._exc is None and d != ABSENT and bytes(fut._result) != d:
                out.append(('cache!=disk', 'cached=%r disk=%r' % (bytes(fut._result), d), 'cached contents = file on disk'))
        final.append((f, d, None if info is None else (info[0], info[1])))
    total = sum(v[1] for v in ff.values() if not v[0])
    if usage != total:
        out.append(('usage!=sum', 'usage=%d sum(entries)=%d' % (usage, total), 'memory accounting = sum of cached entries'))
    if usage < 0 or usage > conf['max_memory']:
        out.append(('usage-out-of-range', 'usage=%d max=%d' % (usage, conf['max_memory']), '0 <= usage <= max_memory'))
    hn = sorted(fn for _, fn in heap)
    if hn != sorted(ff.keys()):
        out.append(('heap!=entries', 'heap=%s entries=%s' % (hn, sorted(ff.keys())), 'one LRU entry per cached file'))
    outcome = (results, tuple(final), usage)
    return outcome, out


def _opname(op):
    return op[0] + '(' + ','.join(repr(x) if isinstance(x, bytes) else str(x) for x in op[1:]) + ')'


def _res(r):
    return repr(r[1]) if r[0] == 'ok' else 'raise ' + r[1]


# ---------------------------------------------------------------------------------------------
# configurations

A0, B0 = b'aa', b'bbb'


def _conf(name, threads, files=None, max_memory=1000):
    return {'name': name, 'threads': threads, 'files': files if files is not None else {'A': A0}, 'max_memory': max_memory}


def configurations(quick):
    g, u, x = (lambda f: ('get', f)), (lambda f, d: ('update', f, d)), (lambda f: ('unload', f))
    cs = [
        _conf('get||update', [[g('A')], [u('A', b'xxxx')]]),
        _conf('update||update', [[u('A', b'xxxx')], [u('A', b'y')]]),
        _conf('update(A)||update(B) limit fits one', [[u('A', b'xxxx')], [u('B', b'yyy')]],
              files={'A': A0, 'B': B0}, max_memory=4),
        _conf('get||get uncached', [[g('A')], [g('A')]]),
        _conf('get(A)||get(B) limit fits one', [[g('A')], [g('B')]], files={'A': A0, 'B': B0}, max_memory=4),
        _conf('get||unload', [[g('A')], [x('A')]]),
        _conf('update||unload', [[u('A', b'xxxx')], [x('A')]]),
        _conf('get;get||update', [[g('A'), g('A')], [u('A', b'xxxx')]]),
        _conf('update;get||update', [[u('A', b'xxxx'), g('A')], [u('A', b'y')]]),
        _conf('get||update||update', [[g('A')], [u('A', b'xxxx')], [u('A', b'y')]]),
        _conf('get||update||unload', [[g('A')], [u('A', b'xxxx')], [x('A')]]),
        _conf('get(A);get(B)||update(A) limit fits one', [[g('A'), g('B')], [u('A', b'xxx')]],
              files={'A': A0, 'B': B0}, max_memory=3),
    ]
    if quick:
        return cs
    # thorough: every 2-thread configuration with <= 2 operations each over one or two files (tight and loose limit),
    # and every 3-thread configuration with one operation each on one file
    seen = {json.dumps(c['threads'], default=repr) + str(c['max_memory']) for c in cs}
    alpha1 = [g('A'), u('A', b'xxxx'), x('A')]
    alpha2 = alpha1 + [g('B'), u('B', b'yyy')]

    def add(name, threads, files, mm):
        k = json.dumps(threads, default=repr) + str(mm)
        if k not in seen:
            seen.add(k)
            cs.append(_conf(name, threads, files, mm))

    def nm(threads):
        return '||'.join(';'.join(_opname(o) for o in t) for t in threads)

    seqs1 = [[a] for a in alpha1] + [[a, b] for a in alpha1 for b in alpha1]
    for t1, t2 in itertools.combinations_with_replacement(seqs1, 2):
        if len(t1) + len(t2) > 3:
            continue
        t2 = [(o[0], o[1], b'y') if o[0] == 'update' else o for o in t2]
        add(nm([t1, t2]), [t1, t2], {'A': A0}, 1000)
    seqs2 = [[a] for a in alpha2] + [[a, b] for a in alpha2 for b in alpha2 if a[1] != b[1]]
    for t1, t2 in itertools.combinations_with_replacement(seqs2, 2):
        if len(t1) + len(t2) > 3 or len({o[1] for o in t1 + t2}) < 2:
            continue
        add(nm([t1, t2]) + ' limit 4', [t1, t2], {'A': A0, 'B': B0}, 4)
    for t1, t2, t3 in itertools.combinations_with_replacement([[a] for a in alpha1], 3):
        t2 = [(o[0], o[1], b'y') if o[0] == 'update' else o for o in t2]
        t3 = [(o[0], o[1], b'zzz') if o[0] == 'update' else o for o in t3]
        add(nm([t1, t2, t3]), [t1, t2, t3], {'A': A0}, 1000)
    add('get||update on a file that does not exist yet', [[g('N')], [u('N', b'nn')]], {'A': A0}, 1000)
    return cs


# ---------------------------------------------------------------------------------------------

def run_conf(conf, prefix):
    return Harness(conf, prefix).run()


def explore_unit(unit):
    """unit = (conf, roots or None (= whole tree), bound). Returns counts + violations."""
    logging.disable(logging.CRITICAL)
    conf, roots, bound = unit
    out = {'executions': 0, 'transitions': 0, 'fingerprints': set(), 'outcomes': {}, 'violations': [],
           'by_preemptions': {}, 'unsync': set(), 'max_points': 0}
    seen_v = set()
    try:
        for h in _explore(conf, roots, bound):
            s = h.sched
            out['executions'] += 1
            out['transitions'] += len(s.trace)
            out['max_points'] = max(out['max_points'], len(s.trace))
            out['fingerprints'] |= s.fingerprints
            out['unsync'] |= {'%s %s' % u for u in h.unsync}
            p = str(s.preemptions())
            out['by_preemptions'][p] = out['by_preemptions'].get(p, 0) + 1
            outcome, bad = judge(h)
            ok = out['outcomes'].setdefault(conf['name'], set())
            ok.add(hash(outcome))
            for cls, observed, expected in bad:
                key = '%s | %s' % (conf['name'], cls)
                if (key, observed) in seen_v:
                    continue
                seen_v.add((key, observed))
                # replay the same schedule: the observation must be identical, otherwise the harness is broken
                h2 = run_conf(conf, s.trace)
                o2, bad2 = judge(h2)
                if o2 != outcome or [b[:2] for b in bad2] != [b[:2] for b in bad]:
                    raise runner.HarnessError('schedule %s of %s is not reproducible' % (s.trace, conf['name']))
                out['violations'].append(dict(
                    key=key, observed=observed, expected=expected, group=cls,
                    case={'config': conf['name'], 'threads': [[_opname(o) for o in t] for t in conf['threads']],
                          'files': {k: repr(v) for k, v in conf['files'].items()}, 'max_memory': conf['max_memory'],
                          'schedule': s.trace, 'preemptions': s.preemptions(),
                          'steps': ['%s: %s' % (s.threads[tid].name, lab) for tid, lab in s.labels],
                          'results': ['%s -> %s' % (_opname(o['op']), _res(o['result']) if o['result'] else 'no return')
                                      for o in history_ops(h.events)]},
                    snippet=None))
    finally:
        restore()
    return out


def _explore(conf, roots, bound):
    return explore(lambda p: run_conf(conf, p), bound, roots=roots)


def work(units):
    total = {}
    for u in units:
        runner.merge_counts(total, explore_unit(u))
    return total


def run(cfg):
    logging.disable(logging.CRITICAL)
    rep = runner.Report('C18', 'model_checking')
    bound = cfg.pick(1, 2)
    confs = configurations(cfg.quick)
    units = []
    total = {}
    try:
        for conf in confs:
            h = run_conf(conf, [])
            s = h.sched
            from ..sched import _alternatives
            alts = [a for cost, a in _alternatives(s, 0, bound)]
            units.append((conf, 'root-only', bound))
            for a in alts:
                units.append((conf, [a], bound))
    finally:
        restore()

    from . import c18_dfcache
    df_units = c18_dfcache.units(cfg)

    def worker(us):
        t = {}
        for u in us:
            if u[0] == 'df':
                r = c18_dfcache.explore_unit(u[1])
                r = dict(r, df_executions=r['executions'])
            else:
                conf, roots, b = u
                if roots == 'root-only':
                    r = explore_unit((conf, [[]], -1))        # bound -1: run the default schedule, generate nothing
                else:
                    r = explore_unit((conf, roots, b))
            runner.merge_counts(t, r)
        return t

    for part in runner.pmap(worker, units + [('df', u) for u in df_units], cfg, chunk=1, pin=True):
        runner.merge_counts(total, part)
    rep.extend_violations(total.get('violations', []))
    outcomes = total.get('outcomes', {})
    n_out = sum(len(v) for v in outcomes.values())
    single = sorted(k for k, v in outcomes.items() if len(v) < 2)
    rep.coverage = {
        'states': len(total.get('fingerprints', ())),
        'transitions': total.get('transitions', 0),
        'traces_validated_against_impl': total.get('executions', 0),
        'samples': [{'config': c['name'], 'threads': [[_opname(o) for o in t] for t in c['threads']],
                     'max_memory': c['max_memory']} for c in confs[:6]],
        'exhaustive': True,
        'bound_completed': bound,
        'executions': total.get('executions', 0),
        'executions_by_preemptions': total.get('by_preemptions', {}),
        'configurations': len(confs),
        'dataframe_cache_configurations': len(c18_dfcache.configurations(cfg.quick)),
        'dataframe_cache_executions': total.get('df_executions', 0),
        'distinct_outcomes': n_out,
        'configurations_with_a_single_outcome': single,
        'max_points_per_execution': total.get('max_points', 0),
        'unsynchronised_accesses_turned_into_scheduling_points': sorted(total.get('unsync', ())),
        'rule': 'stateless exploration (real threads under a baton scheduler) of all schedules with at most '
                'bound_completed preemptions, for each configuration; states = distinct fingerprints of (cache entry '
                'table, byte total, disk contents, per-thread progress) seen at scheduling points; every execution '
                'is an execution of the real FileCache',
    }
    rep.assumptions = [
        'thread switches happen only at scheduling points: lock acquire, submit, task start, future.result/done, every '
        'file-system call, and accesses to the three shared fields made without the lock (turned into points, listed)',
        'memfs: open(wb) truncates at open, data of a small write reaches the file at close (real io.BufferedWriter), '
        'read returns the bytes present at that instant',
        'a task submitted to the executor may start at any later point (one logical thread per task)',
    ]
    return rep


def replay(cfg, path):
    logging.disable(logging.CRITICAL)
    with open(path) as f:
        r = json.load(f)
    case = r['case']
    if case.get('family') == 'df':
        from . import c18_dfcache
        return c18_dfcache.replay(case)
    conf = next(c for c in configurations(False) if c['name'] == case['config'])
    try:
        obs = []
        for _ in range(2):
            h = run_conf(conf, case['schedule'])
            outcome, bad = judge(h)
            obs.append((outcome, [b[:2] for b in bad]))
        for tid, lab in h.sched.labels:
            print('  %-10s %s' % (h.sched.threads[tid].name, lab))
        for o in history_ops(h.events):
            print('  result:', _opname(o['op']), '->', _res(o['result']) if o['result'] else 'no return')
        for b in bad:
            print('  VIOLATED:', b)
        print('reproducible:', obs[0] == obs[1])
    finally:
        restore()
    return 0

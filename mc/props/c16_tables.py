"""C16, table-store part: TableStorage / PandasDataFrameCache over memfs, BFS over set/get/reopen/unload histories.

Model: per key a dict index -> row; a set merges the new table into the stored one, existing rows winning on equal
index, result ordered by index (the documented merge).
"""
import logging

from klongpy import KlongInterpreter

from .. import bfs, runner
from ..memfs import MemFS
from ..values import cn, show, U

import klongpy.db.file_cache as fc
from klongpy.db.sys_fn_kvs import TableStorage
from klongpy.db.sys_fn_db import Table

ROOT = '/tstore'
KEYS = ['t', 'u/v']

# tables of the alphabet, built through the Klong-level API: name -> (creation program, model rows {index: row})
TABLES = [
    ('T0', 'T0::.table([["a" [1]] ["b" [10]]]);.index(T0;["a"])', {1: (1, 10)}),
    ('T1', 'T1::.table([["a" [1 2]] ["b" [11 20]]]);.index(T1;["a"])', {1: (1, 11), 2: (2, 20)}),
    ('T2', 'T2::.table([["a" [3]] ["b" [30]]]);.index(T2;["a"])', {3: (3, 30)}),
    ('T3', 'T3::.table([["a" [7 8]] ["b" [70 80]]])', {0: (7, 70), 1: (8, 80)}),
    ('T4', 'T4::.table([["a" [9 9 9]] ["b" [1 2 3]]])', {0: (9, 1), 1: (9, 2), 2: (9, 3)}),
    # six rows on the same six indexes: with >= 4 equal indexes an unstable sort no longer keeps "stored before new"
    ('T5', 'T5::.table([["a" [1 2 3 4 5 6]] ["b" [101 102 103 104 105 106]]]);.index(T5;["a"])',
     {i: (i, 100 + i) for i in range(1, 7)}),
    ('T6', 'T6::.table([["a" [1 2 3 4 5 6]] ["b" [201 202 203 204 205 206]]]);.index(T6;["a"])',
     {i: (i, 200 + i) for i in range(1, 7)}),
    # a table without rows is still a value: a key set to it reads as an empty table, not as :undefined
    ('T7', 'T7::.table([["a" []] ["b" []]])', {}),
]


# tables with a string column, built from a DataFrame: their in-memory size (deep, ~2.5 kB / 2.8 kB) is about twice the
# size of their file (~1.3 kB): under SMALL_LIMIT the file fits the cache limit, the loaded frame does not
STR_TABLES = [
    ('S0', {'a': list(range(40)), 's': ['ab'] * 40}, {i: (i, 'ab') for i in range(40)}),
    ('S1', {'a': list(range(45)), 's': ['cd'] * 45}, {i: (i, 'cd') for i in range(45)}),
]
SMALL_LIMIT = 2000
# under the small limit: key "t" holds string tables, key "u/v" small numeric ones (one schema per key)
SMALL_SETS = [('t', 'S0'), ('t', 'S1'), ('u/v', 'T0'), ('u/v', 'T1')]
ALL_TABLES = {n: rows for n, _, rows in TABLES}
ALL_TABLES.update({n: rows for n, _, rows in STR_TABLES})
LIMIT = [None]                 # cache limit of the stores of the current search (None = default)


class Env:
    def __init__(self):
        import pandas as pd
        self.limit = LIMIT[0]
        self.fs = MemFS()
        self.fs.mkdirs(ROOT)
        fc.open = self.fs.open
        fc.os = self.fs.os
        self.kl = KlongInterpreter()
        self.kl('.py("klongpy.db")')
        for name, prog, rows in TABLES:
            self.kl(prog)
        for name, cols, rows in STR_TABLES:
            self.kl['df' + name] = pd.DataFrame(cols)
            self.kl('%s::.table(df%s)' % (name, name))
        self.stores = []
        self.open_store()

    def open_store(self):
        if self.stores:
            self.stores[-1].cache.executor.shutdown(wait=True)
        st = TableStorage(ROOT) if self.limit is None else TableStorage(ROOT, max_memory=self.limit)
        self.stores.append(st)
        self.kl['ts'] = st
        self.st = st

    def close(self):
        for st in self.stores:
            st.cache.executor.shutdown(wait=True)
        import os as _os
        if 'open' in fc.__dict__:
            del fc.__dict__['open']
        fc.os = _os


def optext(op):
    if op[0] == 'set':
        return 'ts,[;"%s";%s]' % (op[1], op[2] if isinstance(op[2], str) else TABLES[op[2]][0])
    if op[0] == 'get':
        return 'ts?"%s"' % op[1]
    if op[0] == 'unload':
        return 'py: ts.cache.unload_file("%s")' % op[1]
    if op[0] == 'getmod':
        return 'r::ts?"%s";r,"z",,(one value per row)  :"the table read back is changed in place, nothing is set"' % op[1]
    return 'py: ts = TableStorage(root)'


def observe(v):
    """Table -> tuple of (index, row) in frame order; :undefined -> U."""
    if isinstance(v, Table):
        df = v.get_dataframe()
        out = []
        for idx, row in zip(df.index.tolist(), df.values.tolist()):
            if isinstance(idx, tuple) and len(idx) == 1:
                idx = idx[0]
            out.append((int(idx), tuple(x if isinstance(x, str) else int(x) for x in row)))
        return ('table', tuple(out))
    return cn(v)


def do(env, op):
    try:
        if op[0] == 'set':
            r = env.kl(optext(op))
            return ('ok', ('store',) if r is env.st else observe(r))
        if op[0] == 'get':
            return ('ok', observe(env.kl(optext(op))))
        if op[0] == 'unload':
            env.st.cache.unload_file(op[1])
            return ('ok', ('none',))
        if op[0] == 'getmod':
            # a program's own copy of a stored table is its own: changing it is not a set
            r = env.kl('r::ts?"%s"' % op[1])
            if isinstance(r, Table):
                env.kl['n'] = [5] * len(r.get_dataframe())
                env.kl('r,"z",,n')
            return ('ok', ('none',))
        env.open_store()
        return ('ok', ('none',))
    except Exception as e:      # noqa: BLE001
        return ('exc', type(e).__name__)


def apply_model(model, op):
    if op[0] == 'set':
        cur = dict(model.get(op[1], ()))
        for idx, row in (ALL_TABLES[op[2]] if isinstance(op[2], str) else TABLES[op[2]][2]).items():
            cur.setdefault(idx, row)
        model[op[1]] = tuple(sorted(cur.items()))


def expected(model, op):
    if op[0] == 'set':
        return ('ok', ('store',))
    if op[0] == 'get':
        if op[1] not in model:
            return ('ok', U)
        return ('ok', ('table', model[op[1]]))
    return ('ok', ('none',))


def invariants(env):
    out = []
    c = env.st.cache
    ff = c.file_futures
    usage = c.current_memory_usage
    total = sum(i[1] for i in ff.values() if not i[0])
    if any(i[0] for i in ff.values()):
        out.append(('entry-left-writing', 'writing entry between operations', 'none'))
    if usage != total:
        out.append(('usage!=sum', 'usage=%d sum(entries)=%d' % (usage, total), 'accounting = sum of held entries'))
    if usage < 0 or usage > c.max_memory:
        out.append(('usage-out-of-range', 'usage=%d' % usage, '0 <= usage <= limit'))
    hn = sorted(fn for _, fn in c.file_access_times)
    if hn != sorted(ff.keys()):
        out.append(('heap!=entries', 'heap=%s entries=%s' % (hn, sorted(ff.keys())), 'one LRU entry per cached file'))
    return out


def build(hist):
    env = Env()
    model = {}
    for op in hist:
        do(env, op)
        apply_model(model, op)
    return env, model


def all_ops():
    if LIMIT[0] is not None:
        ops = [('set', k, n) for k, n in SMALL_SETS]
        for k in KEYS:
            ops += [('get', k), ('unload', k)]
        return ops + [('getmod', 't'), ('get', 'zz'), ('reopen',)]
    ops = []
    for k in KEYS:
        for ti in range(len(TABLES)):
            ops.append(('set', k, ti))
        ops.append(('get', k))
        ops.append(('unload', k))
    ops.append(('getmod', 't'))
    ops.append(('get', 'zz'))
    ops.append(('reopen',))
    return ops


def expand(hist):
    logging.disable(logging.CRITICAL)
    out = {'succ': [], 'transitions': 0, 'violations': [], 'outcomes': set()}
    for op in all_ops():
        env, model = build(hist)
        try:
            got = do(env, op)
            exp = expected(model, op)
            apply_model(model, op)
            bad = []
            if got != exp:
                bad.append(('result', _show(got), _show(exp)))
            if op[0] == 'set' and got[0] == 'ok':
                # what the store holds right after the set (the merge is judged where it happens, not one step later)
                back = do(env, ('get', op[1]))
                want = ('ok', ('table', model[op[1]]))
                if back != want:
                    bad.append(('stored-after-set', _show(back), _show(want)))
            if op[0] == 'getmod' and got[0] == 'ok':
                back = do(env, ('get', op[1]))
                want = expected(model, ('get', op[1]))
                if back != want:
                    bad.append(('stored-after-local-change', _show(back), _show(want)))
            bad.extend(invariants(env))
            out['transitions'] += 1
            c = env.st.cache
            key = (LIMIT[0], tuple(sorted(model.items())), tuple(sorted(c.file_futures.keys())),
                   tuple(fn for _, fn in sorted(c.file_access_times)))
            out['outcomes'].add(hash((key, got)) & 0xffffffff)
            hist_s = [optext(h) for h in hist] + [optext(op)]
            if LIMIT[0] is not None:
                hist_s[0] = '[cache limit %d bytes] ' % LIMIT[0] + hist_s[0]
            for cls, observed, exp_s in bad:
                out['violations'].append(dict(key='tables | %s @%s' % (' ; '.join(hist_s), cls), observed=observed,
                                              expected=exp_s, group='table-' + cls,
                                              case={'kind': 'table', 'history': [list(h) for h in hist] + [list(op)],
                                                    'text': hist_s, 'limit': LIMIT[0]}))
            out['succ'].append((op, None if bad else key))
        finally:
            env.close()
    return out


def _show(o):
    if o[0] == 'exc':
        return 'raise ' + o[1]
    v = o[1]
    if v == ('store',):
        return 'store'
    if v[0] == 'table':
        return 'table ' + ' '.join('%s:%s' % (i, list(r)) for i, r in v[1])
    if v[0] == 'none':
        return 'None'
    return show(v)


def run_tables(cfg, rep):
    LIMIT[0] = None
    t = bfs.search(expand, cfg, cfg.pick(2, 3), max_states=200000)
    rep.extend_violations(t.get('violations', []))
    # a cache limit that the files of the string tables fit and their loaded frames do not

    LIMIT[0] = SMALL_LIMIT
    try:
        t2 = bfs.search(expand, cfg, cfg.pick(2, 3), max_states=200000)
    finally:
        LIMIT[0] = None
    rep.extend_violations(t2.get('violations', []))
    return {'states': t['states'] + t2['states'], 'transitions': t['transitions'] + t2['transitions'],
            'outcomes': len(t.get('outcomes', ())) + len(t2.get('outcomes', ())),
            'info': {'layers': t['layers'], 'max_depth': t['max_depth'], 'capped': t['capped'] or t2['capped'],
                     'small_limit_search': {'limit_bytes': SMALL_LIMIT, 'layers': t2['layers'], 'max_depth': t2['max_depth'],
                                            'sets': ['ts,[;"%s";%s]' % kn for kn in SMALL_SETS],
                                            'string_tables': {n: '%d rows, columns a (int), s (2-character strings)' % len(r)
                                                              for n, _, r in STR_TABLES}},
                     'tables': [p for _, p, _ in TABLES]},
            'sample': ['ts,"t",,T0', 'ts,"t",,T1', 'ts?"t"']}


def replay(case):
    logging.disable(logging.CRITICAL)
    LIMIT[0] = case.get('limit')
    env = Env()
    try:
        for op in case['history']:
            op = tuple(op)
            print(optext(op), '->', _show(do(env, op)))
        for b in invariants(env):
            print('VIOLATED', b)
    finally:
        env.close()
    return 0

"""C12 - parsing always terminates (work bounded by a fixed polynomial in the input length) and is repeatable.

Exhaustive exploration of the real parser (`KlongInterpreter.prog`), no model of it:

 (a) every concatenation of <= 2 (quick) / <= 3 (thorough) tokens of a 54-token alphabet that covers every lexeme
     class and every prefix a reader can stop in, parsed starting in the default module and in a module `m`;
 (b) every token-level single edit (delete a token, insert one of 12 structural tokens at every position, swap two
     adjacent tokens, truncate after every token) of every distinct non-blank line of the .kg corpus
     (quick: hand-written files; thorough: also the generated gen_*.kg files), plus, in thorough, every double edit of
     one representative line per token skeleton of the lines of <= 16 tokens;
 (c) a fixed generated set of long inputs (nesting depth 200 of every bracket kind, 10 000-token flat expressions,
     5 000-character strings and comments).

Per case (text, start module):
 * termination / polynomial work: the parse runs with every call made from Python code counted (sys.monitoring CALL
   events: the Python 3.12 equivalent of sys.setprofile's `call` + `c_call`) against the budget 200*(n+2)^2, n =
   number of characters, and under a wall-clock watchdog (pure-bytecode loops).  An exception (including
   RecursionError for deep nesting) is an error raised after bounded work and is fine.
 * repeatability: the text is parsed a second time with the interpreter put back into the same start module.  Both
   parses must end the same way (same error class, or same end index and structurally identical trees: node
   classes, operator names, arities, literals including numpy arrays), the first tree must still look the same after
   the second parse (no shared mutable nodes that a later parse rewrites), the parse-time module after both parses
   must agree and the interpreter's variables must be untouched.
 * evaluation: when the text names no system function/variable (no `.name`; file, I/O, process and network functions
   are never evaluated) and both parses succeeded, each tree is evaluated through the real `__call__` path (parse
   cache pre-seeded with that tree) in its own twin interpreter; both must give the same canonical result or raise
   the same error class.  Evaluations that exceed the evaluation budget are not compared (counted).
"""
import glob
import hashlib
import json
import multiprocessing
import os
import re
import signal
import sys
import time
from collections import deque

import numpy as np

import klongpy
from klongpy import KlongInterpreter
from klongpy.interpreter import set_context_var
from klongpy.parser import KGExprArray, copy_lambda
from klongpy.types import KGSym, KGChar, KGFn, KGCall, KGOp, KGAdverb, KGCond, KGLambda

from .. import runner
from ..runner import CaseTimeout
from ..values import cn, close, show

# ---------------------------------------------------------------------------------------------
# bounds

BUDGET_FACTOR = 200                 # parse budget = BUDGET_FACTOR * (n + 2) ** 2 counted calls
PARSE_TIMEOUT = 5.0                 # wall-clock watchdog per parse (seconds)
EVAL_BUDGET = 20000                 # counted calls per evaluation; beyond it the evaluation is not compared
EVAL_TIMEOUT = 2.0
MAX_TIMEOUTS = 24                   # after this many watchdog hits in one run the remaining cases are not started
MAX_VIOL_PER_CHUNK = 40
DOUBLE_MAX_TOKENS = 16
QUICK_MAX_TOKENS = 24

ALPHABET = [
    # literals and the prefixes their readers can stop in
    '1', '-1', '1.5', '1e', '1e+', 'a', 'x', '.f', '"s"', '"', '0cx', '0c', ':foo', ':', ':"', ':"c"',
    # brackets and separators
    '(', ')', '{', '}', '[', ']', '[;', ':[', ':|', ':{', ';',
    # operators (dyad only, monad+dyad, define, colon operator, argument-list opener, adverb prefix)
    '::', '+', '-', '#', ',', ':(', ':#', '@',
    # all adverbs
    "'", ':\\', ":'", ':/', '/', ':~', ':*', '\\', '\\~', '\\*', "@'",
    # white space, parse-time system calls
    ' ', '\n', '.comment("x")', '.module(:m)',
    # the parse-time calls in pieces (their argument is arbitrary text: empty marker, no marker, unclosed call)
    '.comment("")', '.comment(', '.module(', '""',
]

STRUCT = ['(', ')', '{', '}', '[', ']', ';', ':[', ':|', ':{', '"', '\n']      # tokens inserted by edits

_SYSNAME = re.compile(r'\.[A-Za-z]')       # a system function / variable name somewhere in the text


# ---------------------------------------------------------------------------------------------
# tokenizer of corpus lines (harness side; independent of the parser under test)

_TOK = re.compile(r'''
    (?P<ws>[ \t\r\f\v]+)
  | (?P<cmt>:"(?:[^"]|"")*"?)
  | (?P<str>"(?:[^"]|"")*"?)
  | (?P<chr>0c.)
  | (?P<num>[0-9]+(?:\.[0-9]+)?(?:e[+-]?[0-9]+)?)
  | (?P<sym>[A-Za-z.][A-Za-z0-9.]*)
  | (?P<op2>:[^\sA-Za-z0-9."] | \\[~*] | @')
  | (?P<one>.)
''', re.X | re.S)


def tokenize(line):
    """-> list of (token text, preceded-by-blank flag, class)."""
    out, sp = [], False
    for m in _TOK.finditer(line):
        if m.lastgroup == 'ws':
            sp = True
            continue
        out.append((m.group(), sp, m.lastgroup))
        sp = False
    return out


def join(toks):
    return ''.join((' ' + t[0]) if t[1] else t[0] for t in toks)


def skeleton(toks):
    sk = []
    for t, _sp, cls in toks:
        if cls == 'num':
            sk.append('N')
        elif cls == 'str':
            sk.append('S')
        elif cls == 'chr':
            sk.append('C')
        elif cls == 'cmt':
            sk.append('#')
        elif cls == 'sym':
            sk.append(t if t.startswith('.') else ('x' if t in ('x', 'y', 'z') else 'v'))
        else:
            sk.append(t)
    return tuple(sk)


def rendered(toks):
    """Token list -> list of strings whose concatenation is join(toks) (a token carries its own leading blank)."""
    return [(' ' + t[0]) if t[1] else t[0] for t in toks]


def single_edit_lists(r):
    """Every single token-level edit of a rendered token list (as rendered token lists)."""
    n = len(r)
    for i in range(n):                                  # delete
        yield r[:i] + r[i + 1:]
    for i in range(n + 1):                              # insert a structural token (no blank around it)
        head, tail = r[:i], r[i:]
        for s in STRUCT:
            yield head + [s] + tail
    for i in range(n - 1):                              # swap adjacent (each keeps its own leading blank)
        yield r[:i] + [r[i + 1], r[i]] + r[i + 2:]
    for i in range(1, n):                               # truncate
        yield r[:i]


def single_edits(line):
    """Sorted distinct texts: the line itself and every single edit of it."""
    out = {line}
    cat = ''.join
    for e in single_edit_lists(rendered(tokenize(line))):
        out.add(cat(e))
    return sorted(out)


def double_edits(line):
    """Sorted distinct texts reachable by exactly two successive single edits that are neither the line nor a
    single edit of it (those are covered by the single-edit phase)."""
    first = {line}
    firsts = []
    cat = ''.join
    for e in single_edit_lists(rendered(tokenize(line))):
        s = cat(e)
        if s not in first:
            first.add(s)
            firsts.append(e)
    out = set()
    for e in firsts:
        for e2 in single_edit_lists(e):
            out.add(cat(e2))
    out -= first
    return sorted(out)


# ---------------------------------------------------------------------------------------------
# corpus

def repo_root():
    return os.path.dirname(os.path.dirname(os.path.abspath(klongpy.__file__)))


def corpus():
    """-> (hand-written distinct lines, generated-file distinct lines not among the former, file count)."""
    root = repo_root()
    files = sorted(glob.glob(os.path.join(root, 'tests', 'kgtests', '**', '*.kg'), recursive=True)
                   + glob.glob(os.path.join(root, 'klongpy', 'lib', '*.kg')))
    hand, gen, total = set(), set(), 0
    for f in files:
        with open(f, encoding='utf8') as fh:
            data = fh.read()
        dst = gen if os.path.basename(f).startswith('gen_') else hand
        for ln in data.split('\n'):
            if ln.strip():
                total += 1
                dst.add(ln)
    gen -= hand
    if not hand:
        raise runner.HarnessError('no .kg corpus found under ' + root)
    return sorted(hand), sorted(gen), len(files), total


# ---------------------------------------------------------------------------------------------
# long inputs

def long_inputs():
    D, N, S = 200, 10000, 5000
    out = [
        ('paren-depth', '(' * D + '1' + ')' * D),
        ('list-depth', '[' * D + '1' + ']' * D),
        ('fn-depth', '{' * D + 'x' + '}' * D),
        ('cond-depth', ':[1;2;' * D + '3' + ']' * D),
        ('cond-elseif-chain', ':[1;2' + ':|1;2' * D + ';3]'),
        ('exprarray-depth', '[;1;' * D + '2' + ']' * D),
        ('dict-depth', ':{[1 ' * D + '2' + ']}' * D),
        ('call-depth', 'f(' * D + '1' + ')' * D),
        ('fncall-depth', '{x}(' * D + '1' + ')' * D),
        ('monad-depth', '-' * D + '1'),
        ('adverb-fn-depth', "{x}'" * D + '1'),
        ('open-paren-only', '(' * D),
        ('open-list-only', '[' * D),
        ('open-fn-only', '{' * D),
        ('open-cond-only', ':[' * D),
        ('open-exprarray-only', '[;' * D),
        ('open-dict-only', ':{' * D),
        ('open-call-only', 'f(' * D),
        ('close-paren-only', ')' * D),
        ('close-list-only', ']' * D),
        ('close-fn-only', '}' * D),
        ('mixed-brackets', '([{:[' * (D // 4) + '1' + ']}])' * (D // 4)),
        ('flat-dyads', '+'.join(['1'] * (N // 2))),
        ('flat-statements', ';'.join(['1'] * (N // 2))),
        ('flat-newlines', '\n'.join(['a'] * (N // 2))),
        ('flat-list', '[' + ' '.join(['1'] * N) + ']'),
        ('flat-list-unclosed', '[' + ' '.join(['1'] * N)),
        ('flat-juxtaposed', ' '.join(['a'] * N)),
        ('flat-adverbs', '+' + '/' * N + '1'),
        ('flat-args', 'f(' + ';'.join(['1'] * (N // 2)) + ')'),
        ('flat-exprarray', '[;' + ';'.join(['1'] * (N // 2)) + ']'),
        ('flat-dict', ':{' + ' '.join(['[1 2]'] * (N // 4)) + '}'),
        ('flat-semicolons', ';' * N),
        ('flat-blanks', ' ' * N),
        ('flat-newlines-only', '\n' * N),
        ('flat-comments', ':"c"' * (N // 2)),
        ('flat-symbols', ':a' * (N // 2)),
        ('flat-chars', '0cx' * (N // 3)),
        ('flat-fn-body', '{' + ';'.join(['x'] * (N // 2)) + '}'),
        ('long-string', '"' + 'a' * S + '"'),
        ('long-string-unterminated', '"' + 'a' * S),
        ('long-string-quotes', '"' + '""' * (S // 2) + '"'),
        ('long-quotes-only', '"' * S),
        ('long-comment', ':"' + 'a' * S + '"'),
        ('long-comment-unterminated', ':"' + 'a' * S),
        ('long-symbol', 'a' * S),
        ('long-number', '1' * S),
        ('long-number-dots', '1' + '.' * S),
        ('long-number-exponent', '1' + 'e+' * (S // 2)),
        ('long-syscomment-no-end', '.comment("x")' + 'a' * S),
        ('long-syscomment-marker-run', '.comment("x")' + 'x' * S),
        ('long-syscomment-marker-end', '.comment("end")' + 'a' * S + 'end'),
        ('long-module-switches', '.module(:m);' * (S // 10)),
    ]
    return out


# ---------------------------------------------------------------------------------------------
# structural signature of a parse tree

def sig(x):
    """Hashable structural signature: node classes, operator names, arities, literals (numpy arrays by dtype,
    shape and contents).  Two programs are structurally identical iff their signatures are equal."""
    t = type(x)
    if t is int:
        return x
    if t is KGSym:
        return ('y', str.__str__(x))
    if t is list:
        return ('L', tuple([sig(e) for e in x]))
    if t is KGFn or t is KGCall:
        gp = x.global_params
        return (t.__name__, sig(x.a), sig(x.args), x.arity, tuple(sorted(map(str, gp))) if gp else ())
    if t is KGOp:
        return ('op', x.a, x.arity)
    if t is KGAdverb:
        a = x.a
        return ('adv', a if type(a) is str else sig(a), x.arity)
    if t is str:
        return ('s', x)
    if t is np.ndarray:
        if x.dtype == object:
            return ('ao', x.shape, tuple([sig(e) for e in x.ravel().tolist()]) if x.ndim > 1
                    else tuple([sig(e) for e in x]))
        return ('a', x.dtype.str, x.shape, x.tobytes())
    if t is float:
        return ('r', repr(x))
    if t is KGChar:
        return ('c', str.__str__(x))
    if x is None:
        return None
    if t is KGCond or t is KGExprArray:
        return (t.__name__, tuple([sig(e) for e in x]))
    if t is dict:
        return ('d', tuple([(sig(k), sig(v)) for k, v in x.items()]))
    if t is KGLambda:
        return ('lambda', 'copy' if x is copy_lambda else getattr(x.fn, '__qualname__', '?'))
    if t is bool:
        return ('b', x)
    if isinstance(x, np.generic):
        return ('np', x.dtype.str, repr(x.item()))
    if isinstance(x, (list, tuple)):
        return (t.__name__, tuple([sig(e) for e in x]))
    if isinstance(x, KGFn):
        return (t.__name__, sig(x.a), sig(x.args), x.arity)
    return ('obj', t.__module__ + '.' + t.__name__)


def deep_sig(x):
    """sig() that survives very deep trees (the parser itself runs under the default recursion limit)."""
    try:
        return sig(x)
    except RecursionError:
        old = sys.getrecursionlimit()
        sys.setrecursionlimit(100000)
        try:
            return sig(x)
        finally:
            sys.setrecursionlimit(old)


def sig_diff(a, b, path='$'):
    """First difference between two signatures, as a short deterministic string."""
    if type(a) is tuple and type(b) is tuple and len(a) == len(b):
        for i, (p, q) in enumerate(zip(a, b)):
            if p != q:
                return sig_diff(p, q, path + '.' + str(i))
    sa, sb = _ADDR.sub(' at 0x?', repr(a)), _ADDR.sub(' at 0x?', repr(b))      # keys / observations stay deterministic
    if sa == sb:
        return '%s: %s twice, with different object addresses' % (path, sa[:90])
    return '%s: %s != %s' % (path, sa[:60], sb[:60])


# ---------------------------------------------------------------------------------------------
# call counting (sys.monitoring) and running under budget + watchdog

_MON = sys.monitoring
_TID = 4                            # a free tool id (0-2 and 5 are reserved for debugger, coverage, profiler, optimizer)
_CALL = _MON.events.CALL
_left = 0


class _Budget(BaseException):
    """Raised by the counting callback when the budget is exhausted (BaseException: not swallowed by klongpy)."""


_blown = False
_DISARMED = 1 << 62


def _on_call(code, offset, callee, arg0):
    global _left, _blown
    _left -= 1
    if _left < 0:
        _blown = True
        _left = _DISARMED           # raise once: the unwinding code (finally blocks, our own clean-up) makes calls too
        raise _Budget()


def _install_counter():
    cur = _MON.get_tool(_TID)
    if cur is None:
        _MON.use_tool_id(_TID, 'c12-call-counter')
    elif cur != 'c12-call-counter':
        raise runner.HarnessError('sys.monitoring profiler slot is taken by ' + cur)
    _MON.register_callback(_TID, _CALL, _on_call)
    _MON.set_events(_TID, 0)


# Watchdog of the fan-out workers.  Two lessons from running on a shared, overloaded 16-vCPU VM went into it:
#  * arming a timer per case costs more kernel time than the parse itself -> a batch of cases runs under ONE periodic
#    ticker and a guarded section merely stores the tick number at which it is overdue (no system call per case);
#  * wall-clock says nothing when the worker is starved or the VM stalls for seconds -> the ticker is ITIMER_VIRTUAL:
#    it ticks per TICK seconds of CPU time consumed by this process, which is exactly what a non-terminating parse
#    burns (the parser does no I/O and never blocks).
# Outside a ticker (replay, selftest) the guard falls back to runner.watchdog (wall clock).

TICK = 0.5
_ticker_on = False
_ticks = 0
_deadline = None        # tick number at which the current guarded section is overdue


def _tick(signum, frame):
    global _ticks, _deadline
    _ticks += 1
    d = _deadline
    if d is not None and _ticks >= d:
        _deadline = None
        raise CaseTimeout()


class ticker:
    def __enter__(self):
        global _ticker_on, _deadline
        self.mine = not _ticker_on
        if self.mine:
            _deadline = None
            self.old = signal.signal(signal.SIGVTALRM, _tick)
            signal.setitimer(signal.ITIMER_VIRTUAL, TICK, TICK)
            _ticker_on = True
        return self

    def __exit__(self, *exc):
        global _ticker_on, _deadline
        if self.mine:
            _deadline = None
            signal.setitimer(signal.ITIMER_VIRTUAL, 0)
            # a tick may still be pending: never fall back to the default action (terminate)
            signal.signal(signal.SIGVTALRM, self.old if callable(self.old) else signal.SIG_IGN)
            _ticker_on = False
        return False


class guard:
    """with guard(seconds): ...   raises CaseTimeout in the body after seconds (+ at most one TICK) of CPU time."""
    def __init__(self, seconds):
        self.seconds = seconds
        self.wd = None

    def __enter__(self):
        global _deadline
        if _ticker_on:
            _deadline = _ticks + int(self.seconds / TICK) + 1
        else:
            self.wd = runner.watchdog(self.seconds)
            self.wd.__enter__()
        return self

    def __exit__(self, *exc):
        global _deadline
        _deadline = None
        if self.wd is not None:
            return self.wd.__exit__(*exc)
        return False


class counting:
    """Call events are switched on once per case (every switch makes CPython re-instrument each function on its next
    call, which costs more than the parse of a short text); the sections that are budgeted set the counter, in between
    it is disarmed."""
    def __enter__(self):
        global _left
        _left = _DISARMED
        _MON.set_events(_TID, _CALL)
        return self

    def __exit__(self, *exc):
        global _left
        _left = _DISARMED
        _MON.set_events(_TID, 0)
        return False


def _parse(K, text, module, budget):
    """One real parse.  -> (outcome, calls).  outcome: ('ok', end_index, program) | ('exc', class) | ('budget',).
    Runs inside the caller's `counting` and watchdog; CaseTimeout propagates to the caller."""
    global _left, _blown
    K._module = module
    used = 0
    _blown = False
    _left = budget
    try:
        try:
            i, p = K.prog(text)
        finally:
            used = budget - _left
            _left = _DISARMED
        out = ('ok', i, p)
    except _Budget:
        out = ('budget',)
    except RecursionError:
        out = ('exc', 'RecursionError')
    except Exception as e:       # noqa: BLE001 - every error class is a legitimate way for a parse to end
        out = ('exc', type(e).__name__)
    if _blown:                       # also when something between the callback and us swallowed the exception
        return ('budget',), budget + 1
    return out, used


def _osig(o):
    if o[0] == 'ok':
        return ('ok', o[1], deep_sig(o[2]))
    return o


def _odesc(o):
    if o[0] == 'ok':
        return 'ok(end=%d,exprs=%d)' % (o[1], len(o[2]))
    if o[0] == 'exc':
        return 'exc:' + o[1]
    return o[0]


# ---------------------------------------------------------------------------------------------
# per-process state: one parse interpreter, two twin evaluation interpreters

K_PRELUDE = ['a::1', 'f::{x+1}', 'v::[1 2 3]', 'd:::{[1 2]}', 's::"str"', 't::{x;y~z}']


def _t_stub(x, y, z):
    """Stateless stand-in for the test suites' t(source; expression; expected): makes the corpus lines evaluate both
    operands and returns them."""
    return [y, z]


def _fingerprint(dicts):
    return tuple([(id(d), tuple(d), tuple(map(id, d.values()))) if len(d) <= 16 else (id(d), len(d)) for d in dicts])


class State:
    def __init__(self):
        _install_counter()
        self.K = KlongInterpreter()
        for p in K_PRELUDE:
            self.K(p)
        self.K._parse_cache.clear()
        self.K._compiled_cache.clear()
        self.shallow = self._shallow()
        self.deep = self._deep()
        self.E = [self._mk_eval(), self._mk_eval()]

    # -- parse interpreter snapshots
    def _shallow(self):
        """Cheap per-case fingerprint: scope stack, names and value identities (the ~50-entry read-only system
        dictionary by identity and size only; its contents are part of the deep snapshot taken per line)."""
        c = self.K._context
        return (c._min_ctx_count, _fingerprint(c._context))

    def _deep(self):
        c = self.K._context
        return tuple([tuple([(str(k), deep_sig(v)) for k, v in d.items()]) for d in c._context])

    # -- evaluation interpreters
    @staticmethod
    def _mk_eval():
        E = KlongInterpreter()
        sysd = list(E._context._context)[1:]
        tmpl = {}
        set_context_var(tmpl, KGSym('t'), _t_stub)
        return {'E': E, 'sys': sysd, 'tmpl': tmpl, 'fp': _fingerprint(sysd)}

    def reset_eval(self, j, text, cached):
        e = self.E[j]
        if _fingerprint(e['sys']) != e['fp']:
            e = self.E[j] = self._mk_eval()              # an evaluation touched the system contexts: start over
        E = e['E']
        E._context._context = deque([dict(e['tmpl'])] + e['sys'])
        E._context._min_ctx_count = len(e['sys'])
        E._module = None
        E._parse_cache = {(text, None): cached}
        E._compiled_cache = {}
        return E


_STATE = None
_STATE_PID = None


def state():
    global _STATE, _STATE_PID
    if _STATE is None or _STATE_PID != os.getpid():
        _limit_memory()
        _STATE = State()
        _STATE_PID = os.getpid()
    return _STATE


def drop_state():
    """Never carry a damaged interpreter into the next case."""
    global _STATE
    _STATE = None


def _limit_memory():
    """Evaluating edited programs can ask numpy for absurd allocations; make those fail fast with MemoryError."""
    try:
        import resource
        with open('/proc/self/statm') as f:
            cur = int(f.read().split()[0]) * os.sysconf('SC_PAGE_SIZE')
        soft, hard = resource.getrlimit(resource.RLIMIT_AS)
        want = cur + (3 << 30)
        if soft == resource.RLIM_INFINITY or soft > want:
            resource.setrlimit(resource.RLIMIT_AS, (want, hard))
    except Exception:       # noqa: BLE001 - best effort; the watchdog still bounds every evaluation
        pass


def _evaluate(st, j, text, prog):
    """Evaluate a parsed program through the real __call__ path.  -> ('ok', canon) | ('exc', cls) | ('skip', why)."""
    global _left, _blown
    cached = prog[0] if len(prog) == 1 else prog
    E = st.reset_eval(j, text, cached)
    _blown = False
    exc = None
    _left = EVAL_BUDGET
    try:
        try:
            r = E(text)
        finally:
            _left = _DISARMED
    except _Budget:
        return ('skip', 'budget')
    except MemoryError:
        return ('skip', 'memory')
    except RecursionError:
        exc = 'RecursionError'
    except Exception as e:       # noqa: BLE001
        exc = type(e).__name__
    if _blown:
        return ('skip', 'budget')
    if exc is not None:
        return ('exc', exc)
    try:
        return ('ok', cn(r))
    except RecursionError:
        return ('ok', ('obj', 'too-deep'))
    except MemoryError:
        return ('skip', 'memory')


# ---------------------------------------------------------------------------------------------
# the check of one case

def check_case(st, text, module, do_eval=True, timeout=None):
    """-> (violations [(what, observed, expected, group)], info dict)."""
    with counting():
        return _check(st, text, module, do_eval, timeout)


def _check(st, text, module, do_eval, timeout):
    K = st.K
    n = len(text)
    budget = BUDGET_FACTOR * (n + 2) * (n + 2)
    info = {'calls': 0, 'class': None, 'ohash': 0, 'nontrivial': True, 'eval': None, 'timeout': False}
    viol = []
    o1 = o2 = None
    try:
        with guard(timeout or PARSE_TIMEOUT):                # one watchdog for the pair of parses
            o1, calls = _parse(K, text, module, budget)
            if o1[0] != 'budget':
                m1 = K._module
                s1 = _osig(o1)
                o2, _calls2 = _parse(K, text, module, budget)
                m2 = K._module
    except CaseTimeout:
        info['timeout'] = True
        info['class'] = 'timeout'
        if o1 is None:
            viol.append(('termination', 'timeout', 'the parse ends (program or error) within %gs' % PARSE_TIMEOUT,
                         'parse-does-not-terminate'))
        else:
            viol.append(('termination', 'timeout-on-second-parse', 'the second parse ends like the first (%s)'
                         % _odesc(o1), 'parse-does-not-terminate'))
        return viol, info
    info['calls'] = calls
    if o1[0] == 'budget':
        info['class'] = 'over-budget'
        viol.append(('termination', 'over-budget', 'at most %d*(n+2)^2 = %d calls for n = %d characters'
                     % (BUDGET_FACTOR, budget, n), 'parse-work-unbounded'))
        return viol, info
    s2 = _osig(o2)
    s1b = _osig(o1)
    if o1[0] == 'ok':
        info['class'] = 'ok' if o1[2] else 'ok-empty'
        info['nontrivial'] = bool(o1[2])
    else:
        info['class'] = 'exc:' + o1[1]
    info['ohash'] = hash(s1)
    if o2[0] == 'budget':
        viol.append(('termination', 'over-budget-on-second-parse', 'second parse within the budget like the first',
                     'parse-work-unbounded'))
    elif o1[0] != o2[0] or (o1[0] == 'exc' and o1[1] != o2[1]):
        viol.append(('outcome', '%s then %s' % (_odesc(o1), _odesc(o2)), 'both parses end the same way',
                     'parse-not-repeatable'))
    elif o1[0] == 'ok':
        if o1[1] != o2[1]:
            viol.append(('end-index', '%d then %d' % (o1[1], o2[1]), 'same end index', 'parse-not-repeatable'))
        if s1[2] != s2[2]:
            d = sig_diff(s1[2], s2[2])
            viol.append(('structure', d, 'structurally identical programs',
                         'object-address-in-parsed-name' if d.endswith('object addresses') else 'parse-not-repeatable'))
        if s1[2] != s1b[2]:
            viol.append(('first-tree-mutated', sig_diff(s1[2], s1b[2]),
                         'the first program is not altered by parsing again', 'parse-mutates-earlier-program'))
    if m1 is not m2 and deep_sig(m1) != deep_sig(m2):
        viol.append(('module-after', sig_diff(deep_sig(m1), deep_sig(m2)), 'same parse-time module after both parses',
                     'parse-not-repeatable'))
    if st._shallow() != st.shallow:
        viol.append(('variables', 'changed', 'parsing leaves every variable binding untouched',
                     'parse-changes-variables'))
    if (do_eval and not viol and module is None and o1[0] == 'ok' and o1[2]):
        if _SYSNAME.search(text):
            info['eval'] = 'not-eligible-system-name'
        else:
            try:
                with guard(EVAL_TIMEOUT):
                    r1 = _evaluate(st, 0, text, o1[2])
                    r2 = _evaluate(st, 1, text, o2[2])
            except CaseTimeout:
                r1 = r2 = ('skip', 'timeout')
            if r1[0] == 'skip' or r2[0] == 'skip':
                info['eval'] = 'skipped-' + (r1[1] if r1[0] == 'skip' else r2[1])
            else:
                info['eval'] = 'compared-' + r1[0]
                if r1[0] != r2[0]:
                    same = False
                elif r1[0] == 'exc':
                    same = r1[1] == r2[1]
                else:
                    same = close(r1[1], r2[1], 0.0, 0.0)
                    if not same:              # default object reprs inside strings carry addresses: not a difference
                        r1, r2 = ('ok', _mask(r1[1])), ('ok', _mask(r2[1]))
                        same = close(r1[1], r2[1], 0.0, 0.0)
                if not same:
                    viol.append(('eval', '%s then %s' % (_rdesc(r1), _rdesc(r2)),
                                 'evaluating the re-parsed program gives the same result', 'reparse-evaluates-differently'))
    return viol, info


_ADDR = re.compile(r' at 0x[0-9a-fA-F]+')


def _mask(c):
    t = c[0]
    if t == 's':
        return ('s', _ADDR.sub(' at 0x?', c[1]))
    if t == 'l':
        return ('l', tuple(_mask(e) for e in c[1]))
    if t == 'd':
        return ('d', frozenset((_mask(k), _mask(v)) for k, v in c[1]))
    return c


def _rdesc(r):
    return ('ok:' + show(_mask(r[1]))[:80]) if r[0] == 'ok' else 'exc:' + r[1]


def deep_check(st):
    return st._deep() == st.deep


# ---------------------------------------------------------------------------------------------
# violations

_SNIPPET = '''import sys
from klongpy import KlongInterpreter
from klongpy.types import KGSym
text = %(text)s
module = %(module)s
k = KlongInterpreter()
n = [0]
def prof(frame, ev, arg):
    if ev in ('call', 'c_call'):
        n[0] += 1
for attempt in (1, 2):
    k._module = module
    n[0] = 0
    sys.setprofile(prof)
    try:
        i, p = k.prog(text)
        out = ('ok', i, p)
    except Exception as e:
        out = ('error', type(e).__name__, str(e)[:80])
    finally:
        sys.setprofile(None)
    print('parse', attempt, out, 'calls', n[0], 'budget', 200 * (len(text) + 2) ** 2, 'module after', k._module)
'''


def _text_expr(text, name):
    if name is None or len(text) < 300:
        return repr(text)
    return '__import__("mc.props.c12_parse", fromlist=["x"]).long_input(%r)   # PYTHONPATH=/repo:/verif' % name


def long_input(name):
    return dict(long_inputs())[name]


def make_violation(text, module, name, what, observed, expected, group, confirmed=True):
    label = ('long:' + name) if name else ('text=' + json.dumps(text))
    key = '%s module=%s @%s' % (label, module if module else '-', what)
    if not confirmed:
        key += ' (only after earlier parses in the same process)'
        group = 'history-dependent:' + group
    snippet = _SNIPPET % {'text': _text_expr(text, name), 'module': ('KGSym(%r)' % str(module)) if module else 'None'}
    return dict(key=key, observed=observed, expected=expected, group=group, snippet=snippet,
                case={'text': text if name is None else None, 'long': name, 'module': str(module) if module else None,
                      'what': what})


def judge(st, text, module, name, do_eval, acc):
    """Fast path on the shared per-process interpreters; every violation is re-established on fresh interpreters."""
    viol, info = check_case(st, text, module, do_eval)
    if not viol:
        return info
    # Second opinion on fresh interpreters, both parses counted.  A watchdog hit has to repeat with three times the
    # time allowance: a starved worker on a busy machine is not a hang.
    was_timeout = info['timeout']
    fresh = State()
    v2, info2 = check_case(fresh, text, module, do_eval, timeout=3 * PARSE_TIMEOUT if was_timeout else None)
    seen = set()
    out = []
    for v in v2:
        seen.add(v[0])
        out.append(make_violation(text, module, name, v[0], v[1], v[2], v[3]))
    if was_timeout:
        if not info2['timeout']:
            acc['watchdog_false_alarms'] += 1
        info = info2
    else:
        for v in viol:
            if v[0] not in seen:
                out.append(make_violation(text, module, name, v[0], v[1], v[2], v[3], confirmed=False))
    acc['nviol'] += len(out)
    acc['viol'].extend(out[:max(0, MAX_VIOL_PER_CHUNK - len(acc['viol']))])
    if st._shallow() != st.shallow or any(v[0] == 'variables' for v in viol):
        drop_state()
    return info


# ---------------------------------------------------------------------------------------------
# work items -> partial results

def _digest(text, module):
    h = hashlib.blake2b(text.encode('utf8', 'surrogatepass'), digest_size=8, person=b'm' if module else b'-')
    return int.from_bytes(h.digest(), 'little')


def _new_acc():
    return {'cases': 0, 'parses': 0, 'viol': [], 'nviol': 0, 'classes': {}, 'evals': {}, 'th': [], 'oh': [],
            'max_ratio': 0.0, 'max_ratio_text': '', 'max_calls': 0, 'max_calls_per_char': 0.0, 'items_done': 0,
            'items_skipped': 0, 'cases_aborted': 0, 'timeouts': 0, 'watchdog_false_alarms': 0}


def _account(acc, info, text, module):
    acc['cases'] += 1
    acc['parses'] += 2
    c = info['class']
    acc['classes'][c] = acc['classes'].get(c, 0) + 1
    if info['eval']:
        acc['evals'][info['eval']] = acc['evals'].get(info['eval'], 0) + 1
    if info['nontrivial']:
        acc['th'].append(_digest(text, module))
    acc['oh'].append(info['ohash'] & 0xffffffffffffffff)
    n = len(text)
    r = info['calls'] / ((n + 2) * (n + 2))
    if r > acc['max_ratio'] or (r == acc['max_ratio'] and text < acc['max_ratio_text']):
        acc['max_ratio'], acc['max_ratio_text'] = r, text[:60]
    if info['calls'] > acc['max_calls']:
        acc['max_calls'] = info['calls']
    if n >= 1000 and info['calls'] / n > acc['max_calls_per_char']:
        acc['max_calls_per_char'] = info['calls'] / n


def make_worker(deadline, timeouts):
    """items: ('text', text, module) | ('long', name) | ('single', id, line) | ('double', id, line, part, parts)."""
    def run_cases(st, texts, module, name, acc):
        for text in texts:
            if timeouts.value >= MAX_TIMEOUTS:
                acc['cases_aborted'] += 1
                continue
            info = judge(st, text, module, name, True, acc)
            st = _STATE or state()
            if info['timeout']:
                acc['timeouts'] += 1
                timeouts.value += 1            # lock-free shared counter: a lost update only delays the cut-off
            _account(acc, info, text, module)
        return st

    def work(items):
        acc = _new_acc()
        with ticker():
            st = state()
            for it in items:
                if time.monotonic() > deadline:
                    acc['items_skipped'] += 1
                    continue
                kind = it[0]
                if kind == 'text':
                    st = run_cases(st, [it[1]], it[2], None, acc)
                elif kind == 'long':
                    st = run_cases(st, [long_input(it[1])], None, it[1], acc)
                elif kind == 'single':
                    st = run_cases(st, single_edits(it[2]), None, None, acc)
                elif kind == 'double':
                    texts = double_edits(it[2])
                    st = run_cases(st, texts[it[3]::it[4]], None, None, acc)
                if not deep_check(st):           # values (not only bindings) of all variables, once per item
                    acc['nviol'] += 1
                    what = 'variables-deep' if kind in ('text', 'long') else 'variables-deep(some edit of this line)'
                    acc['viol'].append(make_violation(long_input(it[1]) if kind == 'long' else it[1 if kind == 'text' else 2],
                                                      it[2] if kind == 'text' else None,
                                                      it[1] if kind == 'long' else None, what, 'changed',
                                                      'parsing changes no variable value', 'parse-changes-variables'))
                    drop_state()
                    st = state()
                acc['items_done'] += 1
        acc['th'] = np.array(acc['th'], dtype=np.uint64).tobytes()
        acc['oh'] = np.array(acc['oh'], dtype=np.uint64).tobytes()
        return acc
    return work


class Totals:
    def __init__(self):
        self.t = _new_acc()
        self.th = np.zeros(0, dtype=np.uint64)
        self.oh = np.zeros(0, dtype=np.uint64)
        self._pend_t, self._pend_o, self._pend_n = [], [], 0

    def add(self, part):
        t = self.t
        for k in ('cases', 'parses', 'nviol', 'items_done', 'items_skipped', 'cases_aborted', 'timeouts',
                  'watchdog_false_alarms'):
            t[k] += part[k]
        for k in ('classes', 'evals'):
            for c, n in part[k].items():
                t[k][c] = t[k].get(c, 0) + n
        t['viol'].extend(part['viol'])
        if part['max_ratio'] > t['max_ratio'] or (part['max_ratio'] == t['max_ratio']
                                                  and part['max_ratio_text'] < t['max_ratio_text']):
            t['max_ratio'], t['max_ratio_text'] = part['max_ratio'], part['max_ratio_text']
        t['max_calls'] = max(t['max_calls'], part['max_calls'])
        t['max_calls_per_char'] = max(t['max_calls_per_char'], part['max_calls_per_char'])
        a, b = np.frombuffer(part['th'], dtype=np.uint64), np.frombuffer(part['oh'], dtype=np.uint64)
        self._pend_t.append(a)
        self._pend_o.append(b)
        self._pend_n += len(a) + len(b)
        if self._pend_n > 4000000:
            self.flush()

    def flush(self):
        if self._pend_t:
            self.th = np.unique(np.concatenate([self.th] + self._pend_t))
            self.oh = np.unique(np.concatenate([self.oh] + self._pend_o))
            self._pend_t, self._pend_o, self._pend_n = [], [], 0


# ---------------------------------------------------------------------------------------------
# enumeration of the phases

def alphabet_texts(max_tokens):
    out = {''}
    layer = ['']
    for _ in range(max_tokens):
        layer = [p + t for p in layer for t in ALPHABET]
        out.update(layer)
    return sorted(out)


def skeleton_representatives(lines, max_tokens):
    reps = {}
    for ln in lines:
        toks = tokenize(ln)
        if len(toks) > max_tokens:
            continue
        sk = skeleton(toks)
        cur = reps.get(sk)
        if cur is None or (len(ln), ln) < (len(cur), cur):
            reps[sk] = ln
    return sorted(reps.values(), key=lambda s: (len(tokenize(s)), s))


def run(cfg):
    rep = runner.Report('C12', 'exploration')
    t0 = time.monotonic()
    # Time budget: items not started by then are skipped and reported, exhaustive = false.  Quick needs ~30 s of an idle
    # 16-core machine; its limit is only a safety net for a starved one.
    deadline = t0 + cfg.pick(600, 560)
    timeouts = multiprocessing.get_context('fork').RawValue('i', 0)
    work = make_worker(deadline, timeouts)
    tot = Totals()
    phases = {}

    def phase(name, items, chunk=None):
        before = dict((k, tot.t[k]) for k in ('cases', 'items_done', 'items_skipped', 'cases_aborted', 'nviol'))
        tp = time.monotonic()
        if tp > deadline:
            tot.t['items_skipped'] += len(items)
        else:
            for part in runner.pmap(work, items, cfg, chunk=chunk, deadline_s=1500):
                tot.add(part)
        phases[name] = dict((k, tot.t[k] - v) for k, v in before.items())
        phases[name]['items'] = len(items)
        phases[name]['wall_s'] = round(time.monotonic() - tp, 1)

    # (a) token strings
    L = cfg.pick(2, 3)
    texts = alphabet_texts(L)
    phase('a:alphabet', [('text', t, m) for t in texts for m in (None, KGSym('m'))])
    # (c) long inputs
    longs = long_inputs()
    phase('c:long', [('long', nm) for nm, _ in longs], chunk=1)
    # (b) edits
    hand, gen, nfiles, nlines = corpus()
    lines = hand if cfg.quick else hand + gen
    if cfg.quick:
        # quick: one representative (shortest, then smallest) line per token skeleton among the hand-written lines of
        # <= QUICK_MAX_TOKENS tokens (cost grows with the square of the line length); thorough: every line
        hand_q = skeleton_representatives(hand, QUICK_MAX_TOKENS)
        phase('b:single-edits-hand-written', [('single', i, ln) for i, ln in enumerate(hand_q)], chunk=4)
    else:
        phase('b:single-edits-hand-written', [('single', i, ln) for i, ln in enumerate(hand)], chunk=4)
    reps = []

    def doubles(groups):
        for lo, hi in groups:
            grp = [(i, r) for i, r in enumerate(reps) if lo <= len(tokenize(r)) <= hi]
            parts = 1 if hi <= 12 else 2          # every part regenerates the line's edit set and takes its slice
            items = [('double', i, r, p, parts) for i, r in grp for p in range(parts)]
            if items:
                phase('b:double-edits-%d-%d-tokens' % (lo, hi), items, chunk=1)

    if not cfg.quick:
        # Order of value per second, because the time budget may end the run early: short double edits before the
        # single edits of the two machine-generated files (17.7 k lines of a few repeated shapes), longest doubles last.
        reps = skeleton_representatives(lines, DOUBLE_MAX_TOKENS)
        doubles(((0, 6), (7, 8), (9, 10), (11, 12)))
        phase('b:single-edits-generated', [('single', len(hand) + i, ln) for i, ln in enumerate(gen)], chunk=16)
        doubles(((13, 14), (15, 16)))
    tot.flush()
    T = tot.t
    if T['cases'] == 0:
        raise runner.HarnessError('no case was run (time budget exhausted before the first phase)')
    rep.extend_violations(T['viol'])

    capped = T['items_skipped'] > 0 or T['cases_aborted'] > 0
    complete = [n for n, p in phases.items() if p['items_skipped'] == 0 and p['cases_aborted'] == 0]
    incomplete = {n: '%d of %d items not run' % (p['items_skipped'], p['items']) if p['items_skipped']
                  else '%d cases not run' % p['cases_aborted'] for n, p in phases.items() if n not in complete}
    if T['items_skipped']:
        rep.notes.append('time budget reached: ' + json.dumps(incomplete, sort_keys=True))
    if T['cases_aborted']:
        rep.notes.append('%d watchdog hits: %d cases were not started' % (T['timeouts'], T['cases_aborted']))
    if T['nviol'] > len(T['viol']):
        rep.notes.append('%d violating observations in total, %d kept' % (T['nviol'], len(T['viol'])))

    samples = [
        {'phase': 'a', 'text': '1e+', 'module': None},
        {'phase': 'a', 'text': ':[[;{', 'module': 'm'},
        {'phase': 'b', 'line': hand[len(hand) // 2], 'edits': single_edits(hand[len(hand) // 2])[:4]},
        {'phase': 'c', 'long': 'cond-depth', 'chars': len(long_input('cond-depth'))},
    ]
    rep.coverage = {
        'evaluations': T['cases'],
        'parses': T['parses'],
        'distinct_nontrivial': int(len(tot.th)),
        'distinct_outcomes': int(len(tot.oh)),
        'rule': 'evaluations = cases (text, start module), each parsed twice by KlongInterpreter.prog; enumerated: '
                '(a) all concatenations of <= %d tokens of the %d-token alphabet in modules none and m; (b) the line '
                'itself and every single token edit (delete / insert one of %d structural tokens / swap adjacent / '
                'truncate) of every distinct non-blank line of the %s .kg corpus%s; (c) %d generated long inputs. '
                'distinct_nontrivial = distinct (text, module) cases (64-bit BLAKE2 digest) whose parse produced a '
                'non-empty program or an error, i.e. everything except texts that parse to the empty program; '
                'distinct_outcomes = distinct (end index, program signature) / error classes'
                % (L, len(ALPHABET), len(STRUCT), ('hand-written (one representative line per token skeleton, lines of <= %d tokens)' % QUICK_MAX_TOKENS) if cfg.quick else 'whole',
                   '' if cfg.quick else '; every double edit of one representative line per token skeleton of the '
                   'lines of <= %d tokens (%d skeletons)' % (DOUBLE_MAX_TOKENS, len(reps)), len(longs)),
        'samples': samples,
        'exhaustive': not capped,
        'phases': phases,
        'phases_fully_covered': complete,
        'phases_incomplete': incomplete,
        'alphabet': ALPHABET,
        'structural_tokens': STRUCT,
        'corpus': {'files': nfiles, 'non_blank_lines': nlines, 'distinct_hand_written': len(hand),
                   'distinct_generated_only': len(gen), 'lines_edited': len(lines),
                   'double_edit_skeletons': len(reps)},
        'parse_outcome_classes': dict(sorted(T['classes'].items())),
        'evaluation_differential': dict(sorted(T['evals'].items())),
        'budget': '%d*(n+2)^2 counted calls per parse, watchdog %gs of CPU time for the two parses of a case'
                  % (BUDGET_FACTOR, PARSE_TIMEOUT),
        'max_calls_over_n_plus_2_squared': round(T['max_ratio'], 3),
        'max_calls_over_n_plus_2_squared_text': T['max_ratio_text'],
        'max_calls_single_parse': T['max_calls'],
        'max_calls_per_char_inputs_over_1000_chars': round(T['max_calls_per_char'], 2),
        'watchdog_hits': T['timeouts'],
        'watchdog_hits_not_repeated_with_3x_time': T['watchdog_false_alarms'],
    }
    rep.assumptions = [
        'work measure: executions of call instructions in Python code (sys.monitoring CALL events, the 3.12 form of '
        'sys.setprofile call + c_call); work inside one C call (string slicing, str.index, int()) is linear in the '
        'input and not counted; loops without any call are bounded only by the watchdog (%gs of process CPU time, '
        'ITIMER_VIRTUAL; a hit must repeat on fresh interpreters with three times the allowance)' % PARSE_TIMEOUT,
        'both parses of a case are counted against the budget; evidence reports the counts of the first',
        'a Python RecursionError on deeply nested input is an error raised after bounded work',
        'one parse interpreter and two evaluation interpreters per worker process, reset before every case (start '
        'module; user context, caches and module of the evaluation twins); every violation is re-established on '
        'fresh interpreters before it is reported, so reuse can hide but not invent a failure',
        'evaluation differential only for texts without a .name (system functions and variables are never '
        'evaluated), started in the default module, inside %d counted calls / %gs / +3 GiB address space; the twins '
        'are pre-loaded with a stateless stand-in t(x;y;z) -> [y z] for the test suites\' t so that corpus lines '
        'evaluate their operands; results compared exactly in canonical form (numeric-block promotion on both sides)'
        % (EVAL_BUDGET, EVAL_TIMEOUT),
        'double edits: one representative (shortest, then smallest) line per token skeleton (numbers, strings, '
        'characters, comments and ordinary names abstracted; x/y/z, dotted names, operators and brackets kept); '
        'double edits of lines over %d tokens are outside the bound' % DOUBLE_MAX_TOKENS,
        'edits are token-level with the harness tokenizer (strings and comments are single tokens); an inserted token '
        'is not separated by blanks from its neighbours',
    ]
    return rep


# ---------------------------------------------------------------------------------------------

def replay(cfg, path):
    with open(path) as f:
        r = json.load(f)
    c = r['case']
    text = long_input(c['long']) if c.get('long') else c['text']
    module = KGSym(c['module']) if c.get('module') else None
    print('text (%d chars): %r' % (len(text), text[:200]))
    print('start module:', module)
    st = State()
    viol, info = check_case(st, text, module, True)
    print('calls (first parse): %d  budget: %d' % (info['calls'], BUDGET_FACTOR * (len(text) + 2) ** 2))
    print('outcome class:', info['class'], ' evaluation:', info['eval'])
    for v in viol:
        print('VIOLATED @%s: observed %s ; expected %s' % (v[0], v[1], v[2]))
    if not viol:
        print('no violation on fresh interpreters')
    return 0


def selftest():
    # tokenizer: joining the tokens of a line gives the line back modulo the width of blank runs
    lines = ['t("@""string""" ; @"string" ; 0)', 'f::{[a b];a::x;:[a>1;a-1:|a<0;0;a]}', "+/'[[1 2] [3 4]]",
             ':"cmt" a::0cx,1.5e-3', '.comment("end")']
    for ln in lines:
        toks = tokenize(ln)
        assert join(toks).split() == ln.split(), ln
    assert [t[0] for t in tokenize('a::0cx,-1.5e-3:~"s""t"')] == ['a', '::', '0cx', ',', '-', '1.5e-3', ':~', '"s""t"']
    assert len(list(single_edit_lists(rendered(tokenize('a+1'))))) == 3 + 4 * len(STRUCT) + 2 + 2
    assert ''.join(rendered(tokenize(' a  + 1'))) == ' a + 1'
    assert 'a+' in single_edits('a+1') and '+a1' in single_edits('a+1') and 'a[+1' in single_edits('a+1')
    assert '+' in double_edits('a+1') and 'a+1' not in double_edits('a+1') and 'a' not in double_edits('a+1')
    assert len(ALPHABET) == len(set(ALPHABET)) == 54
    # signature: sensitive to arity, operator, literal kind, array contents; insensitive to object identity
    k = KlongInterpreter()
    p = lambda s: deep_sig(k.prog(s)[1])
    assert p('1+2') == p('1+2') and p('1+2') != p('1-2') and p('[1 2]') != p('[1 3]') and p('1') != p('1.0')
    assert p("+/1") != p("+'1") and p(':{[1 2]}') == p(':{[1 2]}') and p('"a"') != p('0ca') and p(':a') != p('"a"')
    t1 = k.prog('+/x')[1]
    s = deep_sig(t1)
    t1[0].a[0].a.arity = 1
    assert deep_sig(t1) != s
    # the counting budget and the watchdog both stop a loop
    _install_counter()
    global _left, _blown

    def loop_with_calls():
        while True:
            len('x')
    _left, _blown = 1000, False
    _MON.set_events(_TID, _CALL)
    try:
        loop_with_calls()
        raise AssertionError('budget did not fire')
    except _Budget:
        pass
    finally:
        _MON.set_events(_TID, 0)
    assert _blown
    try:
        with runner.watchdog(0.05):
            while True:
                pass
    except CaseTimeout:
        pass
    st = State()
    v, info = check_case(st, '1+2', None)
    assert not v and info['eval'] == 'compared-ok' and info['class'] == 'ok', (v, info)
    v, info = check_case(st, '.p(1)', None)
    assert not v and info['eval'] == 'not-eligible-system-name'
    v, info = check_case(st, '(1', None)
    assert not v and info['class'].startswith('exc:'), info
    return 'tokenizer, signature, budget, watchdog ok'

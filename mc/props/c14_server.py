"""C14, server side: "... or it raises if the server-side evaluation fails ... no caller is left waiting forever".

The caller-side part (c14_ipc_calls) plays the server by hand.  Whether a caller whose request FAILS on the server gets an
answer or a closed connection - rather than silence on an open connection - is decided by the server's own code, so this
part runs the real TcpServerConnectionHandler.handle_client / NetworkClient._listen / run_command_on_klongloop /
execute_server_command with a real interpreter on two virtual-time loops (io loop and klong loop, driven alternately to
quiescence) behind an in-memory reader/writer pair, for EVERY sequence of requests up to a bound over a closed alphabet of
request kinds (each kind that succeeds and each kind that fails), under every delivery pattern of the alphabet.

Oracle per request, after the loops went quiescent: the server wrote a frame with the request's id that carries the value
the same operation gives on a twin interpreter, or (the operation fails on the twin) it ended the connection; a request
that got neither leaves its caller waiting forever.
"""
import asyncio
import logging
import uuid as _uuid

from klongpy import KlongInterpreter
from klongpy.core import KGSym

from .. import runner
from ..values import cn, show
from ..vloop import VLoop

import klongpy.sys_fn_ipc as ipc
from .c14_ipc_calls import FakeWriter, Proxy, frames, cut_chunks, _REAL

PRELUDE = 'sq::{x*x};a::7;add::{x+y}'

# kind -> (message factory, same operation on the twin as a callable(twin) -> value)
REQUESTS = [
    ('eval-ok', lambda: '1+a', lambda t: t('1+a')),
    ('eval-fails', lambda: 'nosuchfn(1)', lambda t: t('nosuchfn(1)')),
    ('eval-syntax-error', lambda: '1+', lambda t: t('1+')),
    ('call-ok', lambda: ipc.KGRemoteFnCall(KGSym('sq'), [3]), lambda t: t('sq(3)')),
    ('call-unknown-symbol', lambda: ipc.KGRemoteFnCall(KGSym('nosuch'), [1]), lambda t: t('nosuch(1)')),
    ('call-non-callable', lambda: ipc.KGRemoteFnCall(KGSym('a'), [1]), lambda t: _fail()),
    ('get-ok', lambda: ipc.KGRemoteDictGetCall(KGSym('a')), lambda t: t[KGSym('a')]),
    ('get-unknown-symbol', lambda: ipc.KGRemoteDictGetCall(KGSym('nosuch')), lambda t: t[KGSym('nosuch')]),
    ('get-function', lambda: ipc.KGRemoteDictGetCall(KGSym('add')), lambda t: ('fnref', 2)),
    ('set', lambda: ipc.KGRemoteDictSetCall(KGSym('a'), 5), lambda t: t.__setitem__(KGSym('a'), 5)),
    # a frame that arrives complete but whose body the receiver cannot unpickle (a class only the sender has, an array
    # pickled by a newer NumPy): the request has failed, its caller must not be left with silence on an open connection
    ('call-undecodable-argument', lambda: ipc.KGRemoteFnCall(KGSym('sq'), [_OnlyTheSenderHasIt()]), lambda t: _fail()),
]
DELIVERIES = ['one-by-one', 'one-by-one split in id', 'one-by-one split in length', 'one-by-one split in body', 'burst']
_CUT = {'one-by-one': 'whole', 'one-by-one split in id': 'in_id', 'one-by-one split in length': 'in_len',
        'one-by-one split in body': 'in_body', 'burst': 'whole'}


class _OnlyTheSenderHasIt:
    def __reduce__(self):
        import importlib
        return (importlib.import_module, ('module_only_the_sender_has',))


def _fail():
    raise RuntimeError('not callable')


class WouldBlockForever(Exception):
    pass


class _Event:
    """threading.Event of a single-threaded execution: waiting for an event nobody has set can never end."""

    def __init__(self, h):
        self.h, self.flag = h, False

    def set(self):
        self.flag = True

    def clear(self):
        self.flag = False

    def is_set(self):
        return self.flag

    def wait(self, timeout=None):
        if not self.flag:
            self.h.blocked = True
            raise WouldBlockForever()
        return True


class SleepyLoop(VLoop):
    """A loop that has run out of ready handles sleeps in its selector: only a transport event, a timer or the self-pipe
    write of call_soon_threadsafe wakes it.  A plain call_soon from another thread's loop appends the handle and wakes
    nobody - the handle then sits in the queue of a sleeping loop (that is why call_soon is not thread-safe)."""

    asleep = False

    def _write_to_self(self):
        self.asleep = False


class Server:
    def __init__(self):
        self.blocked = False
        self.io, self.kl = SleepyLoop(), SleepyLoop()
        ipc.threading = Proxy(_REAL['threading'], Event=lambda: _Event(self))
        self.klong = KlongInterpreter()
        self.klong(PRELUDE)
        self.reader = asyncio.StreamReader(loop=self.io)
        self.writer = FakeWriter()
        self.writer.slow_drain = False
        self.handler = ipc.TcpServerConnectionHandler(self.io, self.kl, self.klong)
        self.io.enter()
        try:
            self.task = self.io.create_task(self.handler.handle_client(self.reader, self.writer))
        finally:
            self.io.leave()
        self.drive()

    def drive(self):
        n = 0
        while any(lp._ready and not lp.asleep for lp in (self.io, self.kl)):
            for lp in (self.io, self.kl):
                if lp._ready and not lp.asleep:
                    lp.enter()
                    try:
                        lp.run_all_ready(limit=5000)
                    finally:
                        lp.leave()
                    lp.asleep = True        # queue drained: back into the selector
            n += 1
            if n > 2000:
                raise runner.HarnessError('C14 server part: the loops do not go quiescent')

    def feed(self, data):
        self.io.asleep = False              # a transport event wakes the io loop
        self.reader.feed_data(data)
        self.drive()

    def stuck_handles(self):
        return [n for n, lp in (('io', self.io), ('klong', self.kl)) if lp._ready and lp.asleep]

    def close(self):
        try:
            for lp in (self.io, self.kl):
                lp.enter()
                try:
                    for t in asyncio.all_tasks(lp):
                        t.cancel()
                    lp.run_all_ready()
                except Exception:       # noqa: BLE001
                    pass
                finally:
                    lp.leave()
                    lp.close()
        finally:
            ipc.threading = _REAL['threading']


def twin_expectations(seq):
    """-> list of ('ok', canonical value | ('fnref', arity)) | ('fails',) per request, on a twin interpreter."""
    t = KlongInterpreter()
    t(PRELUDE)
    out = []
    for ri in seq:
        try:
            v = REQUESTS[ri][2](t)
            out.append(('ok', v if isinstance(v, tuple) and v and v[0] == 'fnref' else cn(v)))
        except Exception:       # noqa: BLE001
            out.append(('fails',))
    return out


def _canon_response(v):
    if isinstance(v, ipc.KGRemoteFnRef):
        return ('fnref', v.arity)
    return cn(v)


def run_case(seq, delivery):
    """-> (observations, violations[(cls, observed, expected, request index)])"""
    import traceback
    saved_tb = traceback.print_exception
    traceback.print_exception = lambda *a, **k: None
    srv = Server()
    bad, obs = [], []
    try:
        exp = twin_expectations(seq)
        ids = [_uuid.UUID(int=500 + i) for i in range(len(seq))]
        msgs = [REQUESTS[ri][1]() for ri in seq]
        fr = [ipc.encode_message(i, m) for i, m in zip(ids, msgs)]
        fed = []
        if delivery == 'burst':
            srv.feed(b''.join(fr))
            fed = list(range(len(seq)))
        else:
            for i, f in enumerate(fr):
                if srv.writer.closing or srv.task.done():
                    break
                for ch in cut_chunks(f, _CUT[delivery]):
                    srv.feed(ch)
                fed.append(i)
        answers = {}
        for mid, msg in frames(srv.writer.buf):
            answers.setdefault(mid, []).append(msg)
        ended = srv.writer.closing
        srv_stuck = srv.stuck_handles()
        for i in fed:
            got = answers.get(ids[i].bytes, [])
            name = REQUESTS[seq[i]][0]
            if len(got) > 1:
                bad.append(('answered-twice', '%d response frames for request %d (%s)' % (len(got), i + 1, name), 'one', i))
            if got:
                g = _canon_response(got[0])
                obs.append((name, 'answer', g))
                if exp[i][0] == 'fails':
                    bad.append(('failed-evaluation-answered', 'request %d (%s) fails on the server but was answered with %s'
                                % (i + 1, name, show(g) if not (isinstance(g, tuple) and g and g[0] == 'fnref') else g),
                                'an error for the caller (the connection ends)', i))
                elif g != exp[i][1]:
                    bad.append(('wrong-answer', 'request %d (%s) answered %r' % (i + 1, name, g), repr(exp[i][1]), i))
            elif ended or srv.task.done():
                obs.append((name, 'connection-ended'))
                if exp[i][0] == 'ok' and not any(exp[j][0] == 'fails' for j in fed if j < i):
                    bad.append(('connection-ended-on-good-request', 'request %d (%s) succeeds on a twin interpreter but the '
                                'server ended the connection' % (i + 1, name), 'an answer', i))
            else:
                obs.append((name, 'silence'))
                why = ' (the server blocks in a wait that nothing can end)' if srv.blocked else ''
                if srv_stuck:
                    why += ' (a handle was queued on the sleeping %s loop without waking it: call_soon from another loop\'s thread)' % '/'.join(srv_stuck)
                bad.append(('request-never-answered', 'request %d (%s): no response frame and the connection stays open%s'
                            % (i + 1, name, why), 'a response, or the connection ends so that the caller raises', i))
        if srv.blocked and not any(b[0] == 'request-never-answered' for b in bad):
            bad.append(('server-blocks-forever', 'the connection handler waits for an event that nothing sets', 'no such wait', len(fed)))
        # the client goes away: the handler must finish
        if not srv.task.done():
            srv.io.asleep = False
            srv.reader.feed_eof()
            srv.drive()
            if not srv.task.done() and not srv.blocked:
                bad.append(('handler-survives-eof', 'handle_client still running after the client closed the connection', 'finished', len(fed)))
        obs.append(('ended' if srv.task.done() else 'open', srv.blocked))
    finally:
        srv.close()
        traceback.print_exception = saved_tb
    return tuple(obs), bad


def cases(quick):
    import itertools
    n = len(REQUESTS)
    seqs = [(i,) for i in range(n)] + list(itertools.product(range(n), repeat=2))
    if not quick:
        seqs += list(itertools.product(range(n), repeat=3))
    return [(s, d) for s in seqs for d in DELIVERIES]


def describe(seq, delivery):
    return 'server: %s | delivery=%s' % (' ; '.join(REQUESTS[i][0] for i in seq), delivery)


def work(chunk):
    logging.disable(logging.CRITICAL)
    out = {'server_runs': 0, 'server_requests': 0, 'violations': [], 'server_outcomes': set()}
    for seq, delivery in chunk:
        obs, bad = run_case(seq, delivery)
        out['server_runs'] += 1
        out['server_requests'] += len(seq)
        out['server_outcomes'].add(hash(obs) & 0xffffffff)
        for cls, observed, expected, i in bad:
            out['violations'].append(dict(key='%s | %s' % (describe(seq, delivery), cls), observed=observed,
                                          expected=expected, group=cls,
                                          case={'kind': 'server', 'seq': list(seq), 'delivery': delivery}))
    return out


def replay(case):
    logging.disable(logging.CRITICAL)
    obs, bad = run_case(tuple(case['seq']), case['delivery'])
    print(describe(tuple(case['seq']), case['delivery']))
    for o in obs:
        print('  ', o)
    for b in bad:
        print('VIOLATED', b[:3])
    return 0

"""C15 - timers tick once per interval until stopped, and stop for good.

E3: the real eval_sys_fn_timer / _call_periodic / KGTimerHandler / eval_sys_fn_cancel_timer / KGFnWrapper run on a
virtual-time asyncio loop with Klong callbacks.  A scenario fixes interval, start time, a per-tick callback script
(duration, return value, action) and optional external cancellations / a second timer; the environment chooses the
dispatch instant of every due timer handle (on the deadline / within clock resolution before it / late by 0.4 I /
late by 1.7 I); all runs with at most `bound` non-default choices are explored and compared with a small timer model.
"""
import itertools
import json
import math

from klongpy import KlongInterpreter

from .. import runner
from ..vloop import VLoop, explore_choices

RES = 1e-9
DURS = [0.0, 0.4, 1.0, 1.5, 2.5]                 # callback duration in units of the interval
LAT = ['on-time', 'early(res/2)', 'late 0.4I', 'late 1.7I']
DEFAULT_ENTRY = (0.0, 1, 'none')


def scenarios(quick):
    out = []
    nonterm = [(d, 1, a) for d in DURS for a in ('none', 'redefine')]
    term = ([(d, 0, a) for d in DURS for a in ('none', 'redefine')] + [(d, r, 'cancel_self') for d in DURS for r in (1, 0)]
            + [(d, 1, 'raise') for d in DURS])
    entries = nonterm + term
    scripts = [(e,) for e in entries] + [(a, b) for a in nonterm for b in entries]
    scripts3 = [(a, b, c) for a in nonterm for b in nonterm for c in entries]
    starts = [0.0, 0.3, 1e9 + 0.1]
    for I in (1, 2, 5):
        for s0 in starts:
            for sc in scripts:
                out.append({'fam': 'A', 'I': I, 's0': s0, 'script': sc, 'bound': 1 if quick else 2})
            if not quick:
                for sc in scripts3:
                    out.append({'fam': 'A3', 'I': I, 's0': s0, 'script': sc, 'bound': 1})
    # interval 0: "every loop iteration"; only the stop / cancel clauses apply
    e0 = [(0.0, 1, 'none'), (0.0, 1, 'redefine'), (0.0, 0, 'none'), (0.0, 1, 'cancel_self'), (0.0, 0, 'cancel_self'), (0.0, 1, 'raise')]
    for sc in [(e,) for e in e0] + [(a, b) for a in e0[:2] for b in e0] + [(a, b, c) for a in e0[:2] for b in e0[:2] for c in e0]:
        out.append({'fam': 'Z', 'I': 0, 's0': 0.0, 'script': sc, 'bound': 0})
    # external cancellation: before the n-th dispatch / right after the n-th tick; a second cancel must report 0
    for I in (1, 2):
        for s0 in (0.0, 0.3):
            for d in (0.0, 1.5):
                for n in (1, 2, 3):
                    for phase in ('pre', 'post'):
                        out.append({'fam': 'X', 'I': I, 's0': s0, 'script': ((d, 1, 'none'),) * 3, 'ext': (n, phase),
                                    'bound': 1 if quick else 2})
            for stop in ((0.0, 0, 'none'), (0.0, 1, 'cancel_self'), (0.0, 1, 'raise')):
                out.append({'fam': 'X', 'I': I, 's0': s0, 'script': ((0.0, 1, 'none'), stop), 'ext': (3, 'pre'),
                            'bound': 1 if quick else 2})
    # two timers: the first cancels the second from inside its callback
    for I2 in (1, 2):
        for n in (0, 1):
            sc = ((0.0, 1, 'none'),) * n + ((0.0, 1, 'cancel_other'),)
            out.append({'fam': 'D', 'I': 1, 's0': 0.0, 'script': sc, 'I2': I2, 'bound': 1 if quick else 2})
        out.append({'fam': 'D', 'I': 1, 's0': 0.0, 'script': ((0.0, 1, 'none'),), 'I2': I2, 'script2': ((0.0, 1, 'raise'),),
                    'bound': 1})
    # the named callback is redefined by the program between ticks (before the n-th dispatch; n = 1: before the first tick)
    for I in (1, 2):
        for when in ((1,), (2,), (1, 2), (1, 3)):
            out.append({'fam': 'E', 'I': I, 's0': 0.0, 'script': ((0.0, 1, 'none'),) * 3, 'extredef': when, 'bound': 1})
    # a callback whose result has no truth value (a list of two elements), or that fails with an exception that is no
    # Exception (CancelledError), fails like a raising one
    for I in (1, 2):
        for sc in (((0.0, 1, 'retlist'),), ((0.0, 1, 'none'), (0.0, 1, 'retlist')),
                   ((0.0, 1, 'raisebase'),), ((0.0, 1, 'none'), (0.0, 1, 'raisebase')), ((1.5, 1, 'raisebase'),)):
            out.append({'fam': 'R', 'I': I, 's0': 0.0, 'script': sc, 'bound': 1})
            out.append({'fam': 'R', 'I': I, 's0': 0.0, 'script': sc, 'ext': (len(sc) + 1, 'pre'), 'bound': 1})
    for I2 in (1, 2):
        out.append({'fam': 'D', 'I': 1, 's0': 0.0, 'script': ((0.0, 1, 'none'),), 'I2': I2, 'script2': ((0.0, 1, 'raisebase'),),
                    'bound': 1})
    # the callback is passed under a second name of the same function (al::cb; .timer(..;al)) and that name is redefined
    for I in (1, 2):
        for sc in (((0.0, 1, 'redefine'), (0.0, 1, 'none')), ((0.0, 1, 'none'), (0.0, 1, 'redefine'), (0.0, 1, 'none'))):
            out.append({'fam': 'L', 'I': I, 's0': 0.0, 'script': sc, 'alias': True, 'bound': 1})
    return out


class TimerModel:
    """Reference model of one timer (DESIGN Appendix C)."""

    def __init__(self, I, s0):
        self.I, self.s0 = I, s0
        self.live = True
        self.k_last = 0
        self.busy = False
        self.raised = False         # after a raising callback nothing is prescribed except "no resurrection"
        self.version = 'v1'
        self.expect_k = {1}         # boundaries the next tick may be scheduled for

    def tol(self, t):
        return max(RES, 4 * math.ulp(max(abs(t), abs(self.s0), 1.0)))


class Run:
    """One execution of a scenario under one sequence of environment choices."""

    def __init__(self, kl, sc, prefix):
        self.kl, self.sc, self.prefix = kl, sc, list(prefix)
        self.counts = []
        self.bad = []
        self.log = []
        self.ntick = {'t': 0, 'u': 0}

    def choose(self, n):
        i = len(self.counts)
        self.counts.append(n)
        c = self.prefix[i] if i < len(self.prefix) else 0
        if c >= n:
            raise runner.HarnessError('C15 replay diverged at choice %d' % i)
        return c

    def violation(self, cls, msg):
        self.bad.append((cls, msg))

    # -- callback bodies ----------------------------------------------------------------------
    def on_tick(self, name, version):
        sc, loop = self.sc, self.loop
        m = self.models[name]
        t = loop.time()
        i = self.ntick[name]
        self.ntick[name] += 1
        script = sc['script'] if name == 't' else sc.get('script2', ())
        dur, ret, action = script[i] if i < len(script) else DEFAULT_ENTRY
        self.log.append((name, version, round(t - sc['s0'], 9) if sc['s0'] < 1e6 else round(t - sc['s0'], 3)))
        if m.busy:
            self.violation('overlap', 'timer %s ticked while its callback was still active' % name)
        if not m.live:
            self.violation('tick-after-stop', 'timer %s ticked at +%.4g after it %s' % (name, t - m.s0, m.why))
        if version != m.version and not m.raised:
            self.violation('stale-callback', 'tick ran %s, current definition is %s' % (version, m.version))
        if m.I > 0 and m.live:
            k = math.floor((t - m.s0 + m.tol(t)) / m.I)
            if k < 1:
                self.violation('before-boundary', 'tick at +%.9g before the first boundary' % (t - m.s0))
            elif k <= m.k_last:
                self.violation('same-boundary-twice', 'boundary %d served again at +%.9g' % (k, t - m.s0))
            m.k_last = max(m.k_last, k)
        m.busy = True
        loop.advance(dur * max(m.I, 1))
        try:
            if action == 'cancel_self':
                r = self.kl('.timerc(th)') if name == 't' else self.kl('.timerc(uh)')
                exp = 1 if m.live else 0
                if r != exp:
                    self.violation('timerc-result', '.timerc from inside the callback returned %r, expected %d' % (r, exp))
                if m.live:
                    m.live, m.why = False, 'was cancelled from inside its callback (.timerc returned %r)' % (r,)
            elif action == 'cancel_other':
                mo = self.models['u']
                pend = self.pending(self.kl('uh'))
                r = self.kl('.timerc(uh)')
                # after a raising callback the statement does not say whether the timer lives on; whichever the
                # implementation chose, .timerc must report it: 1 exactly when a tick was still scheduled
                exp = (1 if pend else 0) if mo.raised else (1 if mo.live else 0)
                if r != exp:
                    self.violation('timerc-result', '.timerc(other) returned %r, expected %d' % (r, exp))
                mo.live, mo.why = False, 'was cancelled by the other timer'
            elif action == 'redefine':
                nv = 'v2' if m.version == 'v1' else 'v1'
                cbname = ('al' if self.sc.get('alias') else 'cb') if name == 't' else 'cb2'
                self.kl('%s::{%s%s()}' % (cbname, 'tick' if name == 't' else 'tock', '2' if nv == 'v2' else ''))
                m.version = nv
            elif action in ('raise', 'retlist', 'raisebase'):
                m.raised = True
                if m.live:
                    m.live, m.why = False, 'raised'        # a dead-or-alive timer: only "no resurrection" is checked
                    m.raise_free = True
                if action == 'retlist':
                    import numpy as _np
                    return _np.array([1, 2])        # no truth value: the timer code fails on it like on an exception
                if action == 'raisebase':
                    import asyncio as _asyncio
                    # a failure that is no Exception (a Python callback waiting on a cancelled future; .x() raises SystemExit)
                    raise _asyncio.CancelledError('callback failure injected by the harness')
                raise KeyError('callback failure injected by the harness')    # the class the function wrapper itself catches around its name lookup
        finally:
            m.busy = False
            self.t_end = loop.time()
        if not ret and m.live:
            m.live, m.why = False, 'returned false'
        return ret

    # -- the run ---------------------------------------------------------------------------------
    def go(self):
        sc = self.sc
        kl = self.kl
        I, s0 = sc['I'], sc['s0']
        loop = self.loop = VLoop(start=s0, resolution=RES)
        loop.enter()
        try:
            kl['.system'] = {'klongloop': loop}
            kl['tick'] = lambda: self.on_tick('t', 'v1')
            kl['tick2'] = lambda: self.on_tick('t', 'v2')
            kl['tock'] = lambda: self.on_tick('u', 'v1')
            kl['tock2'] = lambda: self.on_tick('u', 'v2')
            kl('cb::{tick()}')
            kl('cb2::{tock()}')
            self.models = {'t': TimerModel(I, s0)}
            if sc.get('alias'):
                kl('al::cb')
                th = kl('th::.timer("t";%d;al)' % I)
            else:
                th = kl('th::.timer("t";%d;cb)' % I)
            handles = {'t': th}
            if 'I2' in sc:
                self.models['u'] = TimerModel(sc['I2'], s0)
                handles['u'] = kl('uh::.timer("u";%d;cb2)' % sc['I2'])
            ext = sc.get('ext')
            dispatches = 0
            need = max(len(sc['script']), len(sc.get('script2', ()))) + 3
            steps = 0
            batch = 0
            extredef = set(sc.get('extredef', ()))
            while steps < 60:
                steps += 1
                if loop._ready:
                    h = loop._ready[0]
                else:
                    h = loop.next_timer()
                    if h is None:
                        break
                which = next((n for n, th_ in handles.items() if th_.delegate is h), None)
                if which is None and not loop._ready:
                    # a stale handle of a timer whose KGTimerHandler no longer refers to it: still a pending tick
                    which = '?'
                if dispatches >= need:
                    break
                if dispatches + 1 in extredef:
                    extredef.discard(dispatches + 1)
                    m = self.models['t']
                    nv = 'v2' if m.version == 'v1' else 'v1'
                    kl('cb::{tick%s()}' % ('2' if nv == 'v2' else ''))
                    m.version = nv
                    self.log.append(('ext-redefine', nv))
                if ext and ext[1] == 'pre' and dispatches + 1 == ext[0]:
                    self.external_cancel()
                    ext = None
                    continue
                tick_before = dict(self.ntick)
                # one loop iteration = every handle that is ready or due when it starts, as in BaseEventLoop._run_once:
                # a handle queued while it runs (call_soon, call_soon_threadsafe) waits for the next iteration
                if loop._ready:
                    if batch <= 0:
                        batch = loop.collect_due_timers()
                    loop.run_one_ready()
                else:
                    m = self.models.get(which)
                    Iw = (m.I if m else I) or 1
                    c = self.choose(4)
                    at = h.when() + [0.0, -RES / 2, 0.4 * Iw, 1.7 * Iw][c]
                    batch = loop.collect_due_timers(at)
                    if not batch:
                        # clock values so large that at + resolution == at: the loop dispatches on a later look at the clock
                        loop.fire_next_timer(at)
                        batch = 1
                    loop.run_one_ready()
                batch -= 1
                dispatches += 1
                ticked = [n for n in self.ntick if self.ntick[n] > tick_before[n]]
                if ticked:
                    self.after_tick(handles, ticked)
                if ext and ext[1] == 'post' and dispatches == ext[0]:
                    self.external_cancel()
                    ext = None
            if ext is not None and ext[1] == 'pre':
                self.external_cancel()
            # end of horizon: a live timer must still have a pending tick
            for n, m in self.models.items():
                if m.live and not self.pending(handles[n]):
                    self.violation('timer-died', 'timer %s is live (callback keeps returning true, never cancelled) but has no pending tick' % n)
        finally:
            loop.leave()
            loop.close()
        obs = (tuple(self.log), tuple(sorted(set(self.bad))))
        return obs

    def pending(self, th):
        d = th.delegate
        return d is not None and not d.cancelled() and (d in self.loop._ready or d in self.loop._scheduled)

    def external_cancel(self):
        m = self.models['t']
        pend = self.pending(self.kl('th'))
        r = self.kl('.timerc(th)')
        if not m.raised:
            exp = 1 if m.live else 0
            if r != exp:
                self.violation('timerc-result', 'external .timerc returned %r, expected %d (%s)' % (
                    r, exp, 'timer live' if m.live else 'timer already ' + getattr(m, 'why', 'stopped')))
        elif r != (1 if pend else 0):
            # the statement leaves open whether a timer survives a raising callback, not what .timerc reports:
            # "1 exactly when it stopped a live timer" - live = a tick was still scheduled
            self.violation('timerc-result', 'external .timerc after a raising callback returned %r although %s' % (
                r, 'a tick was still scheduled' if pend else 'no tick was scheduled any more (the timer was dead)'))
        if m.live:
            m.live, m.why = False, 'was cancelled externally (.timerc returned %r)' % (r,)
        elif m.raised:
            m.why = 'raised and was then cancelled'
        r2 = self.kl('.timerc(th)')
        if r2 != 0:
            self.violation('timerc-result', 'second .timerc returned %r, expected 0' % (r2,))
        self.log.append(('ext-cancel', r, r2))

    def after_tick(self, handles, ticked):
        """After a tick has returned into the timer code: where is the next tick scheduled?"""
        for n, m in self.models.items():
            if n not in ticked:
                continue
            th = handles[n]
            if not m.live or m.I == 0 or m.raised:
                continue
            d = th.delegate
            if d is None or d.cancelled() or d not in self.loop._scheduled:
                continue            # reported at the horizon as timer-died if it stays that way
            if getattr(m, 'checked_handle', None) is d:
                continue
            m.checked_handle = d
            when = d.when()
            te = self.loop.time()
            tol = m.tol(te)
            j = (te - m.s0) / m.I
            J = round(j)
            if abs(te - (m.s0 + J * m.I)) <= tol:
                allowed = {J + 1} | ({J} if J > m.k_last else set())
            else:
                allowed = {math.floor(j) + 1}
            allowed = {a for a in allowed if a > m.k_last} or {m.k_last + 1}
            k = (when - m.s0) / m.I
            K = round(k)
            if abs(when - (m.s0 + K * m.I)) > tol * 4 or K not in allowed:
                self.violation('wrong-next-boundary',
                               'after a tick ending at +%.9g (last served boundary %d) the next tick is scheduled for +%.9g, expected boundary %s'
                               % (te - m.s0, m.k_last, when - m.s0, sorted(allowed)))


def describe(sc):
    def ent(e):
        return '(dur=%gI ret=%d %s)' % e
    s = 'I=%d start=%r script=%s' % (sc['I'], sc['s0'], ' '.join(ent(e) for e in sc['script']))
    if sc.get('alias'):
        s += ' callback passed under its second name (al::cb; .timer(..;al); redefinitions go to al)'
    if 'ext' in sc:
        s += ' ext-cancel=%s#%d' % (sc['ext'][1], sc['ext'][0])
    if 'extredef' in sc:
        s += ' cb redefined by the program before dispatch %s' % ','.join('#%d' % n for n in sc['extredef'])
    if 'I2' in sc:
        s += ' second-timer I=%d' % sc['I2']
        if 'script2' in sc:
            s += ' script2=%s' % ' '.join(ent(e) for e in sc['script2'])
    return s


_KL = {}


def interp():
    import os
    # a fresh interpreter per run: re-assigning a Python callable to an existing name stores it unwrapped
    # (KlongContext.__setitem__ only wraps on creation), so interpreters cannot be reused across runs
    return KlongInterpreter()


def run_scenario(sc):
    out = {'runs': 0, 'ticks': 0, 'violations': [], 'outcomes': set(), 'choice_points': 0, 'by_dev': {}}
    kl = interp()
    seen = set()

    def once(prefix):
        r = Run(interp(), sc, prefix)
        obs = r.go()
        return (obs, r), r.counts

    for prefix, (obs, r) in explore_choices(once, sc['bound']):
        out['runs'] += 1
        out['ticks'] += len(r.log)
        out['choice_points'] += len(r.counts)
        dev = str(sum(1 for c in prefix if c))
        out['by_dev'][dev] = out['by_dev'].get(dev, 0) + 1
        out['outcomes'].add(hash(obs) & 0xffffffff)
        for cls, msg in sorted(set(r.bad)):
            key = '%s | dispatch=%s | %s' % (describe(sc), ','.join(LAT[c] for c in prefix) or 'all on time', cls)
            if (key, msg) in seen:
                continue
            seen.add((key, msg))
            # replay: the same choices must give the same observation
            obs2 = Run(interp(), sc, prefix).go()
            if obs2 != obs:
                raise runner.HarnessError('C15 run not reproducible: %s %s' % (describe(sc), prefix))
            out['violations'].append(dict(key=key, observed=msg, expected='timer model (see DESIGN Appendix C)', group=cls,
                                          case={'scenario': _jsonable(sc), 'choices': prefix,
                                                'log': [list(x) for x in r.log]}))
    return out


def _jsonable(sc):
    d = dict(sc)
    d['script'] = [list(e) for e in sc['script']]
    if 'script2' in d:
        d['script2'] = [list(e) for e in sc['script2']]
    if 'ext' in d:
        d['ext'] = list(d['ext'])
    return d


def _from_json(d):
    sc = dict(d)
    sc['script'] = tuple(tuple(e) for e in d['script'])
    if 'script2' in sc:
        sc['script2'] = tuple(tuple(e) for e in d['script2'])
    if 'ext' in sc:
        sc['ext'] = tuple(sc['ext'])
    return sc


def run(cfg):
    rep = runner.Report('C15', 'model_checking')
    scs = scenarios(cfg.quick)

    def work(chunk):
        t = {}
        for sc in chunk:
            runner.merge_counts(t, run_scenario(sc))
        return t

    total = {}
    for part in runner.pmap(work, scs, cfg):
        runner.merge_counts(total, part)
    rep.extend_violations(total.get('violations', []))
    rep.coverage = {
        'states': len(total.get('outcomes', ())),
        'transitions': total.get('ticks', 0),
        'traces_validated_against_impl': total.get('runs', 0),
        'samples': [describe(s) for s in (scs[0], scs[40], scs[len(scs) // 2], scs[-1])],
        'exhaustive': True,
        'scenarios': len(scs),
        'runs_by_deviations': total.get('by_dev', {}),
        'environment_choice_points': total.get('choice_points', 0),
        'distinct_outcomes': len(total.get('outcomes', ())),
        'bound_completed': {'A': cfg.pick(1, 2), 'A3': None if cfg.quick else 1},
        'rule': 'scenarios = interval x start x callback script (duration, return, action per tick) [+ external cancel '
                '| second timer]; for each, every sequence of dispatch-latency choices with at most `bound` non-default '
                'choices; states = distinct (tick log, verdict) observations; transitions = callback invocations; '
                'every run executes the real timer code on the virtual loop',
    }
    rep.assumptions = [
        'asyncio loop semantics as implemented by BaseEventLoop (call_at / call_later / call_soon handles, a timer may be '
        'dispatched up to clock_resolution = 1e-9 s before its deadline)',
        'a boundary reached at the very instant the callback returns may or may not count as missed (both accepted)',
        'after a callback raises, it is not prescribed whether the timer lives on; a cancelled timer is not resurrected and .timerc must return 1 exactly when a tick was still scheduled',
        'interval 0 = every loop iteration; only the stop / cancel clauses apply',
    ]
    return rep


def replay(cfg, path):
    with open(path) as f:
        r = json.load(f)
    sc = _from_json(r['case']['scenario'])
    run_ = Run(interp(), sc, r['case']['choices'])
    obs = run_.go()
    print(describe(sc))
    print('dispatch choices:', [LAT[c] for c in r['case']['choices']])
    for e in run_.log:
        print('  ', e)
    for b in sorted(set(run_.bad)):
        print('VIOLATED', b)
    return 0

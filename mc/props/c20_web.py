"""C20 -- web routes and websocket messages reach their Klong handler exactly once, intact.

Engine E1, degenerate form: the exhaustive dimension is (route table) x (request history), every operation is issued
and awaited sequentially against the REAL implementation:

  * `.web` servers (klongpy/web/sys_fn_web.py on the installed aiohttp) on loopback ports, on the io loop of a
    `create_repl()`; requests come from an in-process aiohttp client session living on a separate harness loop;
  * the real `.ws` client (klongpy/ws/sys_fn_ws.py NetworkClient) connected to a local `websockets` server of the
    harness which pushes message sequences / collects what the client sends.

Every history runs against a FRESH interpreter and a FRESH server (E1: a state is the history that reaches it); only
the two event-loop threads of create_repl() and the harness loop are reused inside one forked worker.  Nothing that owns
a thread or a loop is ever created in the parent process.

Reference model (plain Python, `Model`): the route table as a dict (method, path) -> route.
  registered route      -> 200, body = text of the handler's result, log grows by exactly [route-id, params]
  registered + raising  -> 400 (body not specified), log grows by exactly that entry (the handler logs, then fails);
                           the next request is judged on its own
  unknown path          -> 404, log unchanged
  wrong method on path  -> not 200 (aiohttp answers 405; the property only says no handler is reached), log unchanged
  redefinition of a NAMED handler -> later requests of its route use the new definition (text and log id change);
                           anonymous handlers and other routes are unaffected
  `.webc(wh)`           -> returns 1 and the next request gets no answer (connection-level failure)
Websocket: the log of `.ws.m` invocations (x = the connection, y = message) equals the sequence of json.loads(message),
each once, in order; a Klong value sent through the connection arrives as a text frame whose JSON decoding equals the
value; a message echoed by the handler through x arrives back unchanged.
"""
import asyncio
import itertools
import json
import logging
import os
import queue
import socket
import threading
import time
import warnings

from mc import runner

PID = 'C20'
DEADLINE = 10.0            # every wait on real sockets / loops is bounded by this (seconds)
CASE_WATCHDOG = 25.0       # SIGALRM safety net around one history
MAX_TIMEOUT_VIOLATIONS = 3  # reproducible hangs reported per worker process before it abandons its remaining cases

# ---------------------------------------------------------------------------------------------
# universe: routes, parameter dictionaries


class Route:
    def __init__(self, rid, key, method, path, name, res_src, text):
        self.rid, self.key, self.method, self.path, self.name = rid, key, method, path, name
        self.res_src = res_src          # Klong source of the result expression of the v1 handler
        self.text = text                # params -> expected body text of the v1 handler


ROUTES = (
    Route(1, 'g1', 'GET', '/g1', 'g1', '"G1"', lambda p: 'G1'),
    Route(2, 'g2', 'GET', '/g2', None, 'x?"k"', lambda p: p.get('k', ':undefined')),     # anonymous, echoes a parameter
    Route(3, 'g3', 'GET', '/g3/sub', 'g3', '33', lambda p: '33'),                        # integer result, 2-segment path
    Route(4, 'p1', 'POST', '/p1', 'p1', '"P1"', lambda p: 'P1'),
    Route(5, 'p2', 'POST', '/p2', None, '"Pé2 ✓"', lambda p: 'Pé2 ✓'),   # anonymous, non-ASCII body
    Route(6, 'p3', 'POST', '/g1', 'p3', '"P3"', lambda p: 'P3'),                         # same path as g1, other method
)
BY_KEY = {r.key: r for r in ROUTES}

PARAMS = (
    ('empty', {}),
    ('one', {'k': 'v'}),
    ('three', {'a': '1', 'b': '2', 'c': '3'}),
    ('nonascii', {'k': 'héllo ✓'}),
    ('urlenc', {'k': 'a b&c=d'}),
    ('blank', {'k': '', 'e': 'x'}),                     # a parameter with an empty value is still a parameter
    ('percent', {'k': '100%25', 'p': '%41+%2B'}),       # values that look encoded themselves: decoded exactly once
)
P_ONE = 1

QUICK_TABLES = ((), ('g1',), ('p1',), ('g1', 'p3'), ('g2', 'p2'), ('g1', 'g2', 'g3'), ('p1', 'p2', 'p3'),
                ('g1', 'g2', 'g3', 'p1', 'p2', 'p3'))


def all_tables():
    keys = [r.key for r in ROUTES]
    out = []
    for mask in range(64):
        out.append(tuple(k for i, k in enumerate(keys) if mask >> i & 1))
    return out


def raising_route(table):
    """One handler per table raises: chosen by a fixed rule so that every route is the raising one in some table."""
    if not table:
        return None
    mask = sum(1 << [r.key for r in ROUTES].index(k) for k in table)
    return table[mask % len(table)]


def table_name(table):
    return 'T[%s|raises=%s]' % (','.join(table), raising_route(table) or '-')


def handler_src(route, variant):
    """Klong source of a handler.  variant: v1 | raise | good2 | bad2 (the last two are redefinitions)."""
    rid = route.rid if variant in ('v1', 'raise') else 100 + route.rid
    if variant == 'raise':
        res = '1+"a"'                   # TypeError
    elif variant == 'bad2':
        res = ':{[1 2]}@5'              # KeyError: the class the function wrapper uses itself for "name was deleted"
    elif variant == 'v1':
        res = route.res_src
    else:
        res = '"%sv2"' % route.key
    return '{log::log,,(%d,,x);%s}' % (rid, res)


def setup_lines(table):
    """Klong program text that defines the handlers and the two route dictionaries of a table."""
    bad = raising_route(table)
    lines = ['log::[]']
    for r in ROUTES:
        if r.name is not None:                      # all named handlers exist; only those of the table are registered
            lines.append('%s::%s' % (r.name, handler_src(r, 'raise' if r.key == bad else 'v1')))
    lines.append('get:::{}')
    lines.append('post:::{}')
    for k in table:
        r = BY_KEY[k]
        d = 'get' if r.method == 'GET' else 'post'
        fn = r.name if r.name is not None else handler_src(r, 'raise' if r.key == bad else 'v1')
        lines.append('%s,"%s",%s' % (d, r.path, fn))
    return lines


# ---------------------------------------------------------------------------------------------
# reference model


class Model:
    def __init__(self, table):
        self.table = tuple(table)
        self.bad = raising_route(table)
        self.ver = {k: ('raise' if k == self.bad else 'v1') for k in table}
        self.up = True

    def classify(self, method, path):
        for k in self.table:
            r = BY_KEY[k]
            if r.method == method and r.path == path:
                return 'route', r
        if any(BY_KEY[k].path == path for k in self.table):
            return 'wrong_method', None
        return 'unknown', None

    def request(self, method, path, params):
        """-> (accepted statuses, body or None when unspecified, list of log entries the request must add)"""
        kind, r = self.classify(method, path)
        if kind == 'unknown':
            return (404,), None, []
        if kind == 'wrong_method':
            return tuple(s for s in range(400, 500)), None, []
        v = self.ver[r.key]
        rid = r.rid if v in ('v1', 'raise') else 100 + r.rid
        if v in ('raise', 'bad2'):
            return (400,), None, [(rid, dict(params))]
        body = r.text(params) if v == 'v1' else r.key + 'v2'
        return (200,), body, [(rid, dict(params))]

    def redefine(self, key, variant):
        if key in self.ver and BY_KEY[key].name is not None:
            self.ver[key] = variant


def selftest():
    """The reference's own example (.web docstring): get,"/",{x;"hello, world!"} answers GET / with that text; plus the
    rules stated in the property, on a hand-made table."""
    m = Model(('g1', 'g2', 'p3'))
    assert m.bad == 'p3'
    good = [k for k in m.table if k != m.bad]
    for k in good:
        r = BY_KEY[k]
        st, body, log = m.request(r.method, r.path, {'k': 'a b&c=d'})
        assert st == (200,) and log == [(r.rid, {'k': 'a b&c=d'})]
        assert body == ('a b&c=d' if k == 'g2' else r.key.upper())
    r = BY_KEY[m.bad]
    assert m.request(r.method, r.path, {}) == ((400,), None, [(r.rid, {})])
    assert m.request('GET', '/nope', {}) == ((404,), None, [])
    assert m.request('GET', '/p1', {}) == ((404,), None, [])            # p1 exists as a function but is not registered
    st, body, log = m.request('POST', '/g2', {})
    assert 405 in st and 200 not in st and log == []
    m.redefine(m.bad, 'good2')
    assert m.request(r.method, r.path, {'k': 'v'}) == ((200,), r.key + 'v2', [(100 + r.rid, {'k': 'v'})])
    m.redefine('g2', 'good2')                                           # anonymous: nothing to redefine
    assert m.request('GET', '/g2', {})[1] == ':undefined'
    assert jc(json.loads('[1, {"a": [true, null]}]')) == jc([1.0, {'a': [True, None]}])
    assert jc(1) != jc(True) and jc('1') != jc(1)
    assert len(all_tables()) == 64 and len(set(all_tables())) == 64
    assert {raising_route(t) for t in all_tables() if t} == set(BY_KEY)
    return 'C20 route-table model: 12 example requests, JSON canonical form, 64 tables'


# ---------------------------------------------------------------------------------------------
# alphabets and histories (pure data, built in the parent)
#
# operation forms:  ('req', method, path, param_index) | ('redef', key, 'good2'|'bad2') | ('webc', method, path, pidx)
# ('webc', ...) = `.webc(wh)` followed by that request, judged as one step.

def bad_requests(table):
    m = Model(table)
    out = []
    for meth in ('GET', 'POST'):                    # wrong method on a registered path (first such path per method)
        other = 'POST' if meth == 'GET' else 'GET'
        for k in table:
            r = BY_KEY[k]
            if r.method == meth and m.classify(other, r.path)[0] == 'wrong_method':
                out.append(('req', other, r.path, P_ONE))
                break
    out.append(('req', 'GET', '/nope', P_ONE))      # never registered anywhere
    out.append(('req', 'POST', '/nope', P_ONE))
    for r in ROUTES:                                # a route of the universe that this table does not register
        if r.key not in table and m.classify(r.method, r.path)[0] == 'unknown':
            out.append(('req', r.method, r.path, P_ONE))
            break
    return out


def full_alphabet(table):
    out = []
    for k in table:
        r = BY_KEY[k]
        for pi in range(len(PARAMS)):
            out.append(('req', r.method, r.path, pi))
    return out + bad_requests(table)


def core_alphabet(table):
    return [('req', BY_KEY[k].method, BY_KEY[k].path, P_ONE) for k in table] + bad_requests(table)


def histories(table, quick):
    full, core = full_alphabet(table), core_alphabet(table)
    hs = []
    hs.extend((a,) for a in full)
    hs.extend(itertools.product(full, full))
    bad = raising_route(table)
    if not quick:
        hs.extend(itertools.product(core, core, core))
        # length 4 over one representative per request kind (good / raising / wrong method / unknown): longer runs of
        # failures followed by a good request
        reps = [('req', BY_KEY[k].method, BY_KEY[k].path, P_ONE) for k in table if k != bad][:1]
        if bad is not None:
            reps.append(('req', BY_KEY[bad].method, BY_KEY[bad].path, P_ONE))
        reps += bad_requests(table)[:2]
        hs.extend(itertools.product(reps, repeat=4))
    named = [k for k in table if BY_KEY[k].name is not None]
    for k in named:
        r = BY_KEY[k]
        own = ('req', r.method, r.path, P_ONE)
        firsts = [own]
        if bad is not None and bad != k:
            firsts.append(('req', BY_KEY[bad].method, BY_KEY[bad].path, P_ONE))
        for variant in ('good2', 'bad2'):
            rd = ('redef', k, variant)
            hs.append((rd, own))
            for a in firsts:
                for b in core:
                    hs.append((a, rd, b))
            if not quick:
                hs.append((rd, own, own))
                hs.append((rd, ('redef', k, 'good2' if variant == 'bad2' else 'bad2'), own))
    first = core[0]
    unknown = ('req', 'GET', '/nope', P_ONE)
    for tgt in dict.fromkeys((first, unknown)):
        hs.append((('webc',) + tgt[1:],))
    hs.append((first, ('webc',) + first[1:]))
    return list(dict.fromkeys(hs))


def op_str(op):
    if op[0] == 'redef':
        return 'redefine %s:=%s' % (BY_KEY[op[1]].name, handler_src(BY_KEY[op[1]], op[2]))
    s = '%s %s %s' % (op[1], op[2], json.dumps(PARAMS[op[3]][1], ensure_ascii=False, sort_keys=True))
    return ('.webc(wh) then ' + s) if op[0] == 'webc' else s


def hist_key(table, ops):
    return table_name(table) + ' ' + ' ; '.join(op_str(o) for o in ops)


# ---------------------------------------------------------------------------------------------
# canonical form of JSON-like values as they appear on the Klong side

def jc(v):
    import numpy as np
    if v is None or type(v).__name__ == 'KGUndefined':      # Klong has no null: None and :undefined are both accepted
        return ('z',)
    if isinstance(v, (bool, np.bool_)):
        return ('b', bool(v))
    if isinstance(v, (int, float, np.integer, np.floating)):
        return ('n', float(v))
    if isinstance(v, str):
        return ('s', str(v))
    if isinstance(v, dict):
        return ('d', tuple(sorted((str(k), jc(x)) for k, x in v.items())))
    if isinstance(v, np.ndarray):
        return ('l', tuple(jc(x) for x in (v.tolist() if v.dtype != object else list(v))))
    if isinstance(v, (list, tuple)):
        return ('l', tuple(jc(x) for x in v))
    return ('?', type(v).__name__)


def js(v):
    """short printable form of a canonical value"""
    t = v[0]
    if t == 'z':
        return 'null'
    if t == 'b':
        return 'true' if v[1] else 'false'
    if t == 'n':
        return repr(int(v[1])) if v[1] == int(v[1]) else repr(v[1])
    if t == 's':
        return json.dumps(v[1], ensure_ascii=False)
    if t == 'l':
        return '[' + ','.join(js(x) for x in v[1]) + ']'
    if t == 'd':
        return '{' + ','.join('%s:%s' % (json.dumps(k, ensure_ascii=False), js(x)) for k, x in v[1]) + '}'
    return '<%s>' % v[1]


# ---------------------------------------------------------------------------------------------
# live machinery (exists only inside forked workers / the replay process)

class WaitTimeout(Exception):
    pass


class Live:
    def __init__(self):
        warnings.simplefilter('ignore')
        logging.disable(logging.CRITICAL)
        from klongpy.repl import create_repl
        from klongpy.core import KGSym
        self.KGSym = KGSym
        self.tmpl, self.loops = create_repl()
        self.tmpl('.py("klongpy.web")')                 # the documented way of loading; done once per worker, the
        self.tmpl('.py("klongpy.ws")')                  # system functions are handed to each fresh interpreter below
        self.sysfns = {}
        for name in ('.web', '.webc', '.ws', '.wsc'):
            self.sysfns[name] = self.tmpl._context[KGSym(name)]
        self.addr = '127.%d.%d.1' % (20 + os.getpid() // 250 % 200, 1 + os.getpid() % 250)   # own loopback address
        try:
            s = socket.socket()
            s.bind((self.addr, 0))
            s.close()
        except OSError:
            self.addr = '127.0.0.1'
        self.hloop = asyncio.new_event_loop()
        self.hthread = threading.Thread(target=self._run_hloop, daemon=True)
        self.hthread.start()
        self.ws_conns = queue.Queue()
        self.ws_server = None
        self.ws_port = None
        self.port_retries = 0

    def _run_hloop(self):
        asyncio.set_event_loop(self.hloop)
        self.hloop.run_forever()

    # -- generic helpers
    def on_hloop(self, coro, timeout=DEADLINE):
        fut = asyncio.run_coroutine_threadsafe(coro, self.hloop)
        try:
            return fut.result(timeout)
        except (TimeoutError, asyncio.TimeoutError):
            fut.cancel()
            raise WaitTimeout('harness-loop wait')

    def on_ioloop(self, coro, timeout=DEADLINE):
        fut = asyncio.run_coroutine_threadsafe(coro, self.loops[0])
        try:
            return fut.result(timeout)
        except (TimeoutError, asyncio.TimeoutError):
            fut.cancel()
            raise WaitTimeout('io-loop wait')

    def interpreter(self):
        from klongpy import KlongInterpreter
        from klongpy.utils import CallbackEvent
        k = KlongInterpreter()
        k['.system'] = {'ioloop': self.loops[0], 'klongloop': self.loops[3], 'closeEvent': CallbackEvent()}
        for name, fn in self.sysfns.items():
            k[name] = fn
        return k

    def free_port(self):
        s = socket.socket(socket.AF_INET, socket.SOCK_STREAM)
        try:
            s.bind((self.addr, 0))
            return s.getsockname()[1]
        finally:
            s.close()

    # -- web
    def start_web(self, table):
        """fresh interpreter + `.web` server for a table -> (klong, handle, port).  A lost race for the port
        (bind(0) probe, then somebody else binds it first) is retried: it is the harness's business."""
        last = None
        for _ in range(5):
            k = self.interpreter()
            for line in setup_lines(table):
                k(line)
            port = self.free_port()
            h = k('wh::.web("%s:%d";get;post)' % (self.addr, port))
            t_end = time.time() + DEADLINE
            while not h.task.done():                    # `.web` returns before the site is listening
                if time.time() > t_end:
                    raise WaitTimeout('server start')
                time.sleep(0.0003)
            exc = h.task.exception() if not h.task.cancelled() else None
            if exc is None:
                return k, h, port
            last = exc
            self.port_retries += 1
            try:
                self.on_ioloop(h.runner.cleanup())
            except Exception:
                pass
            if not isinstance(exc, OSError):
                break
        raise runner.HarnessError('cannot start .web server: %r' % (last,))

    def stop_web(self, h):
        if h is not None and getattr(h, 'runner', None) is not None:
            self.on_ioloop(h.shutdown())

    async def _new_session(self):
        import aiohttp
        return aiohttp.ClientSession(timeout=aiohttp.ClientTimeout(total=DEADLINE))

    async def _request(self, sess, method, url, params):
        import aiohttp
        try:
            if method == 'GET':
                async with sess.get(url, params=params, allow_redirects=False) as r:
                    return r.status, await r.text()
            async with sess.post(url, data=params, allow_redirects=False) as r:
                return r.status, await r.text()
        except (aiohttp.ClientConnectionError, ConnectionError) as e:
            return 'no-answer', type(e).__name__
        except asyncio.TimeoutError:
            raise WaitTimeout('request')

    # -- websocket server of the harness
    async def _ws_handler(self, ws, path=None):
        import websockets
        rec = {'ws': ws, 'msgs': []}
        self.ws_conns.put(rec)
        try:
            async for m in ws:
                rec['msgs'].append(m)
        except websockets.exceptions.ConnectionClosed:
            pass
        rec['closed'] = True

    async def _ws_start(self):
        import websockets
        self.ws_server = await websockets.serve(self._ws_handler, self.addr, 0)
        self.ws_port = self.ws_server.sockets[0].getsockname()[1]

    def ws_connect(self):
        """fresh interpreter whose `.ws` client is connected to the harness server -> (klong, client, server record)"""
        if self.ws_server is None:
            self.on_hloop(self._ws_start())
        while not self.ws_conns.empty():
            self.ws_conns.get_nowait()
        k = self.interpreter()
        k('wn::0;wc::0;m1::0;m2::0;m3::0;m4::0')
        return k

    def close(self):
        try:
            from klongpy.repl import cleanup_repl
            if self.ws_server is not None:
                self.ws_server.close()
            self.hloop.call_soon_threadsafe(self.hloop.stop)
            cleanup_repl(self.loops)
        except Exception:
            pass


_LIVE = {}


def live():
    lv = _LIVE.get('live')
    if lv is None or _LIVE.get('pid') != os.getpid():
        lv = _LIVE['live'] = Live()
        _LIVE['pid'] = os.getpid()
    return lv


def reset_live():
    """after a hang nothing of the old loops is trusted any more: abandon them (daemon threads) and start afresh"""
    _LIVE.pop('live', None)


# ---------------------------------------------------------------------------------------------
# one web history against the real implementation

def read_log(k):
    raw = k['log']
    out = []
    try:
        for row in list(raw):
            rid, d = row[0], row[1]
            if not isinstance(d, dict):
                return None, 'log-entry-without-dict:%r' % (raw,)
            out.append((int(rid), {kk: vv for kk, vv in d.items()}))
    except Exception:
        return None, 'log-unreadable:%r' % (raw,)
    return out, None


def log_str(entries):
    return '[' + ', '.join('%d:%s' % (rid, json.dumps(d, ensure_ascii=False, sort_keys=True)) for rid, d in entries) + ']'


def _params_intact(entries):
    return all(type(kk) is str and type(vv) is str for _, d in entries for kk, vv in d.items())


def exec_web(lv, table, ops):
    """Run one history.  -> dict(steps=[observation strings], fail=None | (index, observed, expected), nreq=int)"""
    model = Model(table)
    k, h, port = lv.start_web(table)
    sess = lv.on_hloop(lv._new_session())
    obs, fail, nreq = [], None, 0
    try:
        log, err = read_log(k)
        if err or log:
            return {'steps': ['initial ' + (err or log_str(log))], 'fail': (0, 'initial log ' + (err or log_str(log)), 'empty log'),
                    'nreq': 0}
        for i, op in enumerate(ops):
            if op[0] == 'redef':
                r = BY_KEY[op[1]]
                k('%s::%s' % (r.name, handler_src(r, op[2])))
                model.redefine(op[1], op[2])
                obs.append('redefined')
                continue
            params = PARAMS[op[3]][1]
            url = 'http://%s:%d%s' % (lv.addr, port, op[2])
            if op[0] == 'webc':
                rc = k('.webc(wh)')
                st, body = lv.on_hloop(lv._request(sess, op[1], url, params), DEADLINE + 2)
                nreq += 1
                o = 'webc=%s then %s' % (rc, 'no-answer' if st == 'no-answer' else 'status=%s body=%r' % (st, body))
                e = 'webc=1 then no-answer'
                obs.append(o)
                if o != e:
                    fail = (i, o, e)
                    break
                model.up = False
                continue
            st_ok, body_ok, delta = model.request(op[1], op[2], params)
            st, body = lv.on_hloop(lv._request(sess, op[1], url, params), DEADLINE + 2)
            nreq += 1
            new, err = read_log(k)
            if err:
                o = 'status=%s %s' % (st, err)
                got_delta = None
            else:
                prefix_ok = new[:len(log)] == log
                got_delta = new[len(log):] if prefix_ok else None
                o = 'status=%s%s log+%s' % (st, (' body=%r' % body) if (body_ok is not None or st == 200) else '',
                                            log_str(got_delta) if prefix_ok else 'REWRITTEN' + log_str(new))
            e = 'status=%s%s log+%s' % (st_ok[0] if len(st_ok) == 1 else '4xx', (' body=%r' % body_ok) if body_ok is not None else '',
                                        log_str(delta))
            good = (st in st_ok and (body_ok is None or body == body_ok) and got_delta == delta
                    and _params_intact(got_delta))
            obs.append(o)
            if not good:
                fail = (i, o, e)
                break
            log = new
    finally:
        try:
            lv.on_hloop(sess.close())
        finally:
            lv.stop_web(h)
    return {'steps': obs, 'fail': fail, 'nreq': nreq}


def web_snippet(table, ops):
    """stand-alone reproduction (no harness imports)"""
    L = ['import asyncio, socket, time, aiohttp',
         'from klongpy.repl import create_repl, cleanup_repl',
         'klong, loops = create_repl()',
         's = socket.socket(); s.bind(("127.0.0.1", 0)); port = s.getsockname()[1]; s.close()',
         'klong(\'.py("klongpy.web")\')']
    for line in setup_lines(table):
        L.append('klong(%r)' % line)
    L += ['h = klong(\'wh::.web("127.0.0.1:%d";get;post)\' % port)',
          'while not h.task.done(): time.sleep(0.001)',
          'async def req(method, path, params):',
          '    async with aiohttp.ClientSession() as s:',
          '        try:',
          '            async with s.request(method, "http://127.0.0.1:%d%s" % (port, path), **{"params" if method == "GET" else "data": params}) as r:',
          '                return r.status, await r.text()',
          '        except aiohttp.ClientConnectionError as e:',
          '            return "no-answer", type(e).__name__',
          'def go(*a): print(a, "->", asyncio.run(req(*a)), " log:", klong("log"))']
    for op in ops:
        if op[0] == 'redef':
            r = BY_KEY[op[1]]
            L.append('klong(%r)' % ('%s::%s' % (r.name, handler_src(r, op[2]))))
            continue
        if op[0] == 'webc':
            L.append('print(".webc(wh) ->", klong(".webc(wh)"))')
        L.append('go(%r, %r, %r)' % (op[1], op[2], PARAMS[op[3]][1]))
    L += ['if h.runner is not None: asyncio.run_coroutine_threadsafe(h.shutdown(), loops[0]).result()', 'cleanup_repl(loops)']
    return '\n'.join(L)


WEB_GROUPS = (
    ('webc=0 then', 'webc-rejects-the-handle-web-returned'),
)


def web_group(observed):
    for needle, g in WEB_GROUPS:
        if needle in observed:
            return g
    return None


# ---------------------------------------------------------------------------------------------
# websocket cases
#
# ('recv', (m1, m2, ...))   server pushes the JSON texts, then closes; the `.ws.m` log must equal the decoded sequence
# ('send', klong_source, expected_python_value)   `c(<source>)` must arrive as JSON text decoding to the value
# ('echo', m)               `.ws.m::{x(y)}`; the server pushes m and must get m back

WS_HANDLER = '.ws.m::{wn::wn+1;wc::x;:[wn=1;m1::y;:[wn=2;m2::y;:[wn=3;m3::y;m4::y]]]}'
WS_ECHO = '.ws.m::{wn::wn+1;x(y)}'
END = '<end>'

# incl. the empty / zero member of a kind (0, ""; thorough: 0.0, false, [], {}): falsy in Python, a message all the same
JSON_KINDS_QUICK = (42, 'str', [1, 2, 3], {'a': {'b': [1, {'c': 'd'}]}}, None, True, [1, 'a'], 0, '')
JSON_KINDS_MORE = (1.5, False, [], {}, [[1, 2], [3, 4]], 'hé ✓', {'k': [1.5, 'v'], 'n': None}, 0.0)

SEND_VALUES = (
    ('42', 42), ('1.5', 1.5), ('"hello"', 'hello'), ('"hé ✓"', 'hé ✓'), ('[1 2 3]', [1, 2, 3]),
    ('[1.5 2.5]', [1.5, 2.5]), ('[[1 2] [3 4]]', [[1, 2], [3, 4]]), ('[1 [2 3]]', [1, [2, 3]]), ('["a" "bc"]', ['a', 'bc']),
    ('[]', []), (':{["a" 1]}', {'a': 1}), (':{["a" [1 2]] ["b" "c"]}', {'a': [1, 2], 'b': 'c'}),
    ('[1 2 3]@0', 1), ('[1.5 2.5]@0', 1.5), ('+/[1 2 3]', 6), ('#[1 2 3]', 3), ('1+1', 2),
    # dictionary keys of other kinds than strings, alone and mixed with string keys (JSON member names are their text)
    (':{[1 "one"]}', {'1': 'one'}), (':{[1 "one"] ["a" 2]}', {'1': 'one', 'a': 2}), (':{["b" 1] ["a" 2]}', {'b': 1, 'a': 2}),
    (':{["k" :{[2 [1 2]] ["n" 1.5]}]}', {'k': {'2': [1, 2], 'n': 1.5}}), ('(,:{[1 2] ["a" 2]}),7', [{'1': 2, 'a': 2}, 7]),
)


def ws_cases(quick):
    kinds = JSON_KINDS_QUICK if quick else JSON_KINDS_QUICK + JSON_KINDS_MORE
    maxlen = 3
    out = []
    for n in range(1, maxlen + 1):
        # thorough: length 3 over the quick kinds only in positions 2 and 3 would hide order bugs of the new kinds;
        # the full cube of 14 kinds (2744 sequences) is affordable, so it is enumerated.
        for seq in itertools.product(range(len(kinds)), repeat=n):
            out.append(('recv', tuple(kinds[i] for i in seq)))
    for src, val in SEND_VALUES:
        out.append(('send', src, val))
    for m in kinds:
        out.append(('echo', m))
    return out


def ws_key(case):
    if case[0] == 'recv':
        return 'ws recv ' + ' , '.join(json.dumps(m, ensure_ascii=False, sort_keys=True) for m in case[1])
    if case[0] == 'send':
        return 'ws send c(%s)' % case[1]
    return 'ws echo ' + json.dumps(case[1], ensure_ascii=False, sort_keys=True)


def _wait(pred, what):
    t_end = time.time() + DEADLINE
    while not pred():
        if time.time() > t_end:
            raise WaitTimeout(what)
        time.sleep(0.0003)


def exec_ws(lv, case):
    """-> dict(observed=str, expected=str, ok=bool, nmsg=int)"""
    k = lv.ws_connect()
    k(WS_ECHO if case[0] == 'echo' else WS_HANDLER)
    nc = k('c::.ws("ws://%s:%d")' % (lv.addr, lv.ws_port))
    try:
        rec = lv.ws_conns.get(timeout=DEADLINE)
    except queue.Empty:
        raise WaitTimeout('ws connect')
    ws = rec['ws']
    try:
        if case[0] == 'recv':
            msgs = case[1]

            async def push():
                for m in msgs:
                    await ws.send(json.dumps(m))
                await ws.close()
            lv.on_hloop(push())
            _wait(nc._run_exit_event.is_set, 'ws listener exit after close')     # every queued message was handled before
            n = int(k['wn'])
            got = [jc(k['m%d' % i]) for i in range(1, min(n, 4) + 1)]
            exp = [jc(m) for m in msgs]
            conn_ok = (n == 0) or (k['wc'] is nc)
            o = 'calls=%d log=[%s]%s' % (n, ' , '.join(js(g) for g in got), '' if conn_ok else ' x-is-not-the-connection')
            e = 'calls=%d log=[%s]' % (len(msgs), ' , '.join(js(g) for g in exp))
            return {'observed': o, 'expected': e, 'ok': n == len(msgs) and got == exp and conn_ok, 'nmsg': len(msgs)}
        if case[0] == 'send':
            out = []
            for src in (case[1], '"%s"' % END):
                try:
                    k('c(%s)' % src)
                except Exception as ex:
                    out.append('exc:' + type(ex).__name__)
            _wait(lambda: json.dumps(END) in rec['msgs'] or rec.get('closed'), 'ws sentinel')
            frames = [m for m in rec['msgs'] if m != json.dumps(END)]
            exp = [jc(case[2])]
            try:
                got = [jc(json.loads(f)) for f in frames]
            except Exception:
                got = [('?', 'not-json:%r' % (frames,))]
            o = 'arrived=[%s]%s' % (' , '.join(js(g) for g in got), (' ' + ' '.join(out)) if out else '')
            e = 'arrived=[%s]' % js(exp[0])
            return {'observed': o, 'expected': e, 'ok': got == exp and not out, 'nmsg': 2}
        # echo
        async def push2():
            await ws.send(json.dumps(case[1]))
            await ws.send(json.dumps(END))
        lv.on_hloop(push2())
        _wait(lambda: json.dumps(END) in rec['msgs'] or rec.get('closed') or nc._run_exit_event.is_set(), 'ws echo sentinel')
        frames = [m for m in rec['msgs'] if m != json.dumps(END)]
        try:
            got = [jc(json.loads(f)) for f in frames]
        except Exception:
            got = [('?', 'not-json:%r' % (frames,))]
        exp = [jc(case[1])]
        o = 'echoed=[%s]%s' % (' , '.join(js(g) for g in got), '' if json.dumps(END) in rec['msgs'] else ' listener-stopped')
        e = 'echoed=[%s]' % js(exp[0])
        return {'observed': o, 'expected': e, 'ok': got == exp and json.dumps(END) in rec['msgs'], 'nmsg': 2}
    finally:
        try:
            if not rec.get('closed'):
                lv.on_hloop(ws.close())
            if nc.running:
                _wait(nc._run_exit_event.is_set, 'ws listener exit')
        except WaitTimeout:
            pass


def ws_snippet(case):
    L = ['import asyncio, json, threading, time, websockets',
         'from klongpy.repl import create_repl, cleanup_repl',
         'klong, loops = create_repl()',
         'loop = asyncio.new_event_loop(); threading.Thread(target=loop.run_forever, daemon=True).start()',
         'conns, got = [], []',
         'async def handler(ws, path=None):',
         '    conns.append(ws)',
         '    try:',
         '        async for m in ws: got.append(m)',
         '    except Exception: pass',
         'async def start(): return await websockets.serve(handler, "127.0.0.1", 0)',
         'srv = asyncio.run_coroutine_threadsafe(start(), loop).result()',
         'port = srv.sockets[0].getsockname()[1]',
         'klong(\'.py("klongpy.ws")\')',
         'klong("wn::0;wc::0;m1::0;m2::0;m3::0;m4::0")',
         'klong(%r)' % (WS_ECHO if case[0] == 'echo' else WS_HANDLER),
         'c = klong(\'c::.ws("ws://127.0.0.1:%d")\' % port)',
         'while not conns: time.sleep(0.001)',
         'push = lambda m: asyncio.run_coroutine_threadsafe(conns[0].send(json.dumps(m)), loop).result()']
    if case[0] == 'recv':
        for m in case[1]:
            L.append('push(%r)' % (m,))
        L += ['time.sleep(0.3)', 'print("calls:", klong("wn"), "log:", [klong("m%d" % i) for i in range(1, 4)])']
    elif case[0] == 'send':
        L += ['klong(%r)' % ('c(%s)' % case[1]), 'time.sleep(0.3)', 'print("arrived:", got, " expected:", %r)' % json.dumps(case[2])]
    else:
        L += ['push(%r)' % (case[1],), 'time.sleep(0.3)', 'print("echoed:", got, " expected:", %r)' % json.dumps(case[1])]
    L += ['klong(".wsc(c)")', 'cleanup_repl(loops)']
    return '\n'.join(L)


def ws_group(case, observed):
    def has(v, pred):
        if pred(v):
            return True
        if isinstance(v, dict):
            return any(has(x, pred) for x in v.values())
        if isinstance(v, list):
            return any(has(x, pred) for x in v)
        return False
    if case[0] == 'send':
        return 'ws-send-numpy-integer-not-encodable' if 'arrived=[]' in observed else None
    msgs = case[1] if case[0] == 'recv' else (case[1],)
    if any(m is None for m in msgs):
        return 'ws-null-message-never-reaches-handler-body'
    if any(isinstance(m, list) and len({type(x) for x in m}) > 1 and any(isinstance(x, str) for x in m) for m in msgs):
        return 'ws-top-level-mixed-list-stringified'
    return None


# ---------------------------------------------------------------------------------------------
# worker

def _with_retries(fn, describe):
    """Run one live case.  A wait that exceeds its deadline is re-run on fresh loops; it only becomes a verdict
    ('did not terminate') when it reproduces twice more.  -> (result | None, n_timeouts)"""
    timeouts = 0
    for attempt in range(3):
        try:
            with runner.watchdog(CASE_WATCHDOG):
                return fn(live()), timeouts
        except (WaitTimeout, runner.CaseTimeout):
            timeouts += 1
            reset_live()
    return None, timeouts


def work(items):
    out = {'violations': [], 'histories': 0, 'requests': 0, 'ops': 0, 'ws_cases': 0, 'ws_messages': 0, 'states': set(),
           'outcomes': set(), 'flaky_timeouts': 0, 'hang_violations': 0, 'abandoned': 0, 'port_retries': 0,
           'servers_started': 0}
    # reproducible hangs are counted per worker PROCESS: a tree that never answers costs each worker 3 cases x 3 runs x
    # 10 s and is then reported (exhaustive=false), instead of turning the whole run into a fan-out timeout
    hangs = _LIVE.get('hangs', 0) if _LIVE.get('hangs_pid') == os.getpid() else 0
    for item in items:
        if item[0] == 'web':
            _, table, hists = item
            for ops in hists:
                if hangs >= MAX_TIMEOUT_VIOLATIONS:
                    out['abandoned'] += 1
                    continue
                res, touts = _with_retries(lambda lv: exec_web(lv, table, ops), ops)
                out['histories'] += 1
                out['servers_started'] += 1
                if res is None:
                    hangs += 1
                    out['hang_violations'] += 1
                    out['violations'].append(dict(
                        key=hist_key(table, ops), observed='timeout: no answer within %gs in 3 runs' % DEADLINE,
                        expected='every request answered', case={'kind': 'web', 'table': list(table), 'ops': [list(o) for o in ops]},
                        snippet=web_snippet(table, ops), group='did-not-terminate'))
                    continue
                out['flaky_timeouts'] += touts
                out['requests'] += res['nreq']
                out['ops'] += len(res['steps'])
                for j, s in enumerate(res['steps']):
                    out['outcomes'].add(s.split(' log+')[0] if s.startswith('status=') else s.split(' then ')[0])
                    out['states'].add((table, tuple(res['steps'][:j + 1])))
                if res['fail'] is not None:
                    i, o, e = res['fail']
                    pre = ops[:i + 1]
                    out['violations'].append(dict(
                        key=hist_key(table, pre), observed=o, expected=e,
                        case={'kind': 'web', 'table': list(table), 'ops': [list(x) for x in pre]},
                        snippet=web_snippet(table, pre), group=web_group(o)))
        else:
            for case in item[1]:
                if hangs >= MAX_TIMEOUT_VIOLATIONS:
                    out['abandoned'] += 1
                    continue
                res, touts = _with_retries(lambda lv: exec_ws(lv, case), case)
                out['ws_cases'] += 1
                if res is None:
                    hangs += 1
                    out['hang_violations'] += 1
                    out['violations'].append(dict(
                        key=ws_key(case), observed='timeout: not finished within %gs in 3 runs' % DEADLINE,
                        expected='delivered', case={'kind': 'ws', 'case': _ws_case_json(case)}, snippet=ws_snippet(case),
                        group='did-not-terminate'))
                    continue
                out['flaky_timeouts'] += touts
                out['ws_messages'] += res['nmsg']
                out['ops'] += res['nmsg']
                out['outcomes'].add(('ws', case[0], res['ok']))
                out['states'].add(('ws', res['observed']))
                if not res['ok']:
                    out['violations'].append(dict(
                        key=ws_key(case), observed=res['observed'], expected=res['expected'],
                        case={'kind': 'ws', 'case': _ws_case_json(case)}, snippet=ws_snippet(case),
                        group=ws_group(case, res['observed'])))
    _LIVE['hangs'], _LIVE['hangs_pid'] = hangs, os.getpid()
    lv = _LIVE.get('live')
    if lv is not None:
        out['port_retries'] += lv.port_retries
        lv.port_retries = 0
    out['states'] = {hash(s) for s in out['states']}      # PYTHONHASHSEED=0: stable; the parent unions them
    return out


def _ws_case_json(case):
    return [case[0], list(case[1])] if case[0] == 'recv' else list(case)


# ---------------------------------------------------------------------------------------------

def build_items(cfg):
    tables = list(QUICK_TABLES) if cfg.quick else all_tables()
    per_chunk = cfg.pick(60, 150)
    items, n_hist = [], 0
    for t in tables:
        hs = histories(t, cfg.quick)
        n_hist += len(hs)
        for i in range(0, len(hs), per_chunk):
            items.append(('web', t, hs[i:i + per_chunk]))
    wc = ws_cases(cfg.quick)
    for i in range(0, len(wc), 40):
        items.append(('ws', wc[i:i + 40]))
    return tables, items, n_hist, len(wc)


def run(cfg):
    logging.disable(logging.CRITICAL)
    rep = runner.Report(PID, 'model_checking')
    selftest()
    tables, items, n_hist, n_ws = build_items(cfg)
    # Live loops/threads/sockets exist only in forked workers (inline_below=-1 forces the fork even for one chunk) and in
    # few of them: an operation costs ~1-2 ms, but loop threads of many workers fighting for cores make everything slow.
    nworkers = max(1, min(cfg.jobs, cfg.pick(6, 10)))
    wcfg = runner.Cfg(PID, cfg.tier, cfg.seed, nworkers)
    tot = {}
    for part in runner.pmap(work, items, wcfg, chunk=1, inline_below=-1, pin=False, deadline_s=cfg.pick(600, 1500)):
        runner.merge_counts(tot, part)
    # E1 does not expand a violating state: a pushed sequence whose proper prefix (itself an enumerated case) already
    # fails is not reported again (web histories are cut at their first failing step inside the worker).
    vs = tot.get('violations', [])
    failing = {tuple(json.dumps(m, sort_keys=True) for m in v['case']['case'][1]) for v in vs
               if v['case']['kind'] == 'ws' and v['case']['case'][0] == 'recv'}
    kept, suppressed = [], 0
    for v in vs:
        if v['case']['kind'] == 'ws' and v['case']['case'][0] == 'recv':
            seq = tuple(json.dumps(m, sort_keys=True) for m in v['case']['case'][1])
            if any(seq[:n] in failing for n in range(1, len(seq))):
                suppressed += 1
                continue
        kept.append(v)
    rep.extend_violations(kept)
    if tot.get('histories', 0) + tot.get('abandoned', 0) < n_hist:
        raise runner.HarnessError('histories executed %d != enumerated %d' % (tot.get('histories', 0), n_hist))
    samples = []
    for t in (tables[-1], tables[1]):
        hs = histories(t, cfg.quick)
        for ops in (hs[len(hs) // 2], hs[-1]):
            samples.append(hist_key(t, ops))
    samples += [ws_key(c) for c in (ws_cases(cfg.quick)[60], ws_cases(cfg.quick)[-1], ws_cases(cfg.quick)[-12])]
    rep.coverage = {
        'states': len(tot.get('states', ())),
        'transitions': tot.get('ops', 0),
        'traces_validated_against_impl': tot.get('histories', 0) + tot.get('ws_cases', 0),
        'samples': samples,
        'exhaustive': tot.get('abandoned', 0) == 0,
        'distinct_outcomes': len(tot.get('outcomes', ())),
        'route_tables': len(tables),
        'web_histories': tot.get('histories', 0),
        'web_histories_enumerated': n_hist,
        'http_requests': tot.get('requests', 0),
        'servers_started': tot.get('servers_started', 0),
        'ws_cases': tot.get('ws_cases', 0),
        'ws_cases_enumerated': n_ws,
        'ws_messages': tot.get('ws_messages', 0),
        'max_history_length': cfg.pick(2, 4),
        'timeouts_not_reproduced': tot.get('flaky_timeouts', 0),
        'timeouts_reproduced_3x': tot.get('hang_violations', 0),
        'cases_abandoned_after_hangs': tot.get('abandoned', 0),
        'port_races_retried': tot.get('port_retries', 0),
        'ws_violations_extending_a_failing_prefix_not_repeated': suppressed,
        'workers': nworkers,
        'oracle_selfcheck': 'ok',
        'rule': 'route tables = %s of 3 GET + 3 POST routes (named/anonymous handlers, one raising per table); per table every '
                'request sequence of length <= 2 over {registered route x 5 parameter dictionaries, wrong method, unknown '
                'paths}%s, redefinition histories (named handler redefined to a good / a raising definition between requests) and '
                '.webc-then-request histories; each history on a fresh interpreter and a fresh .web server; websocket: every '
                'sequence of <= 3 messages over %d JSON kinds pushed to the real .ws client, %d Klong values sent through the '
                'connection, every kind echoed by the handler' % (
                    'the 8 quick tables' if cfg.quick else 'all 64 subsets',
                    '' if cfg.quick else ', every sequence of length 3 over {registered route x one-key dictionary, wrong method, '
                    'unknown paths}, every sequence of length 4 over one representative per kind {good, raising, wrong method, '
                    'unknown}', len(JSON_KINDS_QUICK if cfg.quick else JSON_KINDS_QUICK + JSON_KINDS_MORE), len(SEND_VALUES)),
    }
    if tot.get('flaky_timeouts', 0):
        rep.notes.append('%d waits exceeded %gs once and passed when re-run (machine load); not verdicts' % (tot['flaky_timeouts'], DEADLINE))
    rep.assumptions = [
        'real loopback sockets, real event loops and OS scheduling; every operation is issued and awaited sequentially: the '
        'check is exhaustive over route tables and histories, not over schedules or concurrent requests',
        'aiohttp (server and client), yarl URL encoding and websockets are environment, used as installed',
        'a wait that exceeds 10 s is re-run on fresh loops and only reported when it reproduces in 3 runs',
        'handlers log [route-id, params] by joining onto a Klong list and then return / fail; the body of a 400 answer and the '
        'status of a wrong-method request (any 4xx accepted) are not specified by the property',
        'the system functions .web/.webc/.ws/.wsc are loaded by .py once per worker and handed to each fresh interpreter',
        'repeated query keys are not enumerated (the property does not say which value the dictionary holds)',
        'websocket numbers are compared by value (JSON does not separate integers from reals); .ws.m stores y by plain '
        'assignment (m1..m4), so no Klong list semantics are involved in the log',
        'completion of a pushed sequence is observed by closing the server side and waiting for the client listener to exit',
    ]
    return rep


def replay(cfg, path):
    logging.disable(logging.CRITICAL)
    with open(path) as f:
        r = json.load(f)
    case = r['case']
    lv = live()
    if case['kind'] == 'web':
        table = tuple(case['table'])
        ops = tuple(tuple(o) for o in case['ops'])
        print(hist_key(table, ops))
        res = exec_web(lv, table, ops)
        for o, s in zip(ops, res['steps']):
            print('  %-60s -> %s' % (op_str(o), s))
        print('verdict:', 'holds' if res['fail'] is None else 'VIOLATION step %d observed %s expected %s' % res['fail'])
    else:
        c = case['case']
        c = ('recv', tuple(c[1])) if c[0] == 'recv' else tuple(c)
        print(ws_key(c))
        res = exec_ws(lv, c)
        print('  observed:', res['observed'])
        print('  expected:', res['expected'])
        print('verdict:', 'holds' if res['ok'] else 'VIOLATION')
    import sys
    sys.stdout.flush()
    os._exit(0 if (res.get('fail') is None and res.get('ok', True)) else 1)

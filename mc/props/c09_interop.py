"""C09 - the interpreter is a faithful dictionary of Python values and functions.

Four exhaustive parts over the real KlongInterpreter (E1; parts a, b, d are complete product enumerations, part c is a
BFS over redefinition / deletion histories against a name -> binding model):

 (a) data round trip: every value of a closed universe of Python / NumPy / klongpy values is stored with
     klong[n]=v (on a fresh name and over every kind of earlier binding), read with klong[n] and observed by
     programs that denote "the value of n" (the bare program `n` and five identity contexts).  All observations must
     agree with v in canonical form.  The identity contexts are first validated natively (n defined by a Klong
     literal): where the native result already differs the observer is not an identity in the core language for that
     value and the case is not judged here (it belongs to C03).
 (b) Python callables: every signature drawn in order from (klong?, x?, y?, z?) (16), variants with defaults, each
     instrumented to log its arguments; x argument tuples over {1, 2.5, "s", [1 2], :sym}^arity x call forms
     {direct, projection then fill, Each, Each-2, Over, f@list, f@atom, klong['f'](...) from Python}; x what the name
     was bound to before the callable was stored.  The log must show exactly the expected calls (one per
     application, evaluated arguments in positional order) and the result must be the return value.
 (c) Python-side wrapper: Klong functions of arity 0..3 obtained as klong['f'] and called with Python arguments;
     result must equal the Klong-level call f(a;b;c); wrong argument count must raise; BFS over histories of
     {redefine (other body / other arity), delete, re-read wrapper into slot 0/1, call wrapper 0/1} against the model
     "wrapper follows the current binding; falls back to the captured function after deletion".  Phase B adds
     "redefine the name with a Python callable".
 (d) .py / .pyf imports: numpy ufuncs, numpy / math functions with optional parameters and an instrumented scratch
     module whose parameters are not called x, y, z: an application with as many arguments as the function has
     required positional parameters is the Python call with those arguments in positional order.
"""
import contextlib
import itertools
import json
import os
import signal
import sys

import numpy as np

from klongpy import KlongInterpreter
from klongpy.types import KGChar, KGSym

from .. import bfs, runner
from ..values import I, R, C, S, Y, L, D, cn, norm, lit, show, has_literal, chars_to_string

PID = 'C09'
CASE_TIMEOUT = 10

# =============================================================================================
# helpers


def to_py(c, lists='list'):
    """Canonical value -> Python runtime value (lists as Python lists or, lists='np', as Klong would build them)."""
    t = c[0]
    if t == 'i':
        return int(c[1])
    if t == 'r':
        return float(c[1])
    if t == 's':
        return c[1]
    if t == 'c':
        return KGChar(c[1])
    if t == 'y':
        return KGSym(c[1])
    if t == 'l':
        el = [to_py(e, lists) for e in c[1]]
        if lists == 'list':
            return el
        try:
            a = np.asarray(el)
            if a.dtype.kind in 'if' and a.ndim >= 1:
                return a
        except ValueError:
            pass
        a = np.empty(len(el), dtype=object)
        for i, e in enumerate(el):
            a[i] = e
        return a
    if t == 'd':
        return {to_py(k, lists): to_py(v, lists) for k, v in c[1]}
    raise ValueError(c)


def pyrepr(v):
    """Deterministic Python source text of a runtime value (for keys and snippets)."""
    if v is None or isinstance(v, (bool, int, float)) and not isinstance(v, (np.generic,)):
        return repr(v)
    if isinstance(v, KGSym):
        return 'KGSym(%r)' % str.__str__(v)
    if isinstance(v, KGChar):
        return 'KGChar(%r)' % str.__str__(v)
    if isinstance(v, str):
        return repr(v)
    if isinstance(v, np.generic):
        return 'np.%s(%r)' % (type(v).__name__, v.item())
    if isinstance(v, np.ndarray):
        if v.dtype == object:
            return 'np.array([%s], dtype=object)' % ', '.join(pyrepr(x) for x in v) if v.ndim == 1 else 'np.array(%r, dtype=object)' % (v.tolist(),)
        return 'np.array(%r, dtype=%r)' % (v.tolist(), str(v.dtype))
    if isinstance(v, list):
        return '[' + ', '.join(pyrepr(x) for x in v) + ']'
    if isinstance(v, tuple):
        return '(' + ''.join(pyrepr(x) + ', ' for x in v) + ')'
    if isinstance(v, dict):
        return '{' + ', '.join('%s: %s' % (pyrepr(k), pyrepr(x)) for k, x in v.items()) + '}'
    return repr(v)


def outcome(fn):
    try:
        return ('ok', cn(fn()))
    except RecursionError:
        return ('exc', 'RecursionError')
    except Exception as e:      # noqa: BLE001 - every failure class is an observation
        return ('exc', type(e).__name__)


def osh(o):
    return 'ok:' + show(o[1]) if o[0] == 'ok' else 'exc:' + o[1]


@contextlib.contextmanager
def watchdog(cpu_s=CASE_TIMEOUT, wall_s=900):
    """Per-case timeout in *CPU* seconds of this process (ITIMER_PROF), with runner.watchdog as a generous wall-clock
    backstop.  Every case here is pure computation of about a millisecond; on a machine whose cores are taken by
    other jobs a worker can be off the CPU for longer than any sensible wall-clock limit (observed: 24 false
    "did not terminate" verdicts in one quick run under load average 60), while a case that really loops burns CPU."""
    def on_prof(signum, frame):
        raise runner.CaseTimeout()
    old = signal.signal(signal.SIGPROF, on_prof)
    signal.setitimer(signal.ITIMER_PROF, cpu_s)
    try:
        with runner.watchdog(wall_s):
            yield
    finally:
        signal.setitimer(signal.ITIMER_PROF, 0)
        signal.signal(signal.SIGPROF, old)


def retuple(x):
    """JSON round trip turns canonical tuples into lists."""
    if isinstance(x, list):
        return tuple(retuple(e) for e in x)
    return x


SNIP_HEAD = ('import numpy as np\nfrom klongpy import KlongInterpreter\nfrom klongpy.types import KGChar, KGSym\n'
             'klong = KlongInterpreter()\n')


def new_part():
    return {'n': 0, 'vset': set(), 'outcomes': set(), 'samples': []}


def add_v(out, v):
    """Violations travel as a set of JSON texts: runner.merge_counts unions sets without a cap (lists are capped at
    2000, which would drop violations in completion order)."""
    out['vset'].add(json.dumps(v, sort_keys=True, default=str))


def get_vs(out):
    return [json.loads(s) for s in sorted(out.get('vset', ()))]


# =============================================================================================
# part (a): data round trip

def a_universe(quick):
    """(label, factory) pairs; factories build a fresh object per case."""
    u = [
        ('0', lambda: 0), ('1', lambda: 1), ('-1', lambda: -1), ('123456789012', lambda: 123456789012),
        ('0.5', lambda: 0.5), ('-1.5', lambda: -1.5), ('2.0', lambda: 2.0),
        ("''", lambda: ''), ("'a'", lambda: 'a'), ("'ab'", lambda: 'ab'), ("'hello foo'", lambda: 'hello foo'),
        ("KGChar('a')", lambda: KGChar('a')), ("KGSym('foo')", lambda: KGSym('foo')),
        ('np.int64(3)', lambda: np.int64(3)), ('np.float64(1.5)', lambda: np.float64(1.5)),
        ('np.array([1, 2, 3])', lambda: np.array([1, 2, 3])),
        ('np.array([1.5, 2.5])', lambda: np.array([1.5, 2.5])),
        ('np.array([[1, 2], [3, 4]])', lambda: np.array([[1, 2], [3, 4]])),
        ("np.array([1, 'a', KGSym('s')], dtype=object)", lambda: np.array([1, 'a', KGSym('s')], dtype=object)),
        ('[]', lambda: []), ('[1, 2, 3]', lambda: [1, 2, 3]), ('[1, [2, 3]]', lambda: [1, [2, 3]]),
        ("['a', 'b']", lambda: ['a', 'b']), ("[1.5, 'a']", lambda: [1.5, 'a']),
        ('{}', lambda: {}), ('{1: 2}', lambda: {1: 2}), ("{'a': [1, 2]}", lambda: {'a': [1, 2]}),
        ('None', lambda: None),
    ]
    if not quick:
        u += [
            ('True', lambda: True), ('1e-07', lambda: 1e-07), ('1.5e+20', lambda: 1.5e+20),
            ("float('inf')", lambda: float('inf')),
            ("'a\"b'", lambda: 'a"b'), ("'x\\ny'", lambda: 'x\ny'),
            ("KGChar('0')", lambda: KGChar('0')), ("KGChar('\"')", lambda: KGChar('"')),
            ("KGSym('x')", lambda: KGSym('x')), ("KGSym('n')", lambda: KGSym('n')),
            ('np.int32(-2)', lambda: np.int32(-2)), ('np.uint8(200)', lambda: np.uint8(200)),
            ('np.float32(0.5)', lambda: np.float32(0.5)), ('np.bool_(True)', lambda: np.bool_(True)),
            ('np.array(5)', lambda: np.array(5)),
            ('np.array([], dtype=int)', lambda: np.array([], dtype=int)),
            ('np.array([], dtype=object)', lambda: np.array([], dtype=object)),
            ('np.zeros((2, 2, 2))', lambda: np.zeros((2, 2, 2))),
            ('np.array([1, 2], dtype=np.int32)', lambda: np.array([1, 2], dtype=np.int32)),
            ('np.array([np.array([1, 2]), np.array([3])], dtype=object)', lambda: _ragged()),
            ("np.array(['ab', 'cd'], dtype=object)", lambda: np.array(['ab', 'cd'], dtype=object)),
            ('[1.5, 2]', lambda: [1.5, 2]), ('[[1, 2], [3, 4]]', lambda: [[1, 2], [3, 4]]),
            ("[KGSym('foo'), 1]", lambda: [KGSym('foo'), 1]), ('[np.array([1, 2]), 3]', lambda: [np.array([1, 2]), 3]),
            ('[[]]', lambda: [[]]), ("[{1: 2}]", lambda: [{1: 2}]),
            ("{KGSym('k'): 'v'}", lambda: {KGSym('k'): 'v'}), ('{1: {2: 3}}', lambda: {1: {2: 3}}),
            ("{'a': np.array([1, 2])}", lambda: {'a': np.array([1, 2])}),
        ]
    return u


def _ragged():
    a = np.empty(2, dtype=object)
    a[0] = np.array([1, 2])
    a[1] = np.array([3])
    return a


# what the name was bound to before the store: (label, python statement or None)
A_PRIORS = [('fresh', None), ('data', "klong('%s::5')"), ('klongfn', "klong('%s::{x+1}')"),
            ('pyfn', "klong['%s'] = lambda x: x")]

# programs that denote "the value of n" in Klong (n is replaced by the name; m is a scratch variable)
A_OBSERVERS = ['n', '{x}(n)', '{n}()', ':[1;n;0]', 'm::n;m', 'n;n']


def _apply_prior(kl, name, prior):
    stmt = dict(A_PRIORS)[prior]
    if stmt is not None:
        exec(stmt % name, {'klong': kl})


def _obs_text(obs, name):
    return obs.replace('n', name) if name != 'n' else obs


def a_run_case(case, universe):
    """case = (value index, name, prior).  Returns partial result."""
    vi, name, prior = case
    label, factory = universe[vi]
    out = new_part()
    v = factory()
    want = cn(factory())
    kl = KlongInterpreter()
    _apply_prior(kl, name, prior)
    obs = []
    try:
        kl[name] = v
        stored = True
    except Exception as e:      # noqa: BLE001
        stored = False
        obs.append(('store', ('exc', type(e).__name__)))
    if stored:
        obs.append(('klong[%r]' % name, outcome(lambda: kl[name])))
        for o in A_OBSERVERS:
            text = _obs_text(o, name)
            got = outcome(lambda: kl(text))
            out['n'] += 1
            if o != 'n' and got != ('ok', want):
                # is this observer an identity natively for this value?  (needs a literal; else judged as is)
                if has_literal(want):
                    k2 = KlongInterpreter()
                    nat = outcome(lambda: k2('%s::%s;%s' % (name, lit(want), text)))
                    out['n'] += 1
                    if nat != ('ok', want):
                        out.setdefault('unjudged_native_differs', set()).add('%s ; %s -> %s' % (label, text, osh(nat)))
                        continue
            obs.append(('klong(%r)' % text, got))
        # the value object itself must not have been changed by being stored and observed
        obs.append(('stored object afterwards', outcome(lambda: v)))
        out['n'] += 2
    for what, got in obs:
        out['outcomes'].add(osh(got))
        if got != ('ok', want):
            grp = None
            if isinstance(v, list) and '{' in what and '}()' in what:
                grp = 'python-list-evaluated-as-program'
            elif isinstance(v, KGSym) and '}()' in what:
                grp = 'symbol-value-resolved-again-in-function-position'
            snippet = SNIP_HEAD + ((dict(A_PRIORS)[prior] % name + '\n') if dict(A_PRIORS)[prior] else '') + \
                'klong[%r] = %s\nprint(repr(%s))\n' % (name, label, what if what.startswith('klong') else 'klong[%r]' % name)
            add_v(out, dict(
                key='a: prior=%s ; klong[%r] = %s ; %s' % (prior, name, label, what), observed=osh(got),
                expected='ok:' + show(want), case={'part': 'a', 'value': label, 'name': name, 'prior': prior, 'what': what},
                snippet=snippet, group=grp))
    if prior == 'fresh' and label in ('[1, 2, 3]', 'None', 'np.array([1.5, 2.5])'):
        out['samples'].append(['a', 'klong[%r] = %s' % (name, label)] + ['%s -> %s' % (w, osh(g)) for w, g in obs[:4]])
    return out


# =============================================================================================
# part (b): Python callables

ARGS5 = [I(1), R(2.5), S('s'), L(I(1), I(2)), Y('sym')]
ARGS_T = ARGS5 + [L(), L(I(1), S('a'))]
ATOMS = [I(1), R(2.5), Y('sym')]


def all_signatures(quick):
    """Signatures as tuples of (parameter, default-or-None).  16 subsets of (klong, x, y, z) in order, then variants."""
    sigs = []
    for k in (False, True):
        for r in range(0, 4):
            for combo in itertools.combinations(('x', 'y', 'z'), r):
                sigs.append(((('klong', None),) if k else ()) + tuple((p, None) for p in combo))
    sigs += [
        (('x', None), ('y', 5)),
        (('x', 1),),
        (('klong', None), ('x', None), ('y', 5)),
        (('x', None), ('y', None), ('z', 9)),
        (('x', 1), ('y', 2), ('z', 3)),
    ]
    if not quick:
        sigs += [(('y', None), ('x', None)), (('z', None), ('y', None), ('x', None)), (('klong', None), ('x', 7), ('y', 8))]
    return sigs


def sig_text(sig):
    return 'def fn(%s)' % ', '.join(n if d is None else '%s=%d' % (n, d) for n, d in sig)


def sig_arity(sig):
    return sum(1 for n, _ in sig if n != 'klong')


def sig_is_prefix(sig):
    names = [n for n, _ in sig if n != 'klong']
    return names == ['x', 'y', 'z'][:len(names)]


def _shared_decorator(f):
    """ONE decorator for every 'wrapped' callable of the process: all results share the code object of `inner`, their
    signatures (followed through __wrapped__) differ."""
    import functools

    @functools.wraps(f)
    def inner(*args, **kwargs):
        return f(*args, **kwargs)
    return inner


KINDS = ('def', 'wrapped', 'method', 'instance', 'partial')


def make_callable(sig, log, kind='def'):
    """Instrumented Python callable with exactly this signature; call i returns 100+i.
    kind: plain function | function behind the shared functools.wraps decorator | bound method | object with __call__ |
    functools.partial that fixes a keyword-only extra parameter."""
    names = [n for n, _ in sig]
    params = ', '.join(n if d is None else '%s=%d' % (n, d) for n, d in sig)
    body = '    _log.append((%s, (%s)))\n    return 100 + len(_log) - 1\n' % (
        'klong' if 'klong' in names else 'None', ''.join(n + ', ' for n in names if n != 'klong'))
    ns = {'_log': log}
    if kind in ('def', 'wrapped'):
        exec('def fn(%s):\n%s' % (params, body), ns)
        return _shared_decorator(ns['fn']) if kind == 'wrapped' else ns['fn']
    if kind == 'partial':
        import functools
        exec('def fn(%s):\n%s' % (params + (', ' if params else '') + '*, _extra', body), ns)
        return functools.partial(ns['fn'], _extra=1)
    ind = body.replace('    ', '        ')
    if kind == 'method':
        exec('class C:\n    def fn(%s):\n%s' % (', '.join(['self'] + ([params] if params else [])), ind), ns)
        return ns['C']().fn
    exec('class C:\n    def __call__(%s):\n%s' % (', '.join(['self'] + ([params] if params else [])), ind), ns)
    return ns['C']()


def callable_src(sig):
    names = [n for n, _ in sig]
    return ('log = []\n%s:\n    log.append((%s))\n    return 100 + len(log) - 1\n' % (
        sig_text(sig), ''.join(n + ', ' for n in names if n != 'klong')))


def _elems(*vals):
    """What the members of the Klong list literal [v1 v2 ...] are (numeric-block promotion applies)."""
    return norm(L(*vals))[1]


PROJ_MASKS = {2: [(0,), (1,)], 3: [(0,), (1,), (2,), (0, 1), (0, 2), (1, 2)]}


def b_forms(n):
    forms = ['direct', 'pyget']
    if n == 1:
        forms += ['each', 'atlist', 'atatom']
    if n == 2:
        forms += ['proj:0', 'proj:1', 'each2', 'over', 'over2', 'atlist']
    if n == 3:
        forms += ['proj:' + ''.join(map(str, m)) for m in PROJ_MASKS[3]] + ['atlist']
    return forms


def b_form_arg_count(form, n):
    return {'each': 2, 'each2': 2, 'over': 3, 'over2': 2}.get(form, n)


def b_expect(form, n, A):
    """-> (program text or None, python args or None, expected calls [tuple of canonical], expected result)."""
    if form == 'direct':
        return 'f(%s)' % ';'.join(lit(a) for a in A), None, [tuple(A)], I(100)
    if form == 'pyget':
        return None, [to_py(a) for a in A], [tuple(A)], I(100)
    if form.startswith('proj:'):
        mask = [int(ch) for ch in form[5:]]
        first = ';'.join(lit(A[i]) if i in mask else '' for i in range(n))
        rest = ';'.join(lit(A[i]) for i in range(n) if i not in mask)
        return 'g::f(%s);g(%s)' % (first, rest), None, [tuple(A)], I(100)
    if form == 'each':
        p = _elems(*A)
        return "f'%s" % lit(L(*A)), None, [(e,) for e in p], L(*[I(100 + i) for i in range(len(p))])
    if form == 'each2':
        a, b = A
        le, ri = _elems(a, b), _elems(b, a)
        return "%sf'%s" % (lit(L(a, b)), lit(L(b, a))), None, list(zip(le, ri)), L(I(100), I(101))
    if form == 'over':
        p = _elems(*A)
        return 'f/%s' % lit(L(*A)), None, [(p[0], p[1]), (I(100), p[2])], I(101)
    if form == 'over2':
        p = _elems(*A)
        return 'f/%s' % lit(L(*A)), None, [(p[0], p[1])], I(100)
    if form == 'atlist':
        p = _elems(*A)
        return 'f@%s' % lit(L(*A)), None, [tuple(p)], I(100)
    if form == 'atatom':
        return 'f@%s' % lit(A[0]), None, [tuple(A)], I(100)
    raise ValueError(form)


B_PRIORS = [('fresh', None), ('data', "klong('f::5')"), ('klongfn', "klong('f::{x,y,z}')"),
            ('pyfn', "klong['f'] = lambda x, y, z: 0"), ('deleted', "klong['f'] = 1; del klong['f']")]


def b_cases(quick):
    sigs = all_signatures(quick)
    cases = []
    for si, sig in enumerate(sigs):
        n = sig_arity(sig)
        uni = ARGS5 if quick or any(d is not None for _, d in sig) else (ARGS_T if n < 3 else ARGS5)
        for form in b_forms(n):
            k = b_form_arg_count(form, n)
            pool = ATOMS if form == 'atatom' else uni
            if form in ('each', 'each2', 'over', 'over2'):
                pool = ARGS5
            for A in itertools.product(pool, repeat=k):
                cases.append(('b', si, form, A, 'fresh'))
        fixed = (I(1), R(2.5), S('s'))[:n]
        for prior, _ in B_PRIORS[1:]:
            cases.append(('b', si, 'direct', fixed, prior))
            cases.append(('b', si, 'pyget', fixed, prior))
        # other kinds of Python callable with the same signature (the statement says "a Python callable", not "a function")
        for kind in KINDS[1:]:
            for form in ('direct', 'pyget') + (('each',) if n == 1 else ('over2',) if n == 2 else ()):
                k = b_form_arg_count(form, n)
                cases.append(('b', si, form, (I(1), R(2.5), S('s'))[:k], 'fresh:' + kind))
    return sigs, cases


def _calls_show(calls):
    return '[' + ', '.join('(' + ' '.join(show(a) for a in c) + ')' for c in calls) + ']'


TWIN_BODIES = {0: '{0}', 1: '{x;0}', 2: '{x;y;0}', 3: '{x;y;z;0}'}


def core_form_fails(name, n, text, got):
    """Differential against the core language: does the same program raise the same exception when the name is
    bound to a native Klong function of the same arity?  Then the call form itself is broken for these operands
    (C03 territory, e.g. a projection that fixes a list argument) and nothing can be said about the callable."""
    twin = KlongInterpreter()
    twin('%s::%s' % (name, TWIN_BODIES[n]))
    return outcome(lambda: twin(text)) == got


def b_run_case(case, sigs):
    _, si, form, A, prior = case
    sig = sigs[si]
    n = sig_arity(sig)
    out = new_part()
    text, pyargs, want_calls, want_res = b_expect(form, n, A)
    kl = KlongInterpreter()
    kind = 'def'
    if prior.startswith('fresh:'):
        prior, kind = 'fresh', prior[6:]
    stmt = dict(B_PRIORS)[prior]
    if stmt:
        exec(stmt, {'klong': kl})
    log = []
    fn = make_callable(sig, log, kind)
    kl['f'] = fn
    if text is not None:
        got = outcome(lambda: kl(text))
        how = text
    else:
        got = outcome(lambda: kl['f'](*pyargs))
        how = "klong['f'](%s)" % ', '.join(pyrepr(a) for a in pyargs)
    out['n'] += 1
    try:
        calls = [tuple(cn(a) for a in args) for _, args in log]
    except Exception as e:      # noqa: BLE001
        calls = [(('obj', type(e).__name__),)]
    klong_ok = all(k is None or k is kl for k, _ in log)
    want_calls = [tuple(norm(a) for a in c) for c in want_calls]
    obs = '%s calls=%s' % (osh(got), _calls_show(calls)) + ('' if klong_ok else ' klong-parameter-is-not-the-interpreter')
    exp = 'ok:%s calls=%s' % (show(want_res), _calls_show(want_calls))
    out['outcomes'].add(obs if got[0] == 'exc' or len(calls) != len(want_calls) else 'ok/%d calls' % len(calls))
    if obs != exp and text is not None and got[0] == 'exc' and not calls and core_form_fails('f', n, text, got):
        out.setdefault('unjudged_core_form_fails', set()).add('%s -> %s' % (text, osh(got)))
        out['n'] += 1
    elif obs != exp:
        if prior not in ('fresh', 'deleted'):
            grp = 'callable-stored-over-existing-name-not-wrapped'
        elif not sig_is_prefix(sig):
            grp = 'arguments-looked-up-by-parameter-name-not-position'
        elif form == 'pyget' and any(_is_mixed(a) for a in pyargs):
            grp = 'wrapper-converts-list-arguments-with-np.asarray'
        else:
            grp = None
        pre = (stmt + '\n') if stmt else ''
        call = 'klong(%r)' % text if text is not None else how
        snippet = SNIP_HEAD + pre + callable_src(sig) + "klong['f'] = fn\ntry:\n    print(repr(%s))\nfinally:\n    print(log)\n" % call
        add_v(out, dict(
            key='b: prior=%s ; %s%s ; %s' % (prior, sig_text(sig), '' if kind == 'def' else ' [%s]' % kind, how),
            observed=obs, expected=exp,
            case={'part': 'b', 'sig': [list(p) for p in sig], 'form': form, 'args': A,
                  'prior': prior if kind == 'def' else 'fresh:' + kind},
            snippet=snippet, group=grp))
    if si % 7 == 3 and form in ('direct', 'over', 'proj:1') and all(a == S('s') for a in A) and prior == 'fresh':
        out['samples'].append(['b', sig_text(sig), how, obs])
    return out


# return values: a callable returning r; the application must evaluate to r
def bret_run_case(case, universe):
    _, vi, form = case
    label, factory = universe[vi]
    out = new_part()
    want = cn(factory())
    kl = KlongInterpreter()
    if form == 'direct':
        kl['f'] = lambda x: factory()
        how = "klong('f(1)')"
        got = outcome(lambda: kl('f(1)'))
    elif form == 'nilad':
        kl['f'] = lambda: factory()
        how = "klong('f()') [lambda: r]"
        got = outcome(lambda: kl('f()'))
    else:
        kl['f'] = lambda x: factory()
        how = "klong['f'](1)"
        got = outcome(lambda: kl['f'](1))
    out['n'] += 1
    out['outcomes'].add(osh(got))
    if got != ('ok', want):
        add_v(out, dict(
            key='b-ret: return %s ; %s' % (label, how), observed=osh(got), expected='ok:' + show(want),
            case={'part': 'bret', 'value': label, 'form': form},
            snippet=SNIP_HEAD + "klong['f'] = lambda%s: %s\nprint(repr(%s))\n" % (
                '' if form == 'nilad' else ' x', label, how.split(' [')[0]), group=None))
    return out


# =============================================================================================
# part (c): Python-side wrapper, BFS over histories

# (body text, arity in the Klong sense = highest of x, y, z used)
# `tick` is an instrumented Python callable (counts how often a body runs); :{[1 2]}@x raises KeyError for x other than 1:
# a failure inside the function that has the class of the wrapper's own "name was deleted" signal
C_BODIES_Q = [('{7}', 0), ('{x+1}', 1), ('{-x}', 1), ('{1,,x}', 1), ('{x-y}', 2), ('{y,x}', 2), ('{(x*100)+(y*10)+z}', 3),
              ('{tick(0);:{[1 2]}@x}', 1),
              # projections stored under the name (pp::{x-y}, pt::{x,y,z} are predefined): they take as many arguments as they
              # have holes
              ('pp(3;)', 1), ('pp(;7)', 1), ('pt(;2;)', 2)]
C_PRELUDE = 'pp::{x-y};pt::{x,y,z}'
C_BODIES_T = C_BODIES_Q + [('{[1 2]}', 0), ('{x}', 1), ('{#x}', 1), ('{(-x),-y}', 2), ('{z,y,x}', 3)]
C_BODIES_B = [('{x+1}', 1), ('{x-y}', 2)]
C_PY = [1, 2]                      # arities of the instrumented Python callables of phase B

C_ARG_VALUES_Q = {1: [3, 2.5, [1, 2], [1, [2, 3]]], 2: [3, 2.5, [1, 2]], 3: [3, [1, 2]]}
C_ARG_VALUES_T = {1: [3, 2.5, [1, 2], [1, [2, 3]], 's', [1, 'a'], ['a', 'b'], []], 2: [3, 2.5, [1, 2], [1, [2, 3]]],
                  3: [3, 2.5, [1, 2]]}
C_ARG_VALUES_B = {1: [3, [1, 2]], 2: [3, [1, 2]], 3: [3]}


def c_arg_tuples(values):
    out = [()]
    for n in (1, 2, 3):
        out += list(itertools.product(values[n], repeat=n))
    return out


class CModel:
    """name -> binding; two wrapper slots each remembering the binding they captured."""

    def __init__(self):
        # None | ('k', body index) | ('p', arity, over): `over` = the Python callable was stored while the name was
        # bound.  The model gives `over` no meaning; it only keeps such states apart in the search, because the
        # implementation stores the callable differently in that case (a defect this check reports)
        self.binding = None
        self.caps = [None, None]
        # A call has no effect in the model.  Whether it has one in the implementation is part of what is checked, so
        # "this wrapper object has been called since it was read, while the name was bound / deleted" is kept in the
        # state key: the search then also explores what follows a call (without it every state reached through a call
        # would be merged with the state before the call, and a wrapper that changes when called would go unseen).
        self.called = [(), ()]

    def key(self):
        return (self.binding, tuple(self.caps), tuple(self.called))

    def step(self, op):
        """Returns the expectation: ('ok',) | ('raise', 'KeyError') | ('call', target)."""
        k = op[0]
        if k == 'def':
            self.binding = ('k', op[1])
            return ('ok',)
        if k == 'pydef':
            self.binding = ('p', op[1], int(self.binding is not None))
            return ('ok',)
        if k == 'del':
            if self.binding is None:
                return ('raise', 'KeyError')
            self.binding = None
            return ('ok',)
        if k == 'read':
            if self.binding is None:
                return ('raise', 'KeyError')
            self.caps[op[1]] = self.binding
            self.called[op[1]] = ()
            return ('ok',)
        if k == 'call':
            how = 'bound' if self.binding is not None else 'deleted'
            if how not in self.called[op[1]]:
                self.called[op[1]] = tuple(sorted(self.called[op[1]] + (how,)))
            return ('call', self.binding if self.binding is not None else self.caps[op[1]])
        raise ValueError(op)


def c_selftest_model():
    m = CModel()
    table = [(('read', 0), ('raise', 'KeyError')), (('del',), ('raise', 'KeyError')), (('def', 1), ('ok',)),
             (('read', 0), ('ok',)), (('call', 0, ()), ('call', ('k', 1))), (('def', 4), ('ok',)),
             (('call', 0, ()), ('call', ('k', 4))), (('read', 1), ('ok',)), (('del',), ('ok',)),
             (('call', 0, ()), ('call', ('k', 1))), (('call', 1, ()), ('call', ('k', 4))), (('pydef', 2), ('ok',)),
             (('call', 0, ()), ('call', ('p', 2, 0))), (('read', 0), ('ok',)), (('def', 1), ('ok',)),
             (('pydef', 1), ('ok',)), (('call', 0, ()), ('call', ('p', 1, 1))), (('del',), ('ok',)),
             (('call', 0, ()), ('call', ('p', 2, 0))), (('call', 1, ()), ('call', ('k', 4)))]
    for op, want in table:
        got = m.step(op)
        if got != want:
            raise runner.HarnessError('C09 wrapper model self-check: %r gave %r, expected %r' % (op, got, want))
    return len(table)


def c_op_text(op, bodies):
    k = op[0]
    if k == 'def':
        return "klong('f::%s')" % bodies[op[1]][0]
    if k == 'pydef':
        return "klong['f'] = py%d" % op[1]
    if k == 'del':
        return "del klong['f']"
    if k == 'read':
        return "w%d = klong['f']" % op[1]
    if k == 'call':
        return 'w%d(%s)' % (op[1], ', '.join(pyrepr(a) for a in op[2]))
    raise ValueError(op)


class CEnv:
    def __init__(self, bodies):
        self.bodies = bodies
        self.kl = KlongInterpreter()
        self.m = CModel()
        self.slots = [None, None]
        self.log = []
        self.py = {n: make_callable(tuple((p, None) for p in ('x', 'y', 'z')[:n]), self.log) for n in C_PY}
        self.ticks = []
        self.tick_fn = lambda x: (self.ticks.append(1), 0)[1]
        self.kl['tick'] = self.tick_fn
        self.kl(C_PRELUDE)

    def do(self, op):
        """Execute op on the real interpreter; returns outcome."""
        k = op[0]
        if k == 'def':
            return outcome(lambda: (self.kl('f::' + self.bodies[op[1]][0]), 0)[1])
        if k == 'pydef':
            def f():
                self.kl['f'] = self.py[op[1]]
                return 0
            return outcome(f)
        if k == 'del':
            def f():
                del self.kl['f']
                return 0
            return outcome(f)
        if k == 'read':
            def f():
                self.slots[op[1]] = self.kl['f']
                return 0
            return outcome(f)
        if k == 'call':
            return outcome(lambda: self.slots[op[1]](*[_fresh(a) for a in op[2]]))
        raise ValueError(op)


def _fresh(a):
    return json.loads(json.dumps(a)) if isinstance(a, list) else a


def c_build(hist, bodies):
    env = CEnv(bodies)
    for op in hist:
        env.do(op)
        env.m.step(op)
    return env


def c_judge(env, op, hist):
    """Execute op on the real interpreter and the model; returns (violations, observed string)."""
    bodies = env.bodies
    bound_before = env.m.binding
    cap_before = env.m.caps[op[1]] if op[0] == 'call' else None
    exp = env.m.step(op)
    n_log = len(env.log)
    n_ticks = len(env.ticks)
    got = env.do(op)
    ticks_wrapper = len(env.ticks) - n_ticks
    viol = []

    def v(key, observed, expected, group):
        steps = [c_op_text(h, bodies) for h in hist] + [c_op_text(op, bodies)]
        pydefs = ''.join('def py%d(%s):\n    return (%s)\n' % (n, ', '.join('xyz'[:n]), ''.join(c + ', ' for c in 'xyz'[:n]))
                         for n in C_PY) if any('py' in s for s in steps) else ''
        body = ''.join(('try:\n    print(repr(%s))\nexcept Exception as e:\n    print("raised", type(e).__name__, e)\n' % s)
                       if s.startswith('w') and '=' not in s else s + '\n' for s in steps)
        viol.append(dict(key=key, observed=observed, expected=expected,
                         case={'part': 'c', 'history': [list(h) for h in hist], 'op': list(op),
                               'bodies': [list(b) for b in bodies]},
                         snippet=SNIP_HEAD + pydefs + body, group=group))

    if exp[0] == 'ok':
        if got[0] != 'ok':
            v('c: ' + ' ; '.join(c_op_text(h, bodies) for h in hist + (op,)), osh(got), 'no exception', None)
    elif exp[0] == 'raise':
        if got != ('exc', exp[1]):
            v('c: ' + ' ; '.join(c_op_text(h, bodies) for h in hist + (op,)), osh(got), 'exc:' + exp[1], None)
    else:
        target = exp[1]
        args = op[2]
        where = ('f bound to %s' % _bind_text(bound_before, bodies) if bound_before is not None
                 else 'f deleted, wrapper captured %s' % _bind_text(cap_before, bodies))
        py_involved = 'p' in (bound_before[0] if bound_before else '', cap_before[0] if cap_before else '')
        if bound_before is not None and cap_before != bound_before and py_involved:
            where += ', wrapper captured %s' % _bind_text(cap_before, bodies)
        key = 'c: %s ; wrapper(%s)' % (where, ', '.join(pyrepr(a) for a in args))
        arity = bodies[target[1]][1] if target[0] == 'k' else target[1]
        calls = [tuple(cn(a) for a in c[1]) for c in env.log[n_log:]]
        # root causes where a Python callable is involved (phase B)
        if bound_before is not None and cap_before != bound_before and cap_before[0] == 'p' and cap_before[2]:
            py_grp = 'callable-stored-over-existing-name-not-wrapped'     # klong['f'] handed out the bare function
        elif bound_before is not None and cap_before != bound_before and bound_before[0] == 'p':
            py_grp = 'wrapper-does-not-follow-rebinding-to-python-callable'
        else:
            py_grp = None
        if len(args) != arity:
            if got[0] != 'exc' or calls:
                grp = 'arity-inference-ignores-monad-operand' if target[0] == 'k' and _monad_only(bodies[target[1]][0]) else None
                v(key, osh(got), 'an exception (function takes %d argument%s)' % (arity, '' if arity == 1 else 's'),
                  py_grp or grp)
        elif target[0] == 'p':
            want_calls = [tuple(cn(a) for a in args)]
            obs = '%s calls=%s' % (osh(got), _calls_show(calls))
            want = 'ok:%d calls=%s' % (100 + n_log, _calls_show(want_calls))
            if obs != want:
                v(key, obs, want, py_grp)
        else:
            call = 'f(%s)' % ';'.join(lit(cn(a)) for a in args)
            n_ticks = len(env.ticks)
            if bound_before is not None:
                ref = outcome(lambda: env.kl(call))
            else:
                twin = KlongInterpreter()
                twin['tick'] = env.tick_fn
                twin(C_PRELUDE)
                twin('f::' + bodies[target[1]][0])
                ref = outcome(lambda: twin(call))
            ticks_ref = len(env.ticks) - n_ticks
            same = (got == ref) if ref[0] == 'ok' else (got[0] == 'exc')
            if ticks_wrapper != ticks_ref:
                v(key + ' @runs', 'the function body ran %d time(s) for one wrapper call' % ticks_wrapper,
                  '%d (as for klong(%r))' % (ticks_ref, call), 'wrapper-runs-the-function-again-after-its-keyerror')
            if not same:
                if got == ('exc', 'RuntimeError') and _monad_only(bodies[target[1]][0]):
                    grp = 'arity-inference-ignores-monad-operand'
                elif got == ('exc', 'ValueError') or any(_is_mixed(a) for a in args):
                    grp = 'wrapper-converts-list-arguments-with-np.asarray'
                else:
                    grp = None
                v(key, osh(got) + (' calls=' + _calls_show(calls) if calls else ''), osh(ref) + ' (= klong(%r))' % call,
                  py_grp or grp)
    return viol, osh(got)


def _bind_text(b, bodies):
    if b is None:
        return 'nothing'
    if b[0] == 'k':
        return bodies[b[1]][0]
    return 'a Python callable of %d parameter%s%s' % (b[1], '' if b[1] == 1 else 's',
                                                      ' (stored over an existing binding)' if b[2] else '')


def _monad_only(body):
    return body in ('{-x}', '{1,,x}', '{#x}', '{(-x),-y}')


def _is_mixed(a):
    return isinstance(a, list) and any(isinstance(e, (str, list)) for e in a) and not all(isinstance(e, str) for e in a)


def c_make_expand(bodies, arg_values, with_py):
    tuples = c_arg_tuples(arg_values)

    def expand(hist):
        out = {'succ': [], 'transitions': 0, 'vset': set(), 'outcomes': set(), 'calls': 0, 'writes': 0}
        env = c_build(hist, bodies)
        called0 = tuple(env.m.called)
        # calls are applied to the one instance in sequence (every one is compared on its own); every state-changing
        # operation gets a fresh replay of the history
        for s in (0, 1):
            if env.m.caps[s] is None:
                continue
            for t in tuples:
                with watchdog():
                    try:
                        vs, o = c_judge(env, ('call', s, t), hist)
                    except runner.CaseTimeout:
                        vs, o = [dict(key='c: ' + ' ; '.join(c_op_text(h, bodies) for h in hist + (('call', s, t),)),
                                      observed='did not terminate', expected='termination', case=None, snippet=None,
                                      group=None)], 'timeout'
                out['calls'] += 1
                out['transitions'] += 1
                for v in vs:
                    add_v(out, v)
                out['outcomes'].add(o[:40])
        # one well-formed call per wrapper as a history step of its own (see CModel.called)
        for sl in (0, 1):
            if env.m.caps[sl] is None:
                continue
            target = env.m.binding if env.m.binding is not None else env.m.caps[sl]
            ar = bodies[target[1]][1] if target[0] == 'k' else target[1]
            how = 'bound' if env.m.binding is not None else 'deleted'
            if how in called0[sl]:
                continue
            t0 = next((t for t in tuples if len(t) == ar), None)
            if t0 is None:
                continue
            e2 = c_build(hist + (('call', sl, t0),), bodies)
            out['succ'].append((('call', sl, t0), e2.m.key()))
        writes =[('def', i) for i in range(len(bodies)) if env.m.binding != ('k', i)]
        if with_py:
            writes += [('pydef', n) for n in C_PY if (env.m.binding or ())[:2] != ('p', n)]
        writes += [('del',), ('read', 0), ('read', 1)]
        for op in writes:
            try:
                with watchdog():
                    e2 = c_build(hist, bodies)
                    vs, o = c_judge(e2, op, hist)
            except runner.CaseTimeout:
                vs, o = [dict(key='c: ' + ' ; '.join(c_op_text(h, bodies) for h in hist + (op,)),
                              observed='did not terminate', expected='termination', case=None, snippet=None,
                              group=None)], 'timeout'
                e2 = None
            out['writes'] += 1
            out['transitions'] += 1
            for v in vs:
                add_v(out, v)
            out['outcomes'].add(o[:40])
            out['succ'].append((op, None if vs else e2.m.key()))
        return out
    return expand


# =============================================================================================
# part (d): imports

# (module, name, number of required positional parameters, argument tuples as canonical values)
_V = [I(4), R(2.25), L(I(1), I(4)), L(R(0.25), R(9.0))]
_P = [(I(2), I(3)), (R(2.5), I(2)), (L(I(1), I(2)), I(2)), (L(I(1), I(2)), L(I(3), I(4)))]
D_TABLE = [
    ('numpy', 'sqrt', 1, [(a,) for a in _V]), ('numpy', 'negative', 1, [(a,) for a in _V]),
    ('numpy', 'absolute', 1, [(a,) for a in _V]), ('numpy', 'exp', 1, [(a,) for a in _V]),
    ('numpy', 'floor', 1, [(a,) for a in _V]), ('numpy', 'square', 1, [(a,) for a in _V]),
    ('numpy', 'add', 2, _P), ('numpy', 'subtract', 2, _P), ('numpy', 'multiply', 2, _P), ('numpy', 'power', 2, _P),
    ('numpy', 'maximum', 2, _P), ('numpy', 'arctan2', 2, _P), ('numpy', 'hypot', 2, _P),
    ('numpy', 'sum', 1, [(L(I(1), I(2), I(3)),), (L(L(I(1), I(2)), L(I(3), I(4))),)]),
    ('numpy', 'cumsum', 1, [(L(I(1), I(2), I(3)),)]), ('numpy', 'sort', 1, [(L(I(3), I(1), I(2)),)]),
    ('numpy', 'mean', 1, [(L(I(1), I(2), I(3)),)]), ('numpy', 'round', 1, [(R(2.567),), (L(R(0.5), R(1.5)),)]),
    ('numpy', 'linspace', 2, [(I(0), I(1))]), ('numpy', 'dot', 2, [(L(I(1), I(2)), L(I(3), I(4)))]),
    ('numpy', 'where', 3, [(L(I(1), I(0), I(1)), L(I(1), I(2), I(3)), L(I(4), I(5), I(6)))]),
    ('numpy', 'transpose', 1, [(L(L(I(1), I(2)), L(I(3), I(4))),)]),
    ('math', 'sqrt', 1, [(I(4),), (R(2.25),)]), ('math', 'floor', 1, [(R(2.5),)]), ('math', 'exp', 1, [(I(1),)]),
    ('math', 'pow', 2, [(I(2), I(3)), (R(2.5), I(2))]), ('math', 'atan2', 2, [(I(1), I(2))]),
    ('math', 'fmod', 2, [(I(7), I(3))]), ('math', 'fsum', 1, [(L(I(1), I(2), I(3)),)]),
    ('math', 'copysign', 2, [(I(3), R(-1.5))]),
]

D_MODULE_SRC = '''"""scratch module of the C09 check: instrumented functions whose parameters are not called x, y, z"""
LOG = []


def nil():
    LOG.append(())
    return 100 + len(LOG) - 1


def one(a):
    LOG.append((a,))
    return 100 + len(LOG) - 1


def two(a, b):
    LOG.append((a, b))
    return 100 + len(LOG) - 1


def three(a, b, c):
    LOG.append((a, b, c))
    return 100 + len(LOG) - 1


def zyx(z, y, x):
    LOG.append((z, y, x))
    return 100 + len(LOG) - 1


def opt(a, b=77):
    LOG.append((a, b))
    return 100 + len(LOG) - 1


def kfirst(klong, a, b):
    LOG.append((type(klong).__name__, a, b))
    return 100 + len(LOG) - 1


def allopt(a=77, b=88):
    LOG.append((a, b))
    return 100 + len(LOG) - 1


def var(*args):
    LOG.append(tuple(args))
    return 100 + len(LOG) - 1
'''
D_MODNAME = 'c09mod'

# name -> (number of arguments applied, function computing the expected log entry from the canonical args)
D_MOD_FUNCS = {
    'nil': [(0, lambda A: ())],
    'one': [(1, lambda A: A)],
    'two': [(2, lambda A: A)],
    'three': [(3, lambda A: A)],
    'zyx': [(3, lambda A: A)],
    'opt': [(1, lambda A: A + (I(77),))],
    'kfirst': [(2, lambda A: (S('KlongInterpreter'),) + A)],
    'allopt': [(0, lambda A: (I(77), I(88))), (1, lambda A: A + (I(88),)), (2, lambda A: A)],
    'var': [(0, lambda A: ()), (1, lambda A: A), (2, lambda A: A), (3, lambda A: A)],
}


def d_cases(quick, moddir):
    cases = []
    for mod, name, n, tuples in D_TABLE:
        for how in ('pyf', 'py'):
            if how == 'py' and (quick or mod == 'numpy'):          # .py("numpy") binds ~600 names per interpreter
                continue
            for A in tuples:
                cases.append(('dlib', mod, name, how, 'direct', A))
                if n == 2:
                    cases.append(('dlib', mod, name, how, 'proj:0', A))
                    cases.append(('dlib', mod, name, how, 'proj:1', A))
    uni = ARGS5
    for fname, variants in D_MOD_FUNCS.items():
        for k, _ in variants:
            for how in ('py', 'pyf'):
                forms = ['direct']
                if k == 2:
                    forms += ['proj:0', 'proj:1']
                if k == 3 and not quick:
                    forms += ['proj:' + ''.join(map(str, m)) for m in PROJ_MASKS[3]]
                for form in forms:
                    for A in itertools.product(uni, repeat=k):
                        cases.append(('dmod', fname, k, how, form, A))
                if k == 1 and fname == 'one':
                    for A in itertools.product(uni, repeat=2):
                        cases.append(('dmod', fname, k, how, 'each', A))
                if k == 2 and fname == 'two':
                    for A in itertools.product(uni, repeat=3):
                        cases.append(('dmod', fname, k, how, 'over', A))
    return cases


def _d_text(name, form, A):
    t, _, calls, res = b_expect(form, len(A) if form not in ('each', 'over') else {'each': 1, 'over': 2}[form], A)
    return t.replace('f(', name + '(', 1).replace("f'", name + "'").replace('f/', name + '/') if t else t, calls, res


def d_run_case(case, moddir):
    out = new_part()
    kind = case[0]
    kl = KlongInterpreter()
    if kind == 'dlib':
        _, mod, name, how, form, A = case
        imp = '.pyf("%s";"%s")' % (mod, name) if how == 'pyf' else '.py("%s")' % mod
        text, _, _ = _d_text(name, form, A)
        fn = getattr(__import__(mod), name)
        want = outcome(lambda: fn(*[to_py(a, 'np') for a in A]))
        r0 = outcome(lambda: kl(imp))
        got = outcome(lambda: kl(text)) if r0 == ('ok', I(1)) else ('exc', 'import:' + osh(r0))
        out['n'] += 1
        out['outcomes'].add(osh(got)[:40])
        if got != want and got[0] == 'exc' and core_form_fails(name, len(A), text, got):
            out.setdefault('unjudged_core_form_fails', set()).add('%s -> %s' % (text, osh(got)))
            out['n'] += 1
        elif got != want:
            add_v(out, dict(
                key='d: %s ; %s' % (imp, text), observed=osh(got), expected=osh(want) + ' (= %s.%s(%s))' % (
                    mod, name, ', '.join(pyrepr(to_py(a, 'np')) for a in A)),
                case={'part': 'd', 'kind': kind, 'mod': mod, 'name': name, 'how': how, 'form': form, 'args': A},
                snippet=SNIP_HEAD + 'klong(%r)\nprint(repr(klong(%r)))\n' % (imp, text), group=None))
        if form == 'direct' and A == D_TABLE[0][3][0]:
            out['samples'].append(['d', imp, text, osh(got)])
        return out
    _, fname, k, how, form, A = case
    path = os.path.join(moddir, D_MODNAME)
    imp = '.py("%s")' % path if how == 'py' else '.pyf("%s";"%s")' % (path, fname)
    text, want_calls, want_res = _d_text(fname, form, A)
    entry = dict(D_MOD_FUNCS[fname])[k]
    want_calls = [tuple(norm(a) for a in entry(tuple(c))) for c in want_calls]
    r0 = outcome(lambda: kl(imp))
    module = sys.modules.get(D_MODNAME)
    if r0 != ('ok', I(1)) or module is None:
        got, calls = ('exc', 'import:' + osh(r0)), []
    else:
        del module.LOG[:]
        got = outcome(lambda: kl(text))
        calls = [tuple(cn(a) for a in c) for c in module.LOG]
        del module.LOG[:]
    out['n'] += 1
    obs = '%s calls=%s' % (osh(got), _calls_show(calls))
    exp = 'ok:%s calls=%s' % (show(want_res), _calls_show(want_calls))
    out['outcomes'].add(obs[:40] if got[0] == 'exc' else 'ok/%d calls' % len(calls))
    n_twin = {'each': 1, 'over': 2}.get(form, k)
    if obs != exp and got[0] == 'exc' and not calls and n_twin > 0 and core_form_fails(fname, n_twin, text, got):
        out.setdefault('unjudged_core_form_fails', set()).add('%s -> %s' % (text, osh(got)))
        out['n'] += 1
    elif obs != exp:
        add_v(out, dict(
            key='d: %s ; %s' % (imp.replace(moddir, '<scratch>'), text), observed=obs, expected=exp,
            case={'part': 'd', 'kind': kind, 'fname': fname, 'k': k, 'how': how, 'form': form, 'args': A},
            snippet='# module source: mc.props.c09_interop.D_MODULE_SRC written to <scratch>/%s/__init__.py\n' % D_MODNAME
                    + SNIP_HEAD + 'klong(%r)\nprint(repr(klong(%r)))\n' % (imp.replace(moddir, '<scratch>'), text),
            group='import-wildcard' if fname in ('allopt', 'var') else None))
    return out


def write_module(moddir):
    d = os.path.join(moddir, D_MODNAME)
    os.makedirs(d, exist_ok=True)
    with open(os.path.join(d, '__init__.py'), 'w') as f:
        f.write(D_MODULE_SRC)
    return d


# =============================================================================================
# self-test of the oracle tables

def selftest():
    return 'C09: %d examples of the call-form table and of the wrapper model reproduced' % _selfcheck()


def _selfcheck():
    ex = [
        ('direct', 2, (I(1), R(2.5)), 'f(1;2.5)', [(I(1), R(2.5))], I(100)),
        ('proj:1', 2, (I(1), S('s')), 'g::f(;"s");g(1)', [(I(1), S('s'))], I(100)),
        ('proj:02', 3, (I(1), I(2), I(3)), 'g::f(1;;3);g(2)', [(I(1), I(2), I(3))], I(100)),
        ('each', 1, (I(1), R(2.5)), "f'[1 2.5]", [(R(1.0),), (R(2.5),)], L(I(100), I(101))),
        ('each2', 2, (I(1), Y('sym')), "[1 :sym]f'[:sym 1]", [(I(1), Y('sym')), (Y('sym'), I(1))], L(I(100), I(101))),
        ('over', 2, (I(1), L(I(1), I(2)), S('s')), 'f/[1 [1 2] "s"]', [(I(1), L(I(1), I(2))), (I(100), S('s'))], I(101)),
        ('atlist', 3, (I(1), I(2), R(2.5)), 'f@[1 2 2.5]', [(R(1.0), R(2.0), R(2.5))], I(100)),
        ('atatom', 1, (Y('sym'),), 'f@:sym', [(Y('sym'),)], I(100)),
    ]
    for form, n, A, text, calls, res in ex:
        t, _, c, r = b_expect(form, n, A)
        if (t, c, r) != (text, calls, res):
            raise runner.HarnessError('C09 form table self-check failed for %s: %r' % (form, (t, c, r)))
    if len(all_signatures(True)) != 21 or len(set(all_signatures(True)[:16])) != 16:
        raise runner.HarnessError('C09 signature enumeration self-check failed')
    log = []
    f = make_callable((('klong', None), ('x', None), ('z', None)), log)
    if f('K', 1, 2) != 100 or log != [('K', (1, 2))]:
        raise runner.HarnessError('C09 instrumented callable self-check failed')
    return len(ex) + c_selftest_model()


# =============================================================================================
# run / replay

def _work_factory(quick, universe, sigs, moddir):
    def work(cases):
        total = new_part()
        for case in cases:
            try:
                with watchdog():
                    part = case[0]
                    if part == 'a':
                        r = a_run_case(case[1:], universe)
                    elif part == 'b':
                        r = b_run_case(case, sigs)
                    elif part == 'bret':
                        r = bret_run_case(case, universe)
                    else:
                        r = d_run_case(case, moddir)
            except runner.CaseTimeout:
                r = new_part()
                r['n'] = 1
                add_v(r, dict(key='%s: %r' % (case[0], case[1:]), observed='did not terminate',
                              expected='termination', case={'part': case[0], 'raw': repr(case)},
                              snippet=None, group=None))
            r['n_' + case[0][0]] = r['n']
            runner.merge_counts(total, r)
        return total
    return work


def run(cfg):
    rep = runner.Report(PID, 'model_checking')
    n_self = _selfcheck()
    quick = cfg.quick
    universe = a_universe(quick)
    sigs, bcases = b_cases(quick)
    moddir = runner.scratch_dir()
    write_module(moddir)
    names = ['n'] if quick else ['n', 'data']
    acases = [('a', vi, name, prior) for vi in range(len(universe)) for name in names for prior, _ in A_PRIORS]
    rcases = [('bret', vi, form) for vi in range(len(universe)) for form in ('direct', 'nilad', 'pyget')]
    dcases = d_cases(quick, moddir)
    cases = acases + bcases + rcases + dcases
    total = new_part()
    # Forking costs more than it saves for sub-millisecond cases: measured, the quick tier is 12 s of CPU in one
    # process but > 50 s of CPU when fanned out (7 s wall at best; many minutes when the cores are shared with other
    # jobs, because pinned workers starve), the thorough tier 79 s in one process vs 16 s .. > 1 h.  Both tiers
    # therefore run in this process (cfg.jobs is not used); cfg.seed still permutes the order of the product cases.
    cfg1 = runner.Cfg(cfg.pid, cfg.tier, cfg.seed, 1)
    for part in runner.pmap(_work_factory(quick, universe, sigs, moddir), cases, cfg1, chunk=60):
        runner.merge_counts(total, part)

    # part (c)
    bodies = C_BODIES_Q if quick else C_BODIES_T
    ca = bfs.search(c_make_expand(bodies, C_ARG_VALUES_Q if quick else C_ARG_VALUES_T, False), cfg1,
                    cfg.pick(4, 6), init_key=CModel().key())
    cb = bfs.search(c_make_expand(C_BODIES_B, C_ARG_VALUES_B, True), cfg1, cfg.pick(6, 9), init_key=CModel().key())
    # thorough: depth 6 closes the model's state space ((bodies+1)^3 states, all reachable in <= 5 operations), so
    # every wrapper call is judged in every state and the last layer finds no new state

    def fold(vs):
        best = {}
        for v in vs:
            k = (v['key'], v['observed'])
            hl = len(v['case']['history']) if v.get('case') else 0
            cur = best.get(k)
            cand = (hl, json.dumps(v['case'], sort_keys=True, default=str))
            if cur is None or cand < cur[0]:
                best[k] = (cand, v)
        return [best[k][1] for k in sorted(best)]

    viol = sorted(get_vs(total), key=lambda v: (v['key'], v['observed']))
    viol += fold(get_vs(ca)) + fold(get_vs(cb))
    rep.extend_violations(viol)
    allsamples = sorted(total['samples'], key=repr)
    total['samples'] = [s for p in 'abd' for s in [x for x in allsamples if x[0] == p][:3]]

    n_prod = total['n']
    trans = n_prod + ca['transitions'] + cb['transitions']
    outcomes = set(total['outcomes']) | set(ca.get('outcomes', ())) | set(cb.get('outcomes', ()))
    unj = sorted(set(total.get('unjudged_native_differs', [])))
    unj_core = sorted(set(total.get('unjudged_core_form_fails', [])))
    rep.coverage = {
        'states': ca['states'] + cb['states'],
        'transitions': trans,
        'traces_validated_against_impl': trans,
        'samples': total['samples'] + [
            ["klong('f::{x-y}')", "w0 = klong['f']", "klong('f::{x+1}')", "del klong['f']", 'w0(3)  # falls back to {x-y}: must raise'],
        ],
        'exhaustive': not (ca['capped'] or cb['capped']),
        'distinct_outcomes': len(outcomes),
        'parts': {
            'a_round_trip': {'cases': len(acases), 'values': len(universe), 'names': names, 'priors': [p for p, _ in A_PRIORS],
                             'observers': ['klong[n]'] + A_OBSERVERS, 'evaluations': total.get('n_a', 0),
                             'unjudged_native_differs': unj},
            'b_callables': {'cases': len(bcases), 'signatures': [sig_text(s) for s in sigs], 'evaluations': total.get('n_b', 0),
                            'forms': sorted({c[2] for c in bcases}), 'priors': [p for p, _ in B_PRIORS],
                            'return_value_cases': len(rcases)},
            'c_wrapper': {'phaseA': {'bodies': [b for b, _ in bodies], 'layers': ca['layers'], 'max_depth': ca['max_depth'],
                                     'states': ca['states'], 'calls': ca.get('calls', 0), 'writes': ca.get('writes', 0),
                                     'frontier_states_not_expanded': ca['unexpanded_frontier']},
                          'phaseB_with_python_rebinding': {'bodies': [b for b, _ in C_BODIES_B], 'layers': cb['layers'],
                                                           'max_depth': cb['max_depth'], 'states': cb['states'],
                                                           'calls': cb.get('calls', 0), 'writes': cb.get('writes', 0),
                                                           'frontier_states_not_expanded': cb['unexpanded_frontier']}},
            'd_imports': {'cases': len(dcases), 'evaluations': total.get('n_d', 0),
                          'library_functions': ['%s.%s' % (m, n) for m, n, _, _ in D_TABLE],
                          'module_functions': sorted(D_MOD_FUNCS)},
        },
        'unjudged_core_form_fails': {'count': len(unj_core), 'examples': unj_core[:8]},
        'oracle_selfcheck': n_self,
        'rule': 'complete products: (a) value x name x earlier binding x observer; (b) signature x argument tuple x call '
                'form x earlier binding, with call log; (d) imported function x argument tuple x call form; (c) BFS '
                'over histories of {define body i, delete, read wrapper into slot 0/1} with every wrapper called with '
                'every argument tuple of 0..3 values in every state; states merged on (binding, captured binding per slot)',
    }
    rep.assumptions = [
        'canonical comparison (values.cn): Python list / tuple / ndarray with equal contents are the same value; int vs '
        'real kind kept; numeric-block promotion applied to both sides (members of a list literal with one real are reals)',
        '(a) "seen by programs" is judged with the program n and five identity contexts; a context whose result differs '
        'from the value already when n is defined natively by a literal is not judged here (listed in '
        'coverage.parts.a_round_trip.unjudged_native_differs)',
        '(b) a callable with k parameters besides klong is judged only on applications with exactly k arguments '
        '(defaults: never under-applied); Each / Each-2 / Over take their operands from list literals',
        '(b, d) a program that raises without any call logged is not judged when the same program raises the same exception '
        'class with the name bound to a native Klong function of that arity (the call form is broken in the core for '
        'these operands, e.g. a projection fixing a list argument: C03); counted in coverage.unjudged_core_form_fails',
        '(c) states with equal (binding, captured bindings) have the same futures; a wrong-arity call must raise any '
        'exception; where the Klong-level call itself raises, the wrapper must raise too (class not compared); after '
        'deletion the reference value comes from a twin interpreter holding the captured body',
        '(d) goes beyond the letter of the statement (parameters not named x, y, z): judged per docs/python_integration.md '
        '"KlongPy will attempt to remap loaded functions to use the x,y and z convention"; only applications with as '
        'many arguments as there are required positional parameters (all-optional and *args functions: 0..3 arguments)',
        'storing a KGFnWrapper / KGLambda object under another name, names with module qualifiers, globals named x, y, z '
        'and non-numpy backends are not covered',
    ]
    if unj_core:
        rep.notes.append('%d program texts (b, d) not judged: the call form raises the same exception with a native Klong '
                         'function of the same arity (e.g. %s)' % (len(unj_core), unj_core[0]))
    if unj:
        rep.notes.append('%d (value, observer) pairs not judged because the observer is not an identity natively' % len(unj))
    return rep


def replay(cfg, path):
    with open(path) as f:
        r = json.load(f)
    case = r.get('case') or {}
    print('key     :', r.get('key'))
    print('recorded:', r.get('observed'))
    print('expected:', r.get('expected'))
    part = case.get('part')
    if part == 'a':
        uni = a_universe(False)
        vi = [l for l, _ in uni].index(case['value'])
        out = a_run_case((vi, case['name'], case['prior']), uni)
    elif part == 'b':
        sig = tuple((p, d) for p, d in case['sig'])
        out = b_run_case(('b', 0, case['form'], retuple(case['args']), case['prior']), [sig])
    elif part == 'bret':
        uni = a_universe(False)
        vi = [l for l, _ in uni].index(case['value'])
        out = bret_run_case(('bret', vi, case['form']), uni)
    elif part == 'c':
        bodies = [tuple(b) for b in case['bodies']]
        hist = tuple(_op_from_json(h) for h in case['history'])
        op = _op_from_json(case['op'])
        env = c_build(hist, bodies)
        for h in hist:
            print('  ', c_op_text(h, bodies))
        vs, o = c_judge(env, op, hist)
        print('  ', c_op_text(op, bodies), '->', o)
        out = {'violations': vs}
    elif part == 'd':
        moddir = runner.scratch_dir()
        write_module(moddir)
        if case['kind'] == 'dlib':
            c = ('dlib', case['mod'], case['name'], case['how'], case['form'], retuple(case['args']))
        else:
            c = ('dmod', case['fname'], case['k'], case['how'], case['form'], retuple(case['args']))
        out = d_run_case(c, moddir)
    else:
        print('no replayable case in', path)
        return 2
    vs = out['violations'] if 'violations' in out else get_vs(out)
    if not vs:
        print('now     : no violation')
    for v in vs:
        print('now     :', v['key'], '->', v['observed'], ' (expected %s)' % v['expected'])
    return 0


def _op_from_json(o):
    o = list(o)
    if o[0] == 'call':
        return ('call', o[1], tuple(o[2]))
    return tuple(o)

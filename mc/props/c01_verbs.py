"""C01 - primitive verbs return what the Klong reference prescribes, for all operands.

E1 (complete product enumeration + depth-2 closure): every monad x every operand and every dyad x every ordered operand
pair of a closed universe, evaluated as source text `VERB(<a>)` / `(<a>)VERB(<b>)` by KlongInterpreter.__call__ and
compared with the reference model mc.ref.verbs (written from the reference text; validated against the reference's own
examples).  Depth 2: compositions whose intermediate result has a runtime representation that no literal produces; only
intermediate results that agree with the reference are extended (a deviating one is reported once, at depth 1, and
would otherwise be reported again under every outer verb with an expected value computed from another operand).
"""
import json

import numpy as np

from klongpy import KlongInterpreter

from .. import runner
from ..ref import verbs, verbs_examples
from ..values import I, R, C, S, Y, L, cn, lit, show, norm, from_py as P

MONADS = ['@', ':#', '!', '&', '*', '_', '$', '<', '>', '=', ',', '-', '~', '?', '%', '|', '^', '#', '+', ':_']
DYADS = ['+', '-', '*', '%', ':%', '!', '^', '&', '|', '<', '>', '=', '~', ',', '#', '_', '@', ':@', '?', ':#', ':_', ':+',
         ':^', ':=', ':-', '$', ':$']


def universe(quick):
    ints = [0, 1, -1, 2, 3, 5, -3, 7, 10, 123456789012]
    reals = [0.5, -1.5, 2.0, 1e-7, 1.5e20, 0.1, 5.3]
    chars = [C('a'), C('b'), C('A'), C('0'), C('"'), C(' ')]
    strs = ['', 'a', 'abc', 'hello foo', 'a"b', 'xyyyyz', 'yy', '-123', '1.5', ':sym']
    syms = [Y('foo'), Y('x')]
    vecs = [[], [1], [1, 2, 3], [3, 1, 2], [1, 1, 2, 2, 1], [0, 1, 0, 1, 0], [1.5, 2.5], [2, 0.5, -1.5], [1, 2, 3, 4, 5],
            [0, 2], [5, 1, 2, 3, 4, 7]]
    mats = [[[1, 2], [3, 4]], [[1, 2, 3], [4, 5, 6]], [[1], [2], [3]], [[1, 2, 3]], [[[1, 2], [3, 4]], [[5, 6], [7, 8]]],
            [[1.5, 2], [3, 4]]]
    nested = [[1, [2, 3]], [1, [2, 3, 4]], [[1], [2, 3]], [1, [2, [3]]], [[], [1]], ['ab', 'cd'], ['a', 'bcd'], [1, 'a', C('b'), Y('foo')],
              [C('a'), C('b')], [Y('foo'), Y('x')], ['abc', 1, 2], [C('x'), 1, 3], [9, 0, 1], [[9, 9], 1], [42, 0, 1],
              ['xx', 1, 4], [0, 0], [2, 3, 5], [1, 1]]
    u = [P(x) for x in ints + reals] + chars + [P(x) for x in strs] + syms + [P(x) for x in vecs + mats + nested]
    # the literal of a rectangular numeric list with one real element evaluates to an all-real block ([2 0.5] is [2.0 0.5]):
    # the reference model is given the operand the interpreter holds, not the spelling (otherwise structural verbs that take
    # such a list apart - Cut, Split, Take - would be expected to hand back an integer that no longer exists)
    u = [norm(x) for x in u]
    if quick:
        keep = ([P(x) for x in [0, 1, -1, 2, 3, -3, 7, 123456789012, 0.5, -1.5, 2.0, 5.3]] + chars[:3] + [C('"')]
                + [P(x) for x in ['', 'a', 'abc', 'hello foo', '-123', '1.5']] + syms[:1]
                + [P(x) for x in [[], [1], [1, 2, 3], [3, 1, 2], [1, 1, 2, 2, 1], [0, 1, 0, 1, 0], [1.5, 2.5], [5, 1, 2, 3, 4, 7],
                                  [0, 2]]]
                + [P(x) for x in mats[:3] + [mats[4]]]
                + [P(x) for x in [[1, [2, 3]], [1, [2, 3, 4]], [[1], [2, 3]], [[], [1]], ['ab', 'cd'], [1, 'a', C('b'), Y('foo')],
                                  [C('x'), 1, 3], [9, 0, 1], [42, 0, 1], ['xx', 1, 4], [2, 3, 5], [1, 1]]])
        return [norm(x) for x in keep]
    return u


def monad_text(v, a):
    return '%s(%s)' % (v, lit(a))


def dyad_text(v, a, b):
    return '(%s)%s(%s)' % (lit(a), v, lit(b))


def signature(x):
    """Runtime representation of a result object (used only to select depth-2 cases, never to judge)."""
    t = type(x)
    if isinstance(x, np.ndarray):
        if x.dtype == object:
            return ('nd', 'O', x.ndim, tuple(sorted({signature(e)[0:2] for e in x.ravel()[:6]})))
        return ('nd', str(x.dtype), x.ndim, x.size == 0, not x.flags['OWNDATA'])
    if isinstance(x, (list, tuple)):
        return (t.__name__, tuple(sorted({signature(e)[0:2] for e in x[:6]})))
    return (t.__module__.split('.')[0], t.__name__)


def evaluate(kl, text):
    try:
        with runner.watchdog(20):
            r = kl(text)
        return ('ok', cn(r), r)
    except runner.CaseTimeout:
        return ('exc', 'TIMEOUT', None)
    except RecursionError:
        return ('exc', 'RecursionError', None)
    except Exception as e:      # noqa: BLE001
        return ('exc', type(e).__name__, None)


def check_case(kl, text, expected, out, group):
    if expected is verbs.NJ:
        # outside the domain the reference defines: not evaluated at all (such cases include `!123456789012`)
        out['not_judged'] += 1
        return ('skip', None, None)
    got = evaluate(kl, text)
    out['evaluations'] += 1
    out['judged'] += 1
    if got[0] == 'ok':
        ok, desc = verbs.judge(expected, got[1])
        observed = 'ok:' + show(got[1])
    else:
        ok, desc = False, (show(verbs.norm(expected[1])) if expected[0] == 'val' else expected[2])
        observed = 'exc:' + got[1]
    out['outcomes'].add(hash((group, observed)) & 0xffffffff)
    if not ok:
        out['violations'].append(dict(key=text, observed=observed, expected=desc, group=group, case={'text': text},
                                      snippet='from klongpy import KlongInterpreter\nprint(repr(KlongInterpreter()(%r)))' % text))
        return ('bad', got[1], got[2])
    return got


def work_depth1(items):
    kl = KlongInterpreter()
    out = {'evaluations': 0, 'judged': 0, 'not_judged': 0, 'violations': [], 'outcomes': set(), 'novel': []}
    literal_sigs = set()
    for kind, v, a, b in items:
        if kind in ('m', 'mx'):
            text, exp = monad_text(v, a), verbs.MONADS[v](a)
        else:
            text, exp = dyad_text(v, a, b), verbs.DYADS[v](a, b)
        got = check_case(kl, text, exp, out, ('monad ' if kind in ('m', 'mx') else 'dyad ') + v)
        if kind != 'mx' and got[0] == 'ok' and exp is not verbs.NJ and exp[0] == 'val' and got[1][0] in 'irl':
            out['novel'].append((text, verbs.norm(exp[1]), repr(signature(got[2]))))
    return out


def work_depth2(items):
    kl = KlongInterpreter()
    out = {'evaluations': 0, 'judged': 0, 'not_judged': 0, 'violations': [], 'outcomes': set()}
    for kind, v2, inner_text, inner_val, other in items:
        if kind == 'm':
            text, exp = '%s(%s)' % (v2, inner_text), verbs.MONADS[v2](inner_val)
        elif kind == 'dl':
            text, exp = '(%s)%s(%s)' % (inner_text, v2, lit(other)), verbs.DYADS[v2](inner_val, other)
        else:
            text, exp = '(%s)%s(%s)' % (lit(other), v2, inner_text), verbs.DYADS[v2](other, inner_val)
        check_case(kl, text, exp, out, 'depth2 ' + v2)
    return out


def special_cases(out):
    """:undefined has no literal: its cases are written out."""
    kl = KlongInterpreter()
    for text, exp in [(':_(1%0)', I(1)), (':_(:{[1 2]}?3)', I(1)), (':_(%0)', I(1)), ('1%0', ('u',)), ('%0', ('u',)),
                      (':_([1 2 3]?4)', I(0)), ('1:$""', ('u',)), ('0c0:$"xy"', ('u',)), ('1:$"1.5"', ('u',))]:
        check_case(kl, text, ('val', exp), out, 'undefined')


def run(cfg):
    rep = runner.Report('C01', 'model_checking')
    check = verbs_examples.selfcheck()
    U = universe(cfg.quick)
    items = [('m', v, a, None) for v in MONADS for a in U] + [('d', v, a, b) for v in DYADS for a in U for b in U]
    # operands for the monads only: lists with a repeated element that is itself a list of strings / a nested list, and
    # lists whose elements hold the same numbers in different shapes (what "the same element" means for Range, Group, Grade)
    # (not extended at depth 2)
    extra = [norm(P(x)) for x in [[['ab', 'cd'], ['ef', 'gh'], ['ab', 'cd']]]]
    items += [('mx', v, a, None) for v in MONADS for a in extra]
    total = {}
    for part in runner.pmap(work_depth1, items, cfg):
        runner.merge_counts(total, part)
    special = {'evaluations': 0, 'judged': 0, 'not_judged': 0, 'violations': [], 'outcomes': set()}
    special_cases(special)
    runner.merge_counts(total, special)
    # depth 2: one representative per (canonical value, runtime signature) that no literal produces
    kl = KlongInterpreter()
    lit_sigs = set()
    for a in U:
        try:
            lit_sigs.add(repr(signature(kl(lit(a)))))
        except Exception:       # noqa: BLE001
            pass
    reps = {}
    for text, v, sig in sorted(total.pop('novel', []), key=lambda t: (len(t[0]), t[0])):
        if sig in lit_sigs:
            continue
        reps.setdefault((v, sig), text)
    d2_total = {}
    n_reps = len(reps)
    if not cfg.quick or n_reps:
        sel = sorted(reps.items(), key=lambda kv: (len(kv[1]), kv[1]))
        # one (quick) / three (thorough) representative values per runtime signature, shortest producing text first:
        # the point of depth 2 is the representation, every value already occurs at depth 1
        per_sig = cfg.pick(1, 3)
        by_sig = {}
        for (v, sig), text in sel:
            lst = by_sig.setdefault(sig, [])
            if len(lst) < per_sig:
                lst.append(((v, sig), text))
        sel = sorted((x for lst in by_sig.values() for x in lst), key=lambda kv: (len(kv[1]), kv[1]))
        others = [P(x) for x in [0, 2, -1, 1.5, [1, 2, 3], [0, 1], 'ab', [[1, 2], [3, 4]]]]
        items2 = []
        for (v, sig), text in sel:
            for v2 in MONADS:
                items2.append(('m', v2, text, v, None))
            for v2 in DYADS:
                for o in others:
                    items2.append(('dl', v2, text, v, o))
                    items2.append(('dr', v2, text, v, o))
        for part in runner.pmap(work_depth2, items2, cfg):
            runner.merge_counts(d2_total, part)
    for k in ('evaluations', 'judged', 'not_judged'):
        total[k] = total.get(k, 0) + d2_total.get(k, 0)
    total.setdefault('outcomes', set()).update(d2_total.get('outcomes', ()))
    total.setdefault('violations', []).extend(d2_total.get('violations', []))
    rep.extend_violations(total['violations'])
    rep.coverage = {
        'states': len(total['outcomes']),
        'transitions': total['evaluations'],
        'traces_validated_against_impl': total['evaluations'],
        'samples': [monad_text('=', P('hello foo')), dyad_text(':#', I(3), P([1, 2, 3, 4])), dyad_text(',', P([1, [2, 3]]), C('a'))],
        'exhaustive': True,
        'evaluations': total['evaluations'],
        'judged_in_domain': total['judged'],
        'outside_reference_domain_not_judged': total['not_judged'],
        'operands': len(U),
        'depth2_representations': n_reps,
        'depth2_evaluations': d2_total.get('evaluations', 0),
        'distinct_outcomes': len(total['outcomes']),
        'oracle_selfcheck': check,
        'errata': verbs_examples.ERRATA,
        'rule': '20 monads x operands + 27 dyads x ordered operand pairs of the closed universe (source text evaluated by the '
                'interpreter), plus compositions V2(V1(a)) / (V1(a))V2(b) / (b)V2(V1(a)) for every intermediate result whose '
                'runtime representation no literal produces; states = distinct (verb, outcome) pairs; a case is judged only '
                'inside the domain the reference text defines for the verb',
    }
    rep.assumptions = [
        'reference model mc/ref/verbs.py transcribed from the reference text in the docstrings; reproduces %s' % check,
        'numeric-block promotion (DESIGN 2.4) applied to both sides; reals compared with rtol 1e-12',
        'accept sets where the text is silent: order of equal keys in Grade, digits of formatted reals, [0ca] vs "a" for List '
        'and Join of characters, integer kind of an integral real Power, kind of mixed Min/Max',
        'integer results with magnitude >= 2^53 are outside the judged domain (fixed-width integers)',
    ]
    return rep


def selftest():
    return verbs_examples.selfcheck()


def replay(cfg, path):
    with open(path) as f:
        r = json.load(f)
    text = r['case']['text']
    kl = KlongInterpreter()
    got = evaluate(kl, text)
    print(text, '->', ('ok:' + show(got[1])) if got[0] == 'ok' else 'exc:' + got[1])
    print('expected:', r['expected'])
    return 0

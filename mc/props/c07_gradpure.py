"""C07 - gradient and Jacobian computation is observationally pure.

Fault enumeration over the real interpreter (DESIGN 3.C07).  A *scenario* is

    form        one of FORMS: how the gradient / Jacobian is requested
  x kind        the parameter being differentiated: float64 vector, int vector, real scalar, 2x2 matrix (more in thorough)
  x body        what the differentiated function does: smooth | returns a vector where a scalar is required | refers to an
                unknown name | returns a string | calls an instrumented Python function `probe` (identity)
  x backend     numpy (numeric differentiation) | torch on cpu (autograd)
  x k           for probe bodies: probe raises at its k-th invocation during the gradient expression, for EVERY k from 1 to
                the number of invocations a fault-free run makes (counted in a dry run on a clean interpreter); k = 0 is the
                fault-free run
  x exception   class raised by the probe

Every scenario runs on a fresh interpreter:

    define parameters, f (and probe)          v0 = outcome of f applied to the point       S0 = typed snapshot of all scopes
    G1 = outcome of the gradient text (probe armed)
    S1 = snapshot, must equal S0              v1 = f applied again, must equal v0
    G2 = the same gradient text again (probe quiet), must equal the answer of a clean interpreter
    S2 = snapshot, must equal S0
    rebind f to the smooth body; G3 = the same gradient text again, must equal the clean answer for the smooth body
         (the text is the same string, so a literal point lives in the cached parse tree: corruption shows here)

The snapshot is *typed*: ndarray vs Tensor vs Python float vs numpy scalar, dtype, shape, requires_grad / grad_fn, exact
element values; functions and other non-data objects are compared by identity; the depth of the scope stack is part of it.
"""
import json

import numpy as np

from .. import runner
from ..values import _is_tensor
from klongpy.types import KGSym, KGChar

CASE_TIMEOUT = 20.0

# form -> (family, how the point is passed)
FORMS = {
    'f:>p': ('grad', 'lit'),
    'f:>a': ('grad', 'var'),
    'a∇f': ('grad', 'var'),
    'p∂g': ('jac', 'lit'),
    '.jacobian(g;a)': ('jac', 'var'),
    'loss:>[w b]': ('mgrad', 'multi'),
    '[w b]∂g': ('mjac', 'multi'),
    # the same parameter named twice (every occurrence is bound and restored)
    'loss:>[w w]': ('mgrad', 'multidup'),
    '[w w]∂g': ('mjac', 'multidup'),
    # thorough only
    'p∇f': ('grad', 'lit'),
    '(∇f)(a)': ('grad', 'var'),
    'a∂g': ('jac', 'var'),
    '.jacobian(g;p)': ('jac', 'lit'),
    'loss:>[w b c]': ('mgrad', 'multi3'),
    '[w b c]∂g': ('mjac', 'multi3'),
}
QUICK_FORMS = ('f:>p', 'f:>a', 'a∇f', 'p∂g', '.jacobian(g;a)', 'loss:>[w b]', '[w b]∂g', 'loss:>[w w]', '[w w]∂g')

# kind -> (literal, rank)
KINDS = {
    'f64vec': ('[1.0 2.0 3.0]', 1),
    'intvec': ('[1 2 3]', 1),
    'real': ('2.0', 0),
    'mat22': ('[[1.0 2.0] [3.0 4.0]]', 2),
    # thorough only
    'f64vec1': ('[2.0]', 1),
    'f64vec4': ('[1.0 2.0 3.0 0.5]', 1),
    'int': ('3', 0),
    'mat23': ('[[1.0 2.0 3.0] [4.0 5.0 6.0]]', 2),
}
QUICK_KINDS = ('f64vec', 'intvec', 'real', 'mat22')

BODIES = ('smooth', 'vector', 'unknown', 'string', 'probe', 'stored')       # stored: hands back an array the program holds
THOROUGH_BODIES = BODIES + ('probe2', 'probe-nested')
EXCS = {'RuntimeError': RuntimeError, 'KeyError': KeyError, 'ZeroDivisionError': ZeroDivisionError}


def body_text(fam, rank, body):
    """Klong text of the differentiated function, or None when the combination does not exist."""
    red = '+/' * rank
    if fam in ('grad', 'jac'):
        core = {'smooth': 'x*x', 'probe': 'x*probe(x)', 'probe2': 'probe(x)*probe(x)',
                'probe-nested': "{x*probe(x)}'x"}.get(body)
        if body == 'probe-nested' and rank == 0:
            return None
        if body == 'vector':
            return '{(x*x),x}'
        if body == 'string':
            return '{x;"abc"}'
        if body == 'stored':
            return '{x;k}'                  # the global k itself, unchanged (setup: k::[7.0 8.0 9.0])
        if body == 'unknown':
            return '{(' + (red if fam == 'grad' else '') + 'x*x)+nosuch}'
        return '{' + (red if fam == 'grad' else '') + core + '}'
    third = fam.endswith('3')
    if fam.startswith('mgrad'):
        if body == 'probe-nested':
            return None
        w = {'smooth': 'w*w', 'probe': 'w*probe(w)', 'probe2': 'probe(w)*probe(w)'}.get(body)
        b = {'smooth': 'b*b', 'probe': 'b*probe(b)', 'probe2': 'b*b'}.get(body)
        c = '+c*c*c' if third else ''
        if body == 'vector':
            return '{(w*w),b' + (',c' if third else '') + '}'
        if body == 'string':
            return '{w;b;"abc"}'
        if body == 'stored':
            return '{b;w}'
        if body == 'unknown':
            return '{((' + red + 'w*w)+b*b' + c + ')+nosuch}'
        return '{(' + red + w + ')+(' + b + ')' + c + '}'
    # mjac: vector-valued niladic g over w (kind), b (real) and optionally c (real)
    if body == 'probe-nested':
        return None
    c = '*c' if third else ''
    if body == 'smooth':
        return '{(w*w)*b' + c + '}'
    if body == 'vector':
        return '{((w*w)*b' + c + '),b}'
    if body == 'string':
        return '{w;b;"abc"}'
    if body == 'stored':
        return '{b;w}'                      # the parameter w itself while b is probed
    if body == 'unknown':
        return '{((w*w)*b' + c + ')+nosuch}'
    if body == 'probe':
        return '{(w*probe(w))*probe(b)' + c + '}'
    return '{(probe(w)*probe(w))*b' + c + '}'       # probe2


def scenario_texts(form, kind, body):
    """-> dict(setup=[...], f=<function text>, smooth=<function text>, call=<f applied to the point>, grad=<gradient text>)
    or None when the combination does not exist."""
    fam, how = FORMS[form]
    lit, rank = KINDS[kind]
    ftxt = body_text(fam + ('3' if how == 'multi3' else ''), rank, body)
    if ftxt is None:
        return None
    smooth = body_text(fam + ('3' if how == 'multi3' else ''), rank, 'smooth')
    setup = ['k::[7.0 8.0 9.0]'] if body == 'stored' else []
    if how == 'lit':
        point = lit
        call = 'f(' + lit + ')'
    elif how == 'var':
        setup.append('a::' + lit)
        point = 'a'
        call = 'f(a)'
    else:
        setup += ['w::' + lit, 'b::0.5'] + (['c::1.5'] if how == 'multi3' else [])
        point = '[w b c]' if how == 'multi3' else '[w w]' if how == 'multidup' else '[w b]'
        call = 'f()'
    if form in ('f:>p', 'f:>a'):
        grad = 'f:>' + point
    elif form in ('a∇f', 'p∇f'):
        grad = point + '∇f'
    elif form == '(∇f)(a)':
        setup.append('h::∇f')
        grad = 'h(a)'
    elif form in ('p∂g', 'a∂g'):
        grad = point + '∂f'
    elif form in ('.jacobian(g;a)', '.jacobian(g;p)'):
        grad = '.jacobian(f;' + point + ')'
    elif form.startswith('loss:>'):
        grad = 'f:>' + point
    else:
        grad = point + '∂f'
    return dict(setup=setup, f=ftxt, smooth=smooth, call=call, grad=grad)


# ---------------------------------------------------------------------------------------------
# typed canonical form and snapshots

def tc(v):
    """Typed canonical form of a runtime value: Python type, dtype, shape, gradient tracking and exact element values."""
    if v is None:
        return ('None',)
    if _is_tensor(v):
        d = v.detach().cpu().numpy()
        return ('Tensor', str(v.dtype).replace('torch.', ''), tuple(v.shape), 'requires_grad' if v.requires_grad else '-',
                'grad_fn' if v.grad_fn is not None else '-', tuple(d.ravel().tolist()))
    if isinstance(v, np.ndarray):
        if v.dtype == object:
            return ('ndarray', 'object', tuple(v.shape), tuple(tc(e) for e in v.ravel()))
        return ('ndarray', str(v.dtype), tuple(v.shape), tuple(v.ravel().tolist()))
    if isinstance(v, np.generic):
        return ('np.' + type(v).__name__, v.item())
    if isinstance(v, bool) or type(v) in (int, float):
        return (type(v).__name__, v)
    if isinstance(v, KGSym):
        return ('KGSym', str.__str__(v))
    if isinstance(v, KGChar):
        return ('KGChar', str.__str__(v))
    if isinstance(v, str):
        return ('str', v)
    if isinstance(v, (list, tuple)):
        return (type(v).__name__, tuple(tc(e) for e in v))
    if isinstance(v, dict):
        return ('dict', tuple(sorted((repr(tc(k)), tc(x)) for k, x in v.items())))
    return ('obj', type(v).__name__)


def _num(x):
    return repr(x) if isinstance(x, float) else str(x)


def show(c):
    t = c[0]
    if t == 'Tensor':
        return 'Tensor %s%s %s%s[%s]' % (c[1], list(c[2]), c[3] + ' ' if c[3] != '-' else '', c[4] + ' ' if c[4] != '-' else '',
                                         ' '.join(_num(x) for x in c[5]))
    if t == 'ndarray':
        if c[1] == 'object':
            return 'ndarray object%s [%s]' % (list(c[2]), ' '.join(show(e) for e in c[3]))
        return 'ndarray %s%s [%s]' % (c[1], list(c[2]), ' '.join(_num(x) for x in c[3]))
    if t in ('list', 'tuple'):
        return t + ' [' + ' '.join(show(e) for e in c[1]) + ']'
    if t == 'dict':
        return 'dict {' + ' '.join(k + ':' + show(x) for k, x in c[1]) + '}'
    if len(c) == 2:
        return '%s %s' % (t, _num(c[1]) if not isinstance(c[1], str) else c[1])
    return t


def snapshot(k):
    """{(scope index from the bottom of the stack, name): (typed canon, object or None)} plus the stack depth.
    A name bound to its own symbol is what klongpy leaves behind when an undefined name was read; it is observationally
    the same as undefined (reading it gives the symbol either way) and is left out."""
    scopes = list(k._context._context)
    n = len(scopes)
    items = {}
    for i, d in enumerate(scopes):
        for key, val in list(d.items()):
            name = str.__str__(key)
            if isinstance(val, KGSym) and str.__str__(val) == name:
                continue
            c = tc(val)
            items[(n - 1 - i, name)] = (c, val if c[0] == 'obj' else None)
    return n, items


def diff_snap(a, b):
    """List of human-readable differences between two snapshots (empty = equal)."""
    out = []
    if a[0] != b[0]:
        out.append('scope stack depth %d -> %d' % (a[0], b[0]))
    for key in sorted(set(a[1]) | set(b[1])):
        x, y = a[1].get(key), b[1].get(key)
        if x is None:
            out.append('%s: (absent) -> %s' % (key[1], show(y[0])))
        elif y is None:
            out.append('%s: %s -> (absent)' % (key[1], show(x[0])))
        elif x[0] != y[0] or (x[0][0] == 'obj' and x[1] is not y[1]):
            out.append('%s: %s -> %s' % (key[1], show(x[0]), show(y[0]) + (' (another object)' if x[0] == y[0] else '')))
    return out


def outcome(k, text):
    try:
        return ('ok', tc(k(text)))
    except RecursionError:
        return ('exc', 'RecursionError')
    except Exception as e:      # noqa: BLE001 - every failure class is an observation
        return ('exc', type(e).__name__)


def show_out(o):
    return 'ok:' + show(o[1]) if o[0] == 'ok' else 'exc:' + o[1]


# ---------------------------------------------------------------------------------------------
# running one scenario

_TORCH_READY = []


def interp(backend):
    from klongpy import KlongInterpreter
    if backend == 'torch':
        if not _TORCH_READY:
            import torch
            torch.set_num_threads(1)
            _TORCH_READY.append(True)
        return KlongInterpreter(backend='torch', device='cpu')
    return KlongInterpreter(backend='numpy')


class Probe:
    """Identity function counting its invocations; raises `exc` at invocation number `at` while armed."""

    def __init__(self):
        self.n = 0
        self.at = 0
        self.exc = RuntimeError
        self.armed = False

    def fn(self):
        st = self

        def probe(x):
            if st.armed:
                st.n += 1
                if st.n == st.at:
                    raise st.exc('injected fault at invocation %d' % st.n)
            return x
        return probe


def build(backend, texts, ftext):
    k = interp(backend)
    pr = Probe()
    if 'probe(' in ftext or 'probe(' in texts['f']:
        k['probe'] = pr.fn()
    for s in texts['setup'][:]:
        if s.startswith('h::'):
            continue
        k(s)
    k('f::' + ftext)
    for s in texts['setup']:
        if s.startswith('h::'):
            k(s)
    return k, pr


def clean_answer(backend, texts, ftext):
    """Outcome of the gradient text on a clean interpreter with a quiet probe, and the number of probe invocations."""
    k, pr = build(backend, texts, ftext)
    pr.armed, pr.at = True, 0
    o = outcome(k, texts['grad'])
    return o, pr.n


def run_scenario(backend, form, kind, body, at, excname, texts, ref, ref_smooth, log=None):
    """-> (list of failed clauses, G1 outcome, probe invocations during G1, steps executed)"""
    say = log or (lambda *a: None)
    k, pr = build(backend, texts, texts['f'])
    fails = []
    v0 = outcome(k, texts['call'])
    s0 = snapshot(k)
    say('f applied     :', texts['call'], '->', show_out(v0))
    pr.n, pr.at, pr.exc, pr.armed = 0, at, EXCS[excname], True
    g1 = outcome(k, texts['grad'])
    pr.armed = False
    say('gradient      :', texts['grad'], '->', show_out(g1), '(probe invocations: %d, fault at %s)' % (pr.n, at or 'none'))
    s1 = snapshot(k)
    d = diff_snap(s0, s1)
    if d:
        fails.append('state after the gradient: ' + '; '.join(d))
    say('state         :', 'unchanged' if not d else '; '.join(d))
    v1 = outcome(k, texts['call'])
    if v1 != v0:
        fails.append('f applied again: %s -> %s' % (show_out(v0), show_out(v1)))
    say('f applied     :', texts['call'], '->', show_out(v1), '' if v1 == v0 else '   DIFFERS')
    g2 = outcome(k, texts['grad'])
    if g2 != ref:
        fails.append('same gradient text again: %s, clean interpreter gives %s' % (show_out(g2), show_out(ref)))
    say('gradient again:', texts['grad'], '->', show_out(g2), '' if g2 == ref else '   clean interpreter: ' + show_out(ref))
    s2 = snapshot(k)
    d2 = diff_snap(s0, s2)
    if d2 and d2 != d:
        fails.append('state after the second gradient: ' + '; '.join(d2))
    k('f::' + texts['smooth'])
    for s in texts['setup']:
        if s.startswith('h::'):         # h::∇f holds the function it was made from
            k(s)
    g3 = outcome(k, texts['grad'])
    if g3 != ref_smooth:
        fails.append('same text with f rebound to the smooth body: %s, clean interpreter gives %s'
                     % (show_out(g3), show_out(ref_smooth)))
    say('smooth f, same text:', show_out(g3), '' if g3 == ref_smooth else '   clean interpreter: ' + show_out(ref_smooth))
    return fails, g1, pr.n, 6


def snippet(backend, texts, at, excname):
    ctor = "KlongInterpreter(backend='torch', device='cpu')" if backend == 'torch' else "KlongInterpreter(backend='numpy')"
    lines = ['from klongpy import KlongInterpreter', 'k = ' + ctor]
    if 'probe(' in texts['f']:
        lines += ['st = {"n": 0, "at": %d, "armed": False}' % at,
                  'def probe(x):',
                  '    if st["armed"]:',
                  '        st["n"] += 1',
                  '        if st["n"] == st["at"]: raise %s("injected")' % excname,
                  '    return x',
                  "k['probe'] = probe"]
    pre = [s for s in texts['setup'] if not s.startswith('h::')]
    post = [s for s in texts['setup'] if s.startswith('h::')]
    for s in pre + ['f::' + texts['f']] + post:
        lines.append('k(%r)' % s)
    lines += ['def show(t):',
              '    try: print(t, "->", repr(k(t)))',
              '    except Exception as e: print(t, "-> raised", type(e).__name__, e)',
              'glob = lambda: {str(n): v for n, v in k._context._context[0].items() if not callable(v)}',
              'show(%r); print("globals:", glob())' % texts['call']]
    if 'probe(' in texts['f']:
        lines.append('st["armed"] = True')
    lines.append('show(%r)' % texts['grad'])
    if 'probe(' in texts['f']:
        lines.append('st["armed"] = False')
    lines += ['print("globals:", glob())', 'show(%r)' % texts['call'], 'show(%r)' % texts['grad'],
              'k(%r); show(%r)   # smooth f, same gradient text' % ('f::' + texts['smooth'], texts['grad'])]
    return '\n'.join(lines)


def scenarios(cfg):
    """Deterministic list of (backend, form, kind, body, excname); k is enumerated inside (needs the dry run)."""
    forms = QUICK_FORMS if cfg.quick else tuple(FORMS)
    kinds = QUICK_KINDS if cfg.quick else tuple(KINDS)
    bodies = BODIES if cfg.quick else THOROUGH_BODIES
    out = []
    for backend in ('numpy', 'torch'):
        for form in forms:
            for kind in kinds:
                for body in bodies:
                    if scenario_texts(form, kind, body) is None:
                        continue
                    excs = ('RuntimeError',) if (cfg.quick or not body.startswith('probe')) else tuple(EXCS)
                    for e in excs:
                        out.append((backend, form, kind, body, e))
    return out


def key_of(backend, form, kind, body, at, excname):
    return '%s|%s|%s|%s|k=%d%s' % (form, kind, body, backend, at, ('|' + excname) if body.startswith('probe') and at else '')


def work(groups):
    out = dict(runs=0, steps=0, probes=0, viol=[], samples=[], outcomes=set(), timeouts=0, faults=0, dry_runs=0,
               grad_failed=0, grad_ok=0, fingerprints=set(), not_reproducible=[])
    for group in groups:
        for backend, form, kind, body, excname in group:
            if backend == 'torch' and not _TORCH_READY:
                interp('torch')                 # the import must not run under the per-case watchdog
            texts = scenario_texts(form, kind, body)
            try:
                with runner.watchdog(CASE_TIMEOUT):
                    ref, n = clean_answer(backend, texts, texts['f'])
                    ref_smooth, _ = clean_answer(backend, texts, texts['smooth'])
                    out['dry_runs'] += 2
                    ks = [0] + (list(range(1, n + 1)) if body.startswith('probe') else [])
                    if excname != 'RuntimeError':
                        ks = ks[1:]                     # the fault-free run is the same for every exception class
                    for at in ks:
                        fails, g1, probes, steps = run_scenario(backend, form, kind, body, at, excname, texts, ref, ref_smooth)
                        out['runs'] += 1
                        out['steps'] += steps
                        out['probes'] += probes
                        out['faults'] += 1 if at else 0
                        out['grad_ok' if g1[0] == 'ok' else 'grad_failed'] += 1
                        out['outcomes'].add((g1[0] if g1[0] == 'ok' else 'exc:' + g1[1], bool(fails)))
                        out['fingerprints'].add(hash((backend, form, kind, body, at, excname, g1, tuple(fails))))
                        if kind == 'f64vec' and body == 'probe' and at in (0, 2):     # a fixed subset
                            out['samples'].append([key_of(backend, form, kind, body, at, excname), texts['f'], texts['grad'],
                                                   show_out(g1)[:80], 'pure' if not fails else 'IMPURE'])
                        if fails:
                            again = run_scenario(backend, form, kind, body, at, excname, texts, ref, ref_smooth)
                            if again[0] != fails or again[1] != g1:
                                out['not_reproducible'].append(key_of(backend, form, kind, body, at, excname))
                                continue
                            out['viol'].append(dict(
                                key=key_of(backend, form, kind, body, at, excname),
                                observed='gradient %s; %s%s' % (g1[0] if g1[0] == 'ok' else 'exc:' + g1[1], fails[0][:240],
                                                                ' (+%d more clauses)' % (len(fails) - 1) if len(fails) > 1 else ''),
                                expected='state, f and the re-evaluated gradient as before',
                                case=dict(backend=backend, form=form, kind=kind, body=body, at=at, exc=excname),
                                snippet=snippet(backend, texts, at, excname), group=classify(backend, form, kind, fails)))
            except runner.CaseTimeout:
                out['timeouts'] += 1
                out['viol'].append(dict(key=key_of(backend, form, kind, body, -1, excname), observed='did not terminate',
                                        expected='terminates', case=dict(backend=backend, form=form, kind=kind, body=body,
                                                                         at=-1, exc=excname), snippet=None, group='timeout'))
    return out


def classify(backend, form, kind, fails):
    """Root-cause label by inspection (triage aid only)."""
    txt = ' '.join(fails)
    if backend == 'numpy' and kind.startswith(('f64', 'mat')) and FORMS[form][0] in ('grad', 'mgrad'):
        if 'state after the gradient' in txt:
            return 'numeric_grad-perturbs-callers-array-in-place'
        if 'smooth body' in txt or 'same gradient text again' in txt:
            return 'numeric_grad-perturbs-cached-literal-in-place'
    if backend == 'torch' and form in ('a∇f', 'p∇f') and kind.startswith(('f64', 'mat')):
        return 'numeric_grad-perturbs-callers-array-in-place'
    return '%s-%s-impure' % (backend, FORMS[form][0])


def selftest():
    """The observation machinery itself: the typed canonical form separates what the property separates, and the snapshot
    comparison notices an in-place perturbation, a change of kind, a new global and a leaked scope."""
    a = np.array([1.0, 2.0, 3.0])
    assert tc(a) == tc(a.copy()) and tc(a) != tc(a.astype(np.float32)) and tc(a) != tc(a + 1e-6)
    assert tc(2.0) != tc(np.float64(2.0)) and tc(2.0) != tc(np.array(2.0)) and tc(2) != tc(2.0)
    assert tc(np.array([1, 2])) != tc(np.array([1.0, 2.0])) and tc(a) != tc(a.reshape(1, 3))
    k = interp('numpy')
    k('a::[1.0 2.0 3.0]')
    k('b::0.5')
    s0 = snapshot(k)
    assert diff_snap(s0, snapshot(k)) == []
    k._context._context[0][KGSym('a')][1] += 1e-6
    d = diff_snap(s0, snapshot(k))
    assert len(d) == 1 and d[0].startswith('a: ndarray float64[3] [1.0 2.0 3.0] ->'), d
    k['a'] = np.array([1.0, 2.0, 3.0])      # (the text `a::[1.0 2.0 3.0]` would re-assign the cached, now perturbed, literal)
    k['b'] = np.array(0.5)
    assert [x.split(':')[0] for x in diff_snap(s0, snapshot(k))] == ['b']
    k('b::0.5')
    k('c::1')
    assert [x.split(':')[0] for x in diff_snap(s0, snapshot(k))] == ['c']
    k._context.push({})
    assert any('depth' in x for x in diff_snap(s0, snapshot(k)))
    # fault positions: the probe raises exactly at the armed invocation and is quiet otherwise
    pr = Probe()
    f = pr.fn()
    pr.armed, pr.at = True, 2
    assert f(1) == 1
    try:
        f(1)
        raise AssertionError('probe did not raise')
    except RuntimeError:
        pass
    assert f(5) == 5 and pr.n == 3
    return 'typed canonical form, snapshot comparison and fault probe behave as specified'


def run(cfg):
    rep = runner.Report('C07', 'model_checking')
    sc = scenarios(cfg)
    # few, large torch groups (every worker that touches torch pays the import), many small numpy groups
    npy = [s for s in sc if s[0] == 'numpy']
    tor = [s for s in sc if s[0] == 'torch']
    ng = max(1, min(cfg.jobs - 4, 12)) if cfg.jobs > 4 else 1
    tg = max(1, min(cfg.pick(4, 6), cfg.jobs))
    groups = [npy[i::ng] for i in range(ng)] + [tor[i::tg] for i in range(tg)]
    groups = [g for g in groups if g]
    total = {}
    for part in runner.pmap(work, groups, cfg, chunk=1, inline_below=-1):
        runner.merge_counts(total, part)
    if total['not_reproducible']:
        raise runner.HarnessError('a failing scenario did not fail identically when re-run: %r'
                                  % sorted(total['not_reproducible'])[:5])
    rep.extend_violations(sorted(total['viol'], key=lambda v: (v['key'], v['observed'])))
    rep.coverage = dict(
        states=len(total['fingerprints']), transitions=total['steps'] + total['probes'],
        traces_validated_against_impl=total['runs'], scenarios=len(sc), fault_runs=total['faults'],
        fault_free_runs=total['runs'] - total['faults'], dry_runs=total['dry_runs'], probe_invocations=total['probes'],
        gradient_returned=total['grad_ok'], gradient_failed=total['grad_failed'],
        distinct_outcomes=len(total['outcomes']),
        outcomes=sorted('%s/%s' % (o, 'impure' if f else 'pure') for o, f in total['outcomes']),
        exhaustive=True, timeouts=total['timeouts'], samples=sorted(total['samples'])[:12],
        forms=list(QUICK_FORMS if cfg.quick else FORMS), kinds=list(QUICK_KINDS if cfg.quick else KINDS),
        bodies=list(BODIES if cfg.quick else THOROUGH_BODIES),
        rule='one state = one executed run (form, parameter kind, body, backend, fault position k, exception class) with its '
             'observed gradient outcome and purity verdict; k ranges over every invocation of the instrumented function '
             'that the fault-free gradient makes (dry run) and 0 = no fault; transitions = harness steps against the real '
             'interpreter plus probe invocations inside the gradient; every run is an execution of the real code')
    rep.assumptions = [
        'The differentiated functions are themselves pure (identity probe, arithmetic); impurity of f is out of scope.',
        'A name bound to its own symbol (left behind when an undefined name is read) counts as undefined.',
        'Functions and other non-data objects in the scopes are compared by identity, data by type, dtype, shape, '
        'requires_grad/grad_fn and exact element values.',
        'Faults are exceptions raised by a Python function called from the differentiated function (RuntimeError; '
        'thorough also KeyError and ZeroDivisionError); asynchronous interruption (KeyboardInterrupt, signals) is not modelled.',
        'Parameter values are the fixed ones of KINDS; b = 0.5 and c = 1.5 in the multi-parameter forms.',
    ]
    return rep


def replay(cfg, path):
    with open(path) as f:
        d = json.load(f)
    c = d['case']
    texts = scenario_texts(c['form'], c['kind'], c['body'])
    print('key      :', d['key'])
    print('setup    :', '; '.join(texts['setup'] + ['f::' + texts['f']]))
    if c['at'] < 0:
        print('timeout case: run the snippet')
        return 1
    ref, n = clean_answer(c['backend'], texts, texts['f'])
    ref_smooth, _ = clean_answer(c['backend'], texts, texts['smooth'])
    print('clean interpreter: %s -> %s (%d probe invocations)' % (texts['grad'], show_out(ref), n))
    a = run_scenario(c['backend'], c['form'], c['kind'], c['body'], c['at'], c['exc'], texts, ref, ref_smooth, log=print)
    b = run_scenario(c['backend'], c['form'], c['kind'], c['body'], c['at'], c['exc'], texts, ref, ref_smooth)
    if a[0] != b[0]:
        print('NOT REPRODUCIBLE: two runs differ')
        return 2
    for f in a[0]:
        print('VIOLATED :', f)
    return 1 if a[0] else 0

"""C08 - numeric programs mean the same under the NumPy and the PyTorch backend  (E1 product, level exploration).

Enumerated (bounded exhaustive, no sampling)

    program trees with <= 2 (quick) / <= 3 (thorough) operator nodes over the numeric core

        dyads   + - * % ^ < > = & |          (atomic)      ,  @  #  _     (join, index, take, drop)
        monads  -E (negate)  _E (floor)  |E (reverse)  {x*x}'E (each)
                +/ */ |/ &/ -/ %/ (over)     +\\ *\\ -\\ |\\ &\\ (scan)      E@0  E@[1 0]  1_E

    whose leaves are the variables a..g, each bound (by Klong source `v::literal`, re-bound before every case) to one
    fixed operand:  a=3  b=-2  c=2.5  d=[1 2 3]  e=[1.5 -2.5 3.0]  f=[[1 2] [3 4]]  g=[[1.5 2] [3 4]].
    "programs x bindings" is therefore the choice of leaf.  Each program text is evaluated by
    KlongInterpreter(backend='numpy') and KlongInterpreter(backend='torch', device='cpu') and both results are written
    with klongpy.writer.kg_write.

Oracle (differential; nothing is demanded that the property statement does not state)

    (1) whenever BOTH backends return: canonical forms (values.cn: shape, int/real kind kept) must agree with elements
        equal within rtol 4e-6 (float32 rounding; the torch backend holds every real ARRAY as float32 - only Python
        floats stay double - which the statement allows: "up to single-precision rounding"; int64 stays int64 on both
        sides, so "same kind" is int vs real, not the width), and the two kg_write texts must be identical after their
        numeric tokens are compared with the same tolerance (token kind int/real must agree as well).
    (2) a program built only from operations the expression compiler handles (binop + - * % ^, cmp < > =, negate,
        over/scan of + * | &) whose operands conform (see `shape_of`: scalar with anything, equal top-level lengths
        recursively - vector(3) with matrix(2x2) does not conform and may be rejected) must be accepted (no exception)
        by both backends.
    An exception on exactly one side of a program outside (2) is no verdict ("whenever both return"); such programs are
    counted per exception class in coverage['one_sided'].

    Tolerance details (all weakenings, listed in evidence `assumptions`): atol = rtol x the largest magnitude among the
    sub-programs' results (cancellation); float32 RANGE counts as rounding (|x| > 3.4e38 against inf); a numbers-only
    disagreement at a discontinuous operator (floor, comparisons, ^, %, index/take/drop) whose operand already differs
    by rounding is no verdict; a complex result ((-3)^2.5 on Python scalars - identical on both sides) is outside the
    universe of the property and is no verdict.

Enumeration is level by level and simplest first.  A program is only extended when it is *clean* (both returned and
agreed) and numeric: an exception propagates to every enclosing program (nothing to compare), a disagreement already
fails the check (larger programs around a failing one would only multiply the same finding), and :undefined (3%0 on
both sides) is not a number.  Levels 0-2 are complete products.  Thorough level 3 applies every operator to ONE
representative (first in enumeration order) per *representation class* of the clean 1- and 2-node programs
(whole-sub-tree-compilable flag and, per backend: Python type, dtype, shape, contiguity, set of element classes
sign x whole/fractional/nan/inf - the value tests in the code under test are any/all tests over exactly those
predicates).  That is an abstraction, and its quality is measured on the complete level-2 product, not assumed:
 * exact classes (type, dtype, shape, strides, bytes): contexts (operator, classes of the children) whose programs
   have different outcome digests - `class_congruence_*` (40 of 71 k on the pinned tree: when the compiled form of a
   whole expression raises, the interpreter also re-evaluates the root operator, so even exact sub-values do not fix
   the outcome);
 * representation classes: contexts with different verdicts - `representation_class_contexts_with_mixed_verdicts`.

Interpreter reuse: one pair per worker.  Programs contain no assignment, every variable a case uses is re-bound from
source before the case, the parse/compile caches are emptied every 256 cases (all program texts are distinct, so they
are never hit by a program anyway) and the complete level <= 1 product is re-run with a brand-new pair per case and
must give identical outcome digests (else HarnessError).

torch is imported by run() in the parent and inherited through fork (no torch operation runs in the parent; workers
call torch.set_num_threads(1) first); importing this module does not import torch.
"""
import hashlib
import json
import os
import re
import sys
import time
import warnings

import numpy as np

from klongpy import KlongInterpreter
from klongpy.types import KGSym, KGFn, KGCall, KGOp, KGAdverb, KGUndefined
from klongpy.writer import kg_write

from .. import runner
from ..values import cn, show, _promote

PID = 'C08'
RTOL = 4e-6

BIND = (('a', '3'), ('b', '-2'), ('c', '2.5'), ('d', '[1 2 3]'), ('e', '[1.5 -2.5 3.0]'),
        ('f', '[[1 2] [3 4]]'), ('g', '[[1.5 2] [3 4]]'))
BINDSRC = {v: v + '::' + s for v, s in BIND}
LEAVES = tuple(v for v, _ in BIND)
LEAF_SHAPE = {'a': (), 'b': (), 'c': (), 'd': (3,), 'e': (3,), 'f': (2, 2), 'g': (2, 2)}
LEAF_CANON = {
    'a': ('i', 3), 'b': ('i', -2), 'c': ('r', 2.5),
    'd': ('l', (('i', 1), ('i', 2), ('i', 3))),
    'e': ('l', (('r', 1.5), ('r', -2.5), ('r', 3.0))),
    'f': ('l', (('l', (('i', 1), ('i', 2))), ('l', (('i', 3), ('i', 4))))),
    'g': ('l', (('l', (('r', 1.5), ('r', 2.0))), ('l', (('r', 3.0), ('r', 4.0))))),
}
INT_SCALAR_LEAVES = ('a', 'b')

ATOMIC = ('+', '-', '*', '%', '^', '<', '>', '=', '&', '|')
STRUCT2 = (',', '@', '#', '_')
BINARY = ATOMIC + STRUCT2
REDUCE = tuple(c + '/' for c in '+*|&-%')
SCAN = tuple(c + '\\' for c in '+*-|&')
UNARY = ('neg', 'floor', 'rev', "sq'") + REDUCE + SCAN + ('@0', '@[1 0]', '1_')

# the expression compiler's grammar (klongpy/compiler.py _ast_to_ir)
C_BIN = frozenset('+-*%^<>=')
C_UN = frozenset(('neg',) + tuple(c + '/' for c in '+*|&') + tuple(c + '\\' for c in '+*|&'))

# operators through which a difference of one float32 ulp in an operand may legitimately become a large difference
DISCONT = frozenset(('floor', '<', '>', '=', '^', '%', '@', '#', '_'))


# ---------------------------------------------------------------------------------------------
# trees:  leaf 'a'..'g'  |  ('u', op, child)  |  ('b', op, left, right)

def text(t):
    """Klong source.  Klong has no precedence and evaluates right to left: the right operand of a dyad and the operand
    of a prefix operator extend to the end of the expression, so only non-leaf LEFT operands need parentheses."""
    if isinstance(t, str):
        return t
    if t[0] == 'u':
        op, c = t[1], t[2]
        s = text(c)
        if op == 'neg':
            return '-' + s
        if op == 'floor':
            return '_' + s
        if op == 'rev':
            return '|' + s
        if op == "sq'":
            return "{x*x}'" + s
        if op in ('@0', '@[1 0]'):
            return (s if isinstance(c, str) else '(' + s + ')') + op
        if op == '1_':
            return '1_' + s
        if op[1] == '/':
            return op + s
        return op + ('(' + s + ')' if s[0] in '*~' else s)      # `\*` and `\~` are adverbs of their own
    _, op, l, r = t
    ls = text(l)
    if not isinstance(l, str):
        ls = '(' + ls + ')'
    return ls + op + text(r)


def nodes(t):
    if isinstance(t, str):
        return 0
    if t[0] == 'u':
        return 1 + nodes(t[2])
    return 1 + nodes(t[2]) + nodes(t[3])


def leaves_of(t, acc=None):
    acc = [] if acc is None else acc
    if isinstance(t, str):
        if t not in acc:
            acc.append(t)
    elif t[0] == 'u':
        leaves_of(t[2], acc)
    else:
        leaves_of(t[2], acc)
        leaves_of(t[3], acc)
    return acc


def compilable(t):
    """Every node is one the expression compiler turns into IR."""
    if isinstance(t, str):
        return True
    if t[0] == 'u':
        return t[1] in C_UN and compilable(t[2])
    return t[1] in C_BIN and compilable(t[2]) and compilable(t[3])


def _conform(s, u):
    if s is None or u is None:
        return None
    if s == ():
        return u
    if u == ():
        return s
    if s[0] != u[0]:
        return None
    rest = _conform(s[1:], u[1:])
    return None if rest is None else (s[0],) + rest


def shape_of(t):
    """Shape of a program of the compiler's grammar under the reference semantics, None when its operands do not
    conform (atomic dyads pair lists of equal length element by element and recurse; Over folds the top level, Scan
    keeps it)."""
    if isinstance(t, str):
        return LEAF_SHAPE[t]
    if t[0] == 'u':
        s = shape_of(t[2])
        if s is None or t[1] == 'neg' or t[1][1] == '\\':
            return s
        return s[1:] if s else s            # over
    return _conform(shape_of(t[2]), shape_of(t[3]))


def _is_sq(f):
    try:
        inner = f.a
        return (isinstance(f, KGFn) and isinstance(inner, KGFn) and inner.is_op() and inner.a.a == '*'
                and inner.a.arity == 2 and [str.__str__(x) for x in inner.args] == ['x', 'x'])
    except Exception:       # noqa: BLE001
        return False


def ast_tree(n):
    """Parsed klongpy AST -> tree of the grammar above (None if it is anything else)."""
    if isinstance(n, KGSym):
        s = str.__str__(n)
        return s if s in LEAF_SHAPE else None
    if isinstance(n, KGCall) and n.is_adverb_chain():
        ch = n.a
        if not (isinstance(ch, list) and len(ch) == 3 and isinstance(ch[0], KGAdverb) and isinstance(ch[1], KGAdverb)):
            return None
        c = ast_tree(ch[2])
        if c is None:
            return None
        if isinstance(ch[0].a, KGOp) and ch[1].a in ('/', '\\') and ch[0].arity == 2:
            return ('u', ch[0].a.a + ch[1].a, c)
        if ch[1].a == "'" and _is_sq(ch[0].a):
            return ('u', "sq'", c)
        return None
    if isinstance(n, KGFn) and n.is_op():
        op = n.a.a
        if n.a.arity == 2 and isinstance(n.args, list) and len(n.args) == 2:
            x, y = n.args
            if op == '@' and type(y) is int and y == 0:
                c = ast_tree(x)
                return None if c is None else ('u', '@0', c)
            if op == '@' and isinstance(y, np.ndarray) and y.tolist() == [1, 0]:
                c = ast_tree(x)
                return None if c is None else ('u', '@[1 0]', c)
            if op == '_' and type(x) is int and x == 1:
                c = ast_tree(y)
                return None if c is None else ('u', '1_', c)
            l, r = ast_tree(x), ast_tree(y)
            return None if l is None or r is None or op not in BINARY else ('b', op, l, r)
        if n.a.arity == 1 and op in '-_|':
            a = n.args[0] if isinstance(n.args, list) else n.args
            c = ast_tree(a)
            return None if c is None else ('u', {'-': 'neg', '_': 'floor', '|': 'rev'}[op], c)
    return None


def extend(unary_pool, pairs):
    """All programs op(child) for child in unary_pool and l op r for (lefts, rights) in pairs."""
    out = []
    for op in UNARY:
        for c in unary_pool:
            out.append(('u', op, c))
    for op in BINARY:
        for ls, rs in pairs:
            for l in ls:
                for r in rs:
                    out.append(('b', op, l, r))
    return out


# ---------------------------------------------------------------------------------------------
# observation

def _is_tensor(v):
    return type(v).__module__.startswith('torch') and hasattr(v, 'detach')


def fsig(v):
    """Exact representation signature of a runtime value (everything later code could observe of it, short of
    aliasing)."""
    if _is_tensor(v):
        a = v.detach().cpu().numpy()
        return ('T', str(v.dtype), tuple(v.shape), tuple(v.stride()), a.tobytes(), bool(v.requires_grad))
    if isinstance(v, np.ndarray):
        if v.dtype == object:
            return ('O', v.shape, tuple(fsig(x) for x in v.ravel()))
        return ('A', v.dtype.str, v.shape, v.strides, v.tobytes())
    if isinstance(v, np.generic):
        return ('G', v.dtype.str, v.tobytes())
    if type(v) in (int, float, bool):
        return ('P', type(v).__name__, repr(v))
    if isinstance(v, (list, tuple)):
        return ('L', type(v).__name__, tuple(fsig(x) for x in v))
    if isinstance(v, KGUndefined):
        return ('U',)
    return ('X', type(v).__name__, repr(v)[:80])


def _digest(x):
    return hashlib.blake2b(repr(x).encode(), digest_size=8).digest()


def _mag(c):
    """Largest finite magnitude in a canonical value."""
    t = c[0]
    if t in 'ir':
        x = abs(c[1])
        return float(x) if x == x and x != float('inf') else 0.0
    if t == 'l':
        m = 0.0
        for e in c[1]:
            x = _mag(e)
            if x > m:
                m = x
        return m
    return 0.0


F32_MAX = 3.4028234663852886e38
F32_TINY = 1.1754943508222875e-38


def vclose(a, b, rtol, atol):
    """values.close (int/real kind significant, nan == nan) for a = numpy side, b = torch side, extended by the float32
    RANGE: a double beyond float32's largest finite value against torch's inf of the same sign, and differences below
    float32's smallest normal number, are single-precision effects as well."""
    if a[0] != b[0]:
        return False
    t = a[0]
    if t == 'r':
        x, y = a[1], b[1]
        if x == y:
            return True
        if x != x or y != y:
            return x != x and y != y
        if y in (float('inf'), float('-inf')):
            return x not in (float('inf'), float('-inf')) and abs(x) >= F32_MAX * (1 - rtol) and (x > 0) == (y > 0)
        if x in (float('inf'), float('-inf')):
            return False
        return abs(x - y) <= max(atol, F32_TINY) + rtol * max(abs(x), abs(y))
    if t == 'l':
        return len(a[1]) == len(b[1]) and all(vclose(x, y, rtol, atol) for x, y in zip(a[1], b[1]))
    return a == b


def _pattern(x):
    """Value abstraction used only to choose level-3 children: the SET of element classes (sign x whole/fractional,
    nan, +-inf) that occur.  The value tests in the code under test are all of the any/all kind over exactly these
    predicates ((b < 0).any(), trunc(r) == r for all, divisor == 0)."""
    a = np.asarray(x, dtype=float).ravel()
    with np.errstate(all='ignore'):
        code = (np.sign(a) + 1) + 3 * (a == np.trunc(a))
        code = np.where(np.isnan(a), 9, np.where(np.isinf(a), 10 + (a > 0), code))
    return bytes(sorted(set(code.astype(np.uint8).tolist())))


def asig(v):
    """Representation class of a runtime value: what fsig records, with the element values replaced by _pattern and
    strides by contiguity."""
    if _is_tensor(v):
        return ('T', str(v.dtype), tuple(v.shape), bool(v.is_contiguous()), _pattern(v.detach().cpu().numpy()))
    if isinstance(v, np.ndarray):
        if v.dtype == object:
            return ('O', v.shape, tuple(asig(x) for x in v.ravel()))
        return ('A', v.dtype.str, v.shape, bool(v.flags.c_contiguous), _pattern(v))
    if isinstance(v, np.generic):
        return ('G', v.dtype.str, _pattern(v))
    if type(v) in (int, float, bool):
        return ('P', type(v).__name__, _pattern(v))
    if isinstance(v, (list, tuple)):
        return ('L', type(v).__name__, tuple(asig(x) for x in v))
    return fsig(v)


def _has_complex(c):
    if c[0] == 'l':
        return any(_has_complex(e) for e in c[1])
    return c[0] == 'obj' and c[1].startswith('complex')


def _numeric(c):
    """A number or a (possibly nested, possibly empty) list of numbers."""
    if c[0] == 'l':
        return all(_numeric(e) for e in c[1])
    return c[0] in 'ir'


def _skeleton(c):
    t = c[0]
    if t == 'l':
        return ('l', tuple(_skeleton(e) for e in c[1]))
    return 'n' if t in 'ir' else t


def _kinds(c):
    t = c[0]
    if t == 'l':
        return ('l', tuple(_kinds(e) for e in c[1]))
    return t


def diff_kind(a, b):
    """shape: the list structure differs; kind: same structure, integer vs real differs; value: numbers differ."""
    if _skeleton(a) != _skeleton(b):
        return 'shape'
    if _kinds(a) != _kinds(b):
        return 'kind'
    return 'value'


_NUM = re.compile(r'-?(?:\d+\.?\d*(?:e[+-]?\d+)?|inf|nan)')


def split_text(s):
    """kg_write text -> (non-numeric frame, list of numeric tokens)."""
    toks = _NUM.findall(s)
    return _NUM.sub('#', s), toks


def _tok_real(t):
    return '.' in t or 'e' in t or 'inf' in t or 'nan' in t


def texts_agree(wa, wb, rtol, atol):
    if wa == wb:
        return True
    fa, ta = split_text(wa)
    fb, tb = split_text(wb)
    if fa != fb or len(ta) != len(tb):
        return False
    for x, y in zip(ta, tb):
        if x == y:
            continue
        if _tok_real(x) != _tok_real(y):
            return False
        if not _tok_real(x):
            return False                       # integers must be identical
        if not vclose(('r', float(x)), ('r', float(y)), rtol, atol):
            return False
    return True


def observe(k, txt, used):
    """-> ('ok', value, written text or None, writer exception class or None) | ('exc', class, message)."""
    for v in used:
        k(BINDSRC[v])
    try:
        r = k(txt)
    except RecursionError:
        return ('exc', 'RecursionError', '')
    except Exception as e:      # noqa: BLE001 - every failure class is an observation
        return ('exc', type(e).__name__, str(e).split('\n')[0][:100])
    try:
        return ('ok', r, kg_write(r, k._backend), None)
    except Exception as e:      # noqa: BLE001
        return ('ok', r, None, type(e).__name__)


def show_obs(o):
    if o[0] == 'exc':
        return 'exc:' + o[1]
    return 'ok:' + show(cn(o[1]))


STATE_KEYS = None


class Env:
    """One interpreter pair of a worker process."""

    def __init__(self):
        import torch                    # imported by run() in the parent (no torch operation runs there), see run()
        torch.set_num_threads(1)
        warnings.simplefilter('ignore', RuntimeWarning)                 # numpy overflow / invalid-value chatter
        warnings.filterwarnings('ignore', category=UserWarning, module='torch')
        warnings.filterwarnings('ignore', category=UserWarning, module='klongpy')
        self.new_pair()
        self.n = 0
        for k in (self.kn, self.kt):
            for v in LEAVES:
                k(BINDSRC[v])
                if cn(k(v)) != LEAF_CANON[v]:
                    raise runner.HarnessError('C08: binding %s evaluates to %s' % (BINDSRC[v], show(cn(k(v)))))

    def new_pair(self):
        self.kn = KlongInterpreter(backend='numpy')
        self.kt = KlongInterpreter(backend='torch', device='cpu')
        if self.kt._backend.name != 'torch' or self.kn._backend.name != 'numpy':
            raise runner.HarnessError('C08: backend selection did not take effect')

    def tick(self):
        self.n += 1
        if self.n % 256 == 0:
            for k in (self.kn, self.kt):
                k._parse_cache.clear()
                k._compiled_cache.clear()


_ENV = None


def get_env():
    global _ENV
    if _ENV is None:
        _ENV = Env()
    return _ENV


# child information of clean programs (tree -> (cumulative magnitude, exact agreement)); filled by the parent before
# every fan-out and inherited by the forked workers
INFO = {}
POOLS = {}


def judge(t, on, ot):
    """-> (status, detail) with status in clean / value / write / accept / both_exc / one_exc / rounding."""
    comp = compilable(t) and shape_of(t) is not None
    if on[0] == 'exc' or ot[0] == 'exc':
        both = on[0] == 'exc' and ot[0] == 'exc'
        if comp:
            return 'accept', None
        return ('both_exc' if both else 'one_exc'), None
    kids = [t[2]] if t[0] == 'u' else ([t[2], t[3]] if not isinstance(t, str) else [])
    kinfo = [INFO.get(c) for c in kids]
    kmag = max([i[0] for i in kinfo if i] + [0.0])
    atol = RTOL * kmag
    a, b = cn(on[1]), cn(ot[1])
    if _has_complex(a) or _has_complex(b):
        return 'complex', None          # outside the property's universe (integers and reals); never extended
    if not vclose(a, b, RTOL, atol):
        dk = diff_kind(a, b)
        rootop = t[1] if not isinstance(t, str) else None
        inexact_child = any(i is not None and not i[1] for i in kinfo)
        if dk == 'value' and rootop in DISCONT and inexact_child:
            return 'rounding', dk
        # Power returns an integer when the result is whole: with an operand that already differs by rounding, 81.0
        # against 81.00000000000001 legitimately differ in kind
        if dk == 'kind' and rootop == '^' and inexact_child and vclose(_promote(a), _promote(b), RTOL, atol):
            return 'rounding', dk
        # ... and its integer results are floating-point results converted afterwards (3^16 computed in float32 is
        # 43046720): integers produced by ^ itself are compared with the tolerance
        if dk == 'value' and rootop == '^' and vclose(_promote(a), _promote(b), RTOL, atol):
            return 'rounding', dk
        return 'value', dk
    if on[2] is None or ot[2] is None:
        return 'write', 'raises'
    if not texts_agree(on[2], ot[2], RTOL, atol):
        return 'write', 'text'
    return 'clean', (max(kmag, _mag(a), _mag(b)), a == b, _numeric(a) and _numeric(b))


def outcome_digest(on, ot):
    parts = []
    for o in (on, ot):
        parts.append(('exc', o[1]) if o[0] == 'exc' else ('ok', fsig(o[1]), o[2], o[3]))
    return _digest(parts)


def snippet_for(t):
    used = leaves_of(t)
    lines = ['from klongpy import KlongInterpreter',
             'from klongpy.writer import kg_write',
             "for kw in ({'backend': 'numpy'}, {'backend': 'torch', 'device': 'cpu'}):",
             '    k = KlongInterpreter(**kw)']
    for v in used:
        lines.append('    k(%r)' % BINDSRC[v])
    lines += ['    try:',
              '        r = k(%r)' % text(t),
              "        print(kw['backend'], type(r).__name__, getattr(r, 'dtype', ''), repr(r), '| written:', "
              'kg_write(r, k._backend))',
              '    except Exception as e:',
              "        print(kw['backend'], 'raised', type(e).__name__, e)"]
    return '\n'.join(lines) + '\n'


# ---------------------------------------------------------------------------------------------
# root-cause groups (assigned by inspection of the pinned tree; a finding that fits none is 'unclassified')

def _has_kind(c, k):
    if c[0] == 'l':
        return any(_has_kind(e, k) for e in c[1])
    return c[0] == k


def classify(t, status, detail, on, ot):
    """Root-cause label.  Rules follow the mechanisms found by reading the code for the minimal examples of each
    cluster (see the module report); symptoms that fit no rule are 'unclassified'."""
    root = t[1]
    if status == 'accept':
        msgs = (on[2] if on[0] == 'exc' else '') + ' ' + (ot[2] if ot[0] == 'exc' else '')
        if 'negative integer powers' in msgs:
            return 'numpy-int-array-negative-power-rejected'
        if 'cannot convert float infinity to integer' in msgs:
            return 'power-infinite-result-integer-conversion-raises'
        if ot[0] == 'exc' and 'numpy.ndarray' in ot[2]:
            return 'torch-power-scalar-base-returns-numpy-array'
        if ot[0] == 'exc' and 'got (numpy.' in ot[2]:
            return 'torch-wrapper-rejects-numpy-scalar-operand'
        if on[0] == 'exc' and ot[0] == 'exc':
            return 'accept-both-reject:%s/%s' % (on[1], ot[1])
        return 'accept-numpy-rejects:' + on[1] if on[0] == 'exc' else 'accept-torch-rejects:' + ot[1]
    a, b = cn(on[1]), cn(ot[1])
    if status == 'write':
        if detail == 'text' and isinstance(on[1], np.ndarray) and on[1].dtype == object and _has_kind(a, 'r'):
            return 'mixed-object-list-displays-integers-numpy-only'
        return 'writer-' + str(detail)
    if root in ('+/', '*/', '-/', '%/'):
        return 'torch-over-folds-all-axes'
    if root in ('+\\', '*\\') and compilable(t) and detail == 'shape':
        return 'numpy-compiled-scan-flattens'
    if root == '^':
        if detail == 'kind' and _has_kind(a, 'r') and not _has_kind(b, 'r'):
            return 'torch-compiled-power-negative-exponent-stays-integer'
        if detail == 'kind' and not _has_kind(a, 'r') and _has_kind(b, 'r'):
            return 'compiled-power-skips-integer-normalisation'
        if detail == 'value' and not _has_kind(a, 'r') and _mag(a) >= 2.0 ** 62:
            return 'power-int64-overflow'
    if root == '%' and (a == ('u',) or b == ('u',)):
        return 'compiled-divide-by-zero-not-undefined'
    if root == ',' and detail == 'kind':
        return 'join-empty-operand-kind'
    if root == '@' and detail == 'shape':
        return 'torch-index-by-numpy-0d-integer-returns-whole-list'
    return 'unclassified'


# ---------------------------------------------------------------------------------------------
# worker

def new_out():
    return {'evaluations': 0, 'programs': 0, 'both_ok': 0, 'clean': 0, 'both_exc': 0, 'one_exc': 0, 'rounding': 0,
            'nontrivial': 0, 'compilable_conforming': 0, 'exact': 0, 'clean_not_numeric': 0, 'complex': 0,
            'complex_samples': [], 'by_nodes': {}, 'one_sided': {},
            'both_reject': {}, 'groups': {}, 'viol': [], 'samples': [], 'rounding_samples': [], 'classes': set(),
            'records': [], 'digests': [], 'fresh': []}


def _ex_key(x):
    s = x if isinstance(x, str) else x[0]
    return (len(s), s)


def _keep(lst, item, n):
    """Keep the n smallest examples (shortest text first): the choice is independent of chunking and order of work."""
    lst.append(item)
    if len(lst) > n:
        lst.sort(key=_ex_key)
        del lst[n:]


def run_case(env, t, out, want_records, fresh=False):
    txt = text(t)
    used = leaves_of(t)
    if fresh:
        env.new_pair()
    try:
        with runner.watchdog(20):
            on = observe(env.kn, txt, used)
            ot = observe(env.kt, txt, used)
    except runner.CaseTimeout:
        out['viol'].append(dict(key=txt, observed='did not terminate', expected='both backends return or raise',
                                case={'tree': t, 'text': txt, 'bindings': dict(BIND)}, snippet=snippet_for(t),
                                group='timeout'))
        return
    if fresh:
        out['fresh'].append((txt, outcome_digest(on, ot)))
        return
    env.tick()
    # the generated text must denote the intended tree (else the harness is wrong); the AST in the parse cache is the
    # one that has just been evaluated
    ast = env.kn._parse_cache.get((txt, None))
    if ast is None:
        ast = env.kn.prog(txt)[1]
        ast = ast[0] if len(ast) == 1 else ast
    if ast_tree(ast) != t:
        raise runner.HarnessError('C08 generator: %r does not parse to %r (got %r)' % (txt, t, ast_tree(ast)))
    status, detail = judge(t, on, ot)
    out['evaluations'] += 2
    out['programs'] += 1
    nn = str(nodes(t))
    out['by_nodes'][nn] = out['by_nodes'].get(nn, 0) + 1
    comp = compilable(t) and shape_of(t) is not None
    if comp:
        out['compilable_conforming'] += 1
    both_ok = on[0] == 'ok' and ot[0] == 'ok'
    if both_ok:
        out['both_ok'] += 1
        if any(v not in INT_SCALAR_LEAVES for v in used):
            out['nontrivial'] += 1
    if want_records:
        out['digests'].append((t, outcome_digest(on, ot), status))
    if status == 'clean':
        out['clean'] += 1
        mag, exact, numeric = detail
        if exact:
            out['exact'] += 1
        if not numeric:
            out['clean_not_numeric'] += 1        # e.g. :undefined from a division by zero on both sides: never extended
        cls = _digest((compilable(t), fsig(on[1]), fsig(ot[1])))
        out['classes'].add(cls)
        if want_records and numeric:
            out['records'].append((t, cls, mag, exact, _digest((compilable(t), asig(on[1]), asig(ot[1])))))
        if nodes(t) == 2 and not exact:
            _keep(out['samples'], [txt, show_obs(on), show_obs(ot), on[2], ot[2]], 4)
        return
    if status in ('both_exc', 'one_exc'):
        out[status] += 1
        if status == 'one_exc':
            g = 'numpy:' + on[1] if on[0] == 'exc' else 'torch:' + ot[1]
            d = out['one_sided'].setdefault(g, {'n': 0, 'ex': []})
        else:
            g = on[1] + '/' + ot[1]
            d = out['both_reject'].setdefault(g, {'n': 0, 'ex': []})
        d['n'] += 1
        _keep(d['ex'], txt, 3)
        return
    if status == 'rounding':
        out['rounding'] += 1
        _keep(out['rounding_samples'], [txt, show_obs(on), show_obs(ot)], 3)
        return
    if status == 'complex':
        out['complex'] += 1
        _keep(out['complex_samples'], txt, 3)
        return
    group = classify(t, status, detail, on, ot)
    out['groups'][group] = out['groups'].get(group, 0) + 1
    if status == 'accept':
        observed = 'numpy %s | torch %s' % (show_obs(on), show_obs(ot))
        expected = 'a conforming program of the expression compiler\'s grammar is accepted by both backends'
    elif status == 'value':
        observed = 'numpy %s | torch %s' % (show_obs(on), show_obs(ot))
        expected = 'same shape, same integer/real kind, elements equal within rtol %g (differs in: %s)' % (RTOL, detail)
    else:
        observed = 'written numpy %s%s | torch %s%s' % (json.dumps(on[2]), ' (%s)' % on[3] if on[3] else '',
                                                       json.dumps(ot[2]), ' (%s)' % ot[3] if ot[3] else '')
        expected = 'values agree (%s); kg_write texts identical up to rtol %g on numeric tokens' % (show_obs(on), RTOL)
    out['viol'].append(dict(key=txt, observed=observed, expected=expected,
                            case={'tree': t, 'text': txt, 'bindings': {v: dict(BIND)[v] for v in used},
                                  'status': status, 'detail': detail,
                                  'numpy_msg': on[2] if on[0] == 'exc' else None,
                                  'torch_msg': ot[2] if ot[0] == 'exc' else None},
                            snippet=snippet_for(t), group=group))


def make_worker(want_records):
    def work(chunk):
        env = get_env()
        out = new_out()
        for item in chunk:
            kind = item[0]
            if kind == 't':
                run_case(env, item[1], out, want_records)
            elif kind == 'fresh':
                run_case(env, item[1], out, False, fresh=True)
            elif kind == 'ub':                       # unary block: every unary operator over one child
                for op in UNARY:
                    run_case(env, ('u', op, item[1]), out, want_records)
            elif kind == 'bb':                       # binary block: op, left, right pool
                _, op, l, pool = item
                for r in POOLS[pool]:
                    run_case(env, ('b', op, l, r), out, want_records)
            else:
                raise runner.HarnessError('C08: unknown item ' + repr(item))
        return out
    return work


# ---------------------------------------------------------------------------------------------

def _tup(x):
    return tuple(_tup(e) for e in x) if isinstance(x, list) else x


def fan(cfg, items, want_records, total):
    part_records, part_digests, fresh = [], [], []
    for part in runner.pmap(make_worker(want_records), items, cfg, inline_below=-1):
        part_records.extend(part.pop('records'))
        part_digests.extend(part.pop('digests'))
        fresh.extend(part.pop('fresh'))
        os_, br = part.pop('one_sided'), part.pop('both_reject')
        for name, src in (('one_sided', os_), ('both_reject', br)):
            dst = total.setdefault(name, {})
            for g, d in src.items():
                e = dst.setdefault(g, {'n': 0, 'ex': []})
                e['n'] += d['n']
                e['ex'] = sorted(set(e['ex']) | set(d['ex']), key=_ex_key)[:3]
        for name, n in (('samples', 8), ('rounding_samples', 5), ('complex_samples', 5)):
            cur = total.setdefault(name, [])
            cur.extend(part.pop(name))
            cur.sort(key=_ex_key)
            del cur[n:]
        runner.merge_counts(total, part)
    return part_records, part_digests, fresh


def run(cfg):
    rep = runner.Report(PID, 'exploration')
    total = {}
    t0 = time.time()
    timings = {}
    INFO.clear()
    POOLS.clear()
    # torch is imported once here and inherited by every forked worker of every fan-out round (as C05 does).  Importing
    # it in the workers instead costs one import per worker per round: ~2 s each on an idle machine, but measured
    # 19 s user + 5 s sys EACH on the loaded 16-core box (16 workers x 3 rounds = 19 CPU-minutes of imports).  No torch
    # operation is executed in the parent, so no intra-op thread pool exists at fork time; the workers pin
    # torch.set_num_threads(1) before their first evaluation.  The module itself never imports torch at import time.
    import torch        # noqa: F401
    timings['import torch'] = round(time.time() - t0, 1)

    # ---- levels 0 and 1 (+ the same product on a brand-new interpreter pair per case)
    l0 = list(LEAVES)
    l1 = extend(l0, [(l0, l0)])
    items = [('t', t) for t in l0 + l1] + [('fresh', t) for t in l0 + l1]
    recs, digs, fresh = fan(cfg, items, True, total)
    timings['levels 0-1 + fresh pairs'] = round(time.time() - t0, 1)
    reused = {text(t): d for t, d, _ in digs}
    fr = dict(fresh)
    if set(reused) != set(fr):
        raise runner.HarnessError('C08 reuse cross-check: different case sets (%d / %d)' % (len(reused), len(fr)))
    bad = sorted(k for k in reused if reused[k] != fr[k])
    for k in bad:
        # Not a harness error: the programs contain no assignment and every variable is re-bound from source before each
        # case, so a different outcome after other programs can only come from an evaluation that changed something it
        # does not own (an operand updated in place, a literal cached in the parse tree).  The later programs then denote
        # different values under the two backends - on a history, which is what the reuse of the pair is.
        rep.violation('history: %s after the programs enumerated before it (same interpreter pair)' % k,
                      'outcome differs from the one on a brand-new interpreter pair',
                      'the same outcome: programs without assignment do not change what later programs mean',
                      case={'text': k, 'kind': 'reuse'}, group='evaluation-changes-the-meaning-of-later-programs',
                      snippet=None)
    if len(bad) > 50:
        raise runner.HarnessError('C08 reuse cross-check: reused and fresh interpreter pairs disagree on %d programs, '
                                  'first: %s' % (len(bad), bad[0]))
    rec = {r[0]: r[1:] for r in recs}                   # tree -> (class, magnitude, exact, representation class)
    missing = [v for v in l0 if v not in rec]
    c0 = [t for t in l0 if t in rec]
    c1 = [t for t in l1 if t in rec]
    for t in c0 + c1:
        INFO[t] = (rec[t][1], rec[t][2])

    # ---- level 2: complete product over clean children
    t1 = time.time()
    l2 = extend(c1, [(c1, c0), (c0, c1)])
    want2 = not cfg.quick
    recs2, digs2, _ = fan(cfg, [('t', t) for t in l2], want2, total)
    timings['level 2'] = round(time.time() - t1, 1)
    pruned2 = len(extend(l1, [(l1, l0), (l0, l1)])) - len(l2)
    cov_extra = {}

    if not cfg.quick:
        # ---- congruence of both class notions, measured on the complete level-2 product
        dmap = {t: (d, st) for t, d, st in digs2}
        ordered = [(t,) + dmap[t] for t in l2 if t in dmap]        # enumeration order, not completion order

        def contexts(col):
            seen, differ = {}, {}
            for t, d, st in ordered:
                key = (t[1], rec[t[2]][col]) if t[0] == 'u' else (t[1], rec[t[2]][col], rec[t[3]][col])
                val = d if col == 0 else (st in ('clean', 'both_exc', 'one_exc', 'rounding', 'complex'))
                if key in seen:
                    if seen[key][1] != val:
                        differ.setdefault(key, (text(seen[key][0]), text(t)))
                else:
                    seen[key] = (t, val)
            return seen, differ
        seen, differ = contexts(0)
        cov_extra['class_congruence_checked_programs'] = len(digs2)
        cov_extra['class_congruence_distinct_contexts'] = len(seen)
        # not zero on the pinned tree: when the compiled form of a whole expression raises, the interpreter re-evaluates
        # the ROOT operator as well, so the representation (tensor vs Python int) of `(+/b)=a` and `b=|\a` differs although
        # their children are indistinguishable.  Measured and reported, not assumed.
        cov_extra['class_congruence_contexts_with_different_outcome'] = len(differ)
        cov_extra['class_congruence_counterexamples'] = [list(x) for x in sorted(differ.values())[:5]]
        seen_a, differ_a = contexts(3)
        cov_extra['representation_class_contexts'] = len(seen_a)
        cov_extra['representation_class_contexts_with_mixed_verdicts'] = len(differ_a)
        cov_extra['representation_class_mixed_examples'] = [list(x) for x in sorted(differ_a.values())[:5]]

        # ---- level 3 over one representative (first in enumeration order) per representation class
        rec2 = {r[0]: r[1:] for r in recs2}
        order2 = [t for t in l2 if t in rec2]
        known = set()
        p0, p1, p2 = [], [], []
        for pool, src, table in ((p0, c0, rec), (p1, c1, rec), (p2, order2, rec2)):
            for t in src:
                c = table[t][3]
                if c not in known:
                    known.add(c)
                    pool.append(t)
                    INFO[t] = (table[t][1], table[t][2])
        POOLS['p0'], POOLS['p1'], POOLS['p2'] = p0, p1, p2
        cov_extra['level3_children'] = {
            'leaves': len(p0), 'one_node_representatives': len(p1), 'two_node_representatives': len(p2),
            'clean_one_node_programs': len(c1), 'clean_two_node_programs': len(order2),
            'exact_observational_classes_two_nodes': len(set(rec2[t][0] for t in order2))}
        items = [('ub', t) for t in p2]
        for op in BINARY:
            items += [('bb', op, l, 'p0') for l in p2]
            items += [('bb', op, l, 'p2') for l in p0]
            items += [('bb', op, l, 'p1') for l in p1]
        t2 = time.time()
        if os.environ.get('C08_PROGRESS'):
            print('C08 progress: level 2 done after %.0fs; level-3 children %s, %d work items'
                  % (t2 - t0, cov_extra['level3_children'], len(items)), file=sys.stderr)
        fan(cfg, items, False, total)
        timings['level 3'] = round(time.time() - t2, 1)

    # ---- report
    if missing:
        rep.notes.append('leaves that are not clean: %s' % missing)
    for v in total.get('viol', []):
        v['case']['tree'] = json.loads(json.dumps(v['case']['tree']))
    rep.extend_violations(total.get('viol', []))
    samples = total.get('samples', [])
    cov = {
        'evaluations': total.get('evaluations', 0),
        'programs': total.get('programs', 0),
        'programs_by_operator_nodes': dict(sorted(total.get('by_nodes', {}).items())),
        'both_returned': total.get('both_ok', 0),
        'agreeing': total.get('clean', 0),
        'agreeing_bit_exact': total.get('exact', 0),
        'both_raised': total.get('both_exc', 0),
        'one_raised_no_verdict': total.get('one_exc', 0),
        'compiler_grammar_conforming_programs': total.get('compilable_conforming', 0),
        'rounding_through_discontinuity_no_verdict': total.get('rounding', 0),
        'rounding_samples': total.get('rounding_samples', []),
        'complex_result_no_verdict': total.get('complex', 0),
        'complex_samples': total.get('complex_samples', []),
        'agreeing_but_not_numeric_not_extended': total.get('clean_not_numeric', 0),
        'distinct_nontrivial': total.get('nontrivial', 0),
        'distinct_outcomes': len(total.get('classes', ())),
        'one_sided': {g: total['one_sided'][g] for g in sorted(total.get('one_sided', {}))},
        'both_reject': {g: total['both_reject'][g] for g in sorted(total.get('both_reject', {}))},
        'violation_groups': dict(sorted(total.get('groups', {}).items())),
        'pruned_level2_programs_with_unclean_child': pruned2,
        'fresh_pair_crosscheck_programs': len(fr),
        'samples': samples,
        'exhaustive': True,
        'timings_s': timings,
        'rule': 'programs = operator trees over 14 dyads (+ - * % ^ < > = & | , @ # _) and 18 monadic forms (negate, floor, '
                'reverse, {x*x}\', 6 overs, 5 scans, @0, @[1 0], 1_) with leaves a..g (3, -2, 2.5, [1 2 3], [1.5 -2.5 3.0], '
                '[[1 2] [3 4]], [[1.5 2] [3 4]]); complete for 0, 1 and 2 operator nodes over children that agreed and '
                'are numeric (a program with a raising / disagreeing / :undefined / complex sub-program is not built: '
                'pruned_level2_programs_with_unclean_child)'
                + ('' if cfg.quick else '; 3 operator nodes: every operator over one representative (first in '
                   'enumeration order) per representation class of the agreeing 1- and 2-node programs (compilable flag, '
                   'and per backend Python type, dtype, shape, contiguity, set of element classes sign x whole/fractional '
                   '/nan/inf), child splits (2) (2,0) (0,2) (1,1)')
                + '. evaluations = program evaluations (each program once per backend). distinct_nontrivial = programs '
                '(pairwise distinct: every text is checked to parse back to its tree) for which both backends returned, '
                'so the oracle was applied, and that use at least one leaf other than the integer scalars a, b (whose '
                'arithmetic never reaches a backend array). distinct_outcomes = distinct exact result representations '
                '(both backends) among agreeing programs.',
    }
    cov.update(cov_extra)
    rep.coverage = cov
    rep.assumptions = [
        'differential oracle only: a defect both backends share is invisible here (C01/C02/C05 compare with the reference)',
        'torch backend on the CPU device, torch.set_num_threads(1); MPS/CUDA dtype rules (float32 everywhere) not covered',
        'tolerance: rtol %g on elements and on numeric tokens of the written text, atol = rtol x largest magnitude among '
        'the results of the sub-programs (cancellation), float32 range (|x| > 3.4e38 vs inf, |x| < 1.2e-38 vs 0) counts '
        'as single-precision rounding' % RTOL,
        'a disagreement in the numbers only, at a discontinuous operator (floor, < > =, ^, %, @ # _) one of whose operands '
        'already differs by rounding between the backends, is no verdict (rounding_through_discontinuity_no_verdict); for ^ '
        'this includes integer-vs-real kind of numerically equal results (Power returns an integer when the result is whole), '
        'and integer results of a root ^ are compared with the tolerance (they are floating-point results converted '
        'afterwards: 3^16 computed in float32 is 43046720); all other integers must be identical',
        'obligation 2 (acceptance) is applied to programs of the compiler grammar whose operands conform in shape and '
        'whose sub-programs are numeric; the statement read literally would also demand acceptance of [1 2 3]+[[1 2] [3 4]]',
        'a one-sided exception outside obligation 2 is no verdict ("whenever both return"): see one_sided',
        'complex results ((-3)^2.5 on Python scalars, identical on both sides) are outside the universe: no verdict, not extended',
        'values.norm promotes integers inside a numeric block that contains a real (DESIGN 2.4) before values are compared; '
        'the written texts are compared without that promotion',
        'interpreter pair reused per worker: variables re-bound from source before every case, caches emptied every 256 '
        'cases, complete <=1-node product cross-checked against a brand-new pair per case',
    ] + ([] if cfg.quick else [
        'level 3 is exhaustive over operators x representation classes of the children, not over all value combinations; '
        'on the complete level-2 product %d of %d (operator, child classes) contexts contain programs with different '
        'verdicts (representation_class_contexts_with_mixed_verdicts)'
        % (cov_extra.get('representation_class_contexts_with_mixed_verdicts', -1),
           cov_extra.get('representation_class_contexts', -1))])
    return rep


def selftest():
    """The harness's own small models against example tables (no torch needed)."""
    T = [(('u', 'neg', 'a'), '-a'), (('u', '+/', ('u', 'rev', 'd')), '+/|d'), (('u', '*\\', ('u', '*/', 'f')), '*\\(*/f)'),
         (('b', '-', ('b', '+', 'a', 'b'), ('u', 'neg', 'c')), '(a+b)--c'), (('u', '@[1 0]', ('u', 'floor', 'e')), '(_e)@[1 0]'),
         (('u', '1_', ('b', ',', 'd', 'e')), '1_d,e'), (('u', "sq'", ('u', '@0', 'f')), "{x*x}'f@0"),
         (('b', '_', 'b', ('b', '#', 'a', 'd')), 'b_a#d')]
    k = KlongInterpreter()
    for t, s in T:
        assert text(t) == s, (t, text(t), s)
        p = k.prog(s)[1]
        assert len(p) == 1 and ast_tree(p[0]) == t, (s, ast_tree(p[0]))
    S = [('d', (3,)), (('b', '+', 'd', 'e'), (3,)), (('b', '+', 'd', 'f'), None), (('u', '+/', 'f'), (2,)),
         (('b', '*', ('u', '+/', 'f'), 'g'), (2, 2)), (('b', '<', ('u', '+/', 'f'), 'd'), None), (('u', '+\\', 'g'), (2, 2)),
         (('u', '|/', 'd'), ()), (('b', '^', 'a', ('u', 'neg', 'f')), (2, 2))]
    for t, s in S:
        assert shape_of(t) == s, (t, shape_of(t), s)
    assert compilable(('b', '^', 'a', ('u', '&\\', 'd'))) and not compilable(('u', '-/', 'd')) \
        and not compilable(('b', '&', 'a', 'b')) and not compilable(('u', 'floor', 'c'))
    W = [('[1 2]', '[1 2]', True), ('[1 2]', '[1.0 2.0]', False), ('0.16666666666666666', '0.1666666716337204', True),
         ('[1 3 6 10]', '[[1 2] [4 6]]', False), ('[3.0 1.39e+122]', '[3.0 inf]', True), (':undefined', 'inf', False),
         ('[0.5 -2.5]', '[0.5 -2.6]', False), ('7', '8', False), ('[1 2 3 1.5]', '[1.0 2.0 3.0 1.5]', False),
         ('-0.3333333333333333', '-0.3333333432674408', True), ('1e-07', '1.00000001e-07', True)]
    for a, b, want in W:
        assert texts_agree(a, b, RTOL, 0.0) == want, (a, b, want)
    V = [(('r', 1.0), ('r', 1.000001), True), (('r', 1.0), ('r', 1.0001), False), (('i', 1), ('r', 1.0), False),
         (('r', float('nan')), ('r', float('nan')), True), (('r', 1e39), ('r', float('inf')), True),
         (('r', 1e30), ('r', float('inf')), False), (('r', float('inf')), ('r', 1e39), False),
         (('l', (('i', 1),)), ('l', (('i', 1), ('i', 2))), False), (('u',), ('r', float('inf')), False)]
    for a, b, want in V:
        assert vclose(a, b, RTOL, 0.0) == want, (a, b, want)
    assert diff_kind(('l', (('i', 1),)), ('i', 1)) == 'shape' and diff_kind(('i', 1), ('r', 1.0)) == 'kind' \
        and diff_kind(('r', 1.0), ('r', 2.0)) == 'value'
    return '%d text/parse, %d shape, %d written-text, %d value examples' % (len(T), len(S), len(W), len(V))


def replay(cfg, path):
    with open(path) as f:
        r = json.load(f)
    if r['case'].get('kind') == 'reuse':
        print('history-dependent case: the program %r gives another outcome after the level-0/1 programs than on a brand-new '
              'interpreter pair; re-run `./check C08 --tier quick` (the enumeration order is fixed) to reproduce' % r['case']['text'])
        return 0
    t = _tup(r['case']['tree'])
    env = get_env()
    txt = text(t)
    on = observe(env.kn, txt, leaves_of(t))
    ot = observe(env.kt, txt, leaves_of(t))
    print('program  :', txt, ' with', {v: dict(BIND)[v] for v in leaves_of(t)})
    for name, o in (('numpy', on), ('torch', ot)):
        if o[0] == 'exc':
            print('%-9s: raised %s: %s' % (name, o[1], o[2]))
        else:
            v = o[1]
            print('%-9s: %s  [%s %s]  written %r %s' % (name, show(cn(v)), type(v).__name__, getattr(v, 'dtype', ''),
                                                      o[2], o[3] or ''))
    print('verdict  :', judge(t, on, ot)[0], '(children information is not available in replay: atol = 0)')
    print('recorded :', r.get('observed'))
    print('expected :', r.get('expected'))
    return 0

"""C02 - adverbs equal their definitional expansion for every verb and operand.

E1 (complete product enumeration): 16 adverb forms x a closed verb set (operators, the equivalent lambdas, non-commutative
and non-associative lambdas, projections, Python callables) x operands (x left operands / counts / predicates), plus all
two-adverb chains `f A1 A2 a`.  Every program is evaluated as source text by a fresh, unmodified KlongInterpreter
(operator shortcuts of Over / Scan-Over and the expression compiler inside lambda bodies active).

Oracle: mc.ref.adverbs writes every adverb's definition out in terms of an abstract plain application ap(f, args).  Here
ap is the plain application of the same verb, evaluated separately by the implementation:
    operator verbs     source text `(a)V(b)` / `V(a)` on literals of the canonical operands,
    lambdas            `{...}((a);(b))` in a twin interpreter whose expression compiler is disabled,
    projections        bound to a name in the twin, then `name((a))`,
    Python callables   called directly on the runtime values of the literals.
A case is judged only if every plain application of its expansion lies inside the reference domain of the verb
(mc.ref.verbs; compositions of it for the lambdas) AND the implementation's plain application returned what the
reference prescribes (otherwise C01's findings would be reported again): such cases are counted, not compared and not
executed.  Expansions that do not terminate within 50 steps are excluded by construction (never executed).
"""
import json

from klongpy import KlongInterpreter
import klongpy.interpreter as _ki

from .. import runner
from ..ref import verbs
from ..ref import adverbs as model
from ..ref.adverbs import NotJudged, FORMS, CHAIN_FIRST, CHAIN_SECOND
from ..values import I, C, Y, L, cn, norm, lit, plit, show, has_literal, from_py as P

# ---------------------------------------------------------------------------------------------
# Python callables (stored with klong[name] = fn; fresh interpreter per program)

PYFNS = {
    'padd': lambda x, y: x + y,
    'psub': lambda x, y: x - y,
    'ptwo': lambda x, y: 2 * x + y,
    'pinc': lambda x: x + 1,
    'pneg': lambda x: -x,
}


class Verb:
    __slots__ = ('text', 'arity', 'kind', 'ref')

    def __init__(self, text, arity, kind, ref):
        self.text, self.arity, self.kind, self.ref = text, arity, kind, ref

    def __repr__(self):
        return 'Verb(%s/%d)' % (self.text, self.arity)


def _ops(names, arity):
    table = verbs.MONADS if arity == 1 else verbs.DYADS
    return [Verb(n, arity, 'op', table[n]) for n in names]


def _fns(names, arity):
    return [Verb(n, arity, 'proj' if '(' in n.split('}')[-1] else 'lambda', model.LAMBDA_REF[n]) for n in names]


def _pys(names, arity):
    return [Verb(n, arity, 'py', None) for n in names]


def verb_sets(quick):
    """(dyadic verbs, monadic verbs, predicates, reduced sets for chains in the quick tier)."""
    d_ops = ['+', '-', '*', '%', ':%', '!', '^', '&', '|', '<', '>', '=', '~', ',']
    d_lam = ['{x+y}', '{x-y}', '{x*y}', '{x%y}', '{x^y}', '{x&y}', '{x|y}', '{x<y}', '{x>y}', '{x=y}', '{x~y}', '{x,y}',
             '{y-x}', '{(2*x)+y}', '{x,,y}', '{x+y+z}(1;;)',
             '{(#x)-#y}']        # tells a character (its code) from a one-character string (its length)
    d_py = ['padd', 'psub', 'ptwo']
    m_ops = ['-', '|', '#', '*', ',', '_', '~', '%', '!', '?', '<', '>', '=', '^', '+', '&', '@', '$', ':#']
    m_lam = ['{x}', '{-x}', '{x+1}', '{x*2}', '{_x%2}', '{1,x}', '{x,x}', '{x@0}', '{x@1}', '{(x@0)*(x@1)}', '{(x+2%x)%2}',
             '{x&2}', '{x-y}(;1)']
    m_py = ['pinc', 'pneg']
    preds = ['{x<3}', '{(#x)<3}', '{x<0}', '{x<10}', '{(#x)<5}']
    if quick:
        d_lam = [x for x in d_lam if x not in ('{x*y}', '{x<y}', '{x>y}', '{x=y}', '{x~y}', '{x|y}')]
        d_py = ['padd', 'psub']
        m_ops = ['-', '|', '#', '*', ',', '_', '~', '!', '?', '<', '^', '+']
        m_py = ['pinc']
        preds = preds[:2]
    else:
        d_ops = d_ops + ['#', '_', '@', '?', ':^']
        d_lam = d_lam + ['{x:%y}', '{x!y}']
        m_lam = m_lam + ['{|x}', '{#x}']
    dy = _ops(d_ops, 2) + _fns(d_lam, 2) + _pys(d_py, 2)
    mo = _ops(m_ops, 1) + _fns(m_lam, 1) + _pys(m_py, 1)
    pr = _fns(preds, 1)
    return dy, mo, pr


def operands(quick):
    """(right operands, dictionaries (Each only), left operands)."""
    base = [0, 1, 2.5, C('a'), Y('foo'), '', 'a', 'abc', [], [1], [1, 2], [3, 1, 2], [3, 1, 2, 5, 4], [1.5, 2.5], [0.5, 2.0, 4.0, 1.0],
            [[1, 2], [3, 4]], [[1, 2, 3], [4, 5, 6]], [[[1, 2], [3, 4]], [[5, 6], [7, 8]]], [1, [2, 3]], [[1], [2, 3]],
            ['ab', 'cd'], ['a', ['b'], 'c'], [5, 1, 2, 3, 4, 7], [4, 2, 0]]         # [4 2 0]: a zero after the first position
    more = [-3, 5, 2, 0.5, Y('x'), C('b'), 'hello', [2], [2.0], [1, 1, 2], [2, 0, 1], [4, 2, 7, 1], [0, 1, 0, 1, 0],
            [1, 2, 3, 4, 5], [1.5], [2, 0.5, -1.5], [[1.5, 2], [3, 4]], [[1], [2], [3]], [[1, 2, 3]], [[1, 2], 3],
            [1, [2, [3]]], [[], [1]], ['a', 'bcd'], [1, 'a', C('b')], [C('a'), C('b')], [Y('foo'), Y('x')],
            [1, [2, [3, [4], 5], 6], 7], ['f', ['l', 'at'], 'ten'], [[1, 2], [3, 4], [5, 6]], [10, 20, 30]]
    dicts = [{1: 2}, {1: 2, 3: 4}]
    dmore = [{'a': 1, 'b': 2}, {}]
    lefts = [0, [], [1, 2], 'ab']
    lmore = [1, 2]
    if quick:
        return [norm(P(x)) for x in base], [norm(P(x)) for x in dicts], [norm(P(x)) for x in lefts]
    return ([norm(P(x)) for x in base + more], [norm(P(x)) for x in dicts + dmore], [norm(P(x)) for x in lefts + lmore])


# verbs whose token followed by the adverb symbol reads as a different token sequence (excluded by construction)
def ambiguous(verb, sym):
    return verb.kind == 'op' and verb.text == '@' and sym.startswith("'")


# ---------------------------------------------------------------------------------------------
# program text

def program(case):
    """case = (form or (form1, form2), verb text, left, operand) with left: canonical value, count or predicate text."""
    form, vtext, left, a = case
    if isinstance(form, tuple) and form[0] == '@var':
        # single adverb, operand bound to a variable: the form in which the expression compiler may take the adverb over
        sym = FORMS[form[1]][0]
        return 'A::' + lit(a) + ';' + vtext + sym + 'A'
    if isinstance(form, tuple):
        if len(form) == 3:          # operand reaches the chain through a variable (an expression, not a literal)
            return 'A::' + lit(a) + ';' + vtext + FORMS[form[0]][0] + FORMS[form[1]][0] + 'A'
        return vtext + FORMS[form[0]][0] + FORMS[form[1]][0] + plit(a)
    sym, _, lk = FORMS[form]
    if lk is None:
        return vtext + sym + plit(a)
    if lk == 'value':
        return plit(left) + vtext + sym + plit(a)
    if lk == 'count':
        if isinstance(left, tuple):     # ('computed', n): the count is the result of an operation (a NumPy integer), not a literal
            return '(%d+0)' % left[1] + vtext + sym + plit(a)
        return '(%d)' % left + vtext + sym + plit(a)
    return left + vtext + sym + plit(a)


def case_json(case):
    form, vtext, left, a = case
    return {'form': list(form) if isinstance(form, tuple) else form, 'verb': vtext,
            'left': left if isinstance(left, (int, str)) or left is None else
                    (list(left) if left and left[0] == 'computed' else ['canon', lit(left)]),
            'operand': lit(a), 'text': program(case)}


# ---------------------------------------------------------------------------------------------
# plain applications (the `ap` of the model), evaluated by the implementation

class Plain:
    """Twin interpreter (expression compiler disabled) + memo of plain applications of this worker."""

    def __init__(self):
        self.twin = KlongInterpreter()
        twin, orig = self.twin, _ki.compile_expr
        if not getattr(orig, '_c02_twin_aware', False):
            def compile_expr(ast, klong, _orig=orig):
                return None if getattr(klong, '_c02_twin', False) else _orig(ast, klong)
            compile_expr._c02_twin_aware = True
            _ki.compile_expr = compile_expr
        twin._c02_twin = True
        self.names = {}
        self.memo = {}
        self.evals = 0
        self.disagree = {}
        self.acc_used = set()       # verbs whose reference value was an accept set, in the expansion of the current case

    def runtime(self, c):
        return self.twin(plit(c))

    def text(self, verb, args):
        if verb.kind == 'op':
            if len(args) == 1:
                return '%s(%s)' % (verb.text, lit(args[0]))
            return '(%s)%s(%s)' % (lit(args[0]), verb.text, lit(args[1]))
        if verb.kind == 'lambda':
            return verb.text + '(' + ';'.join(plit(a) for a in args) + ')'
        if verb.kind == 'proj':
            name = self.names.get(verb.text)
            if name is None:
                name = 'PJ%d' % len(self.names)
                self.twin(name + '::' + verb.text)
                self.names[verb.text] = name
            return name + '(' + ';'.join(plit(a) for a in args) + ')'
        return verb.text + '(' + ';'.join(plit(a) for a in args) + ')'        # display only (Python callable)

    def _evaluate(self, verb, args):
        self.evals += 1
        try:
            with runner.watchdog(10):
                if verb.kind == 'py':
                    r = PYFNS[verb.text](*[self.runtime(a) for a in args])
                else:
                    r = self.twin(self.text(verb, args))
            return ('ok', cn(r))
        except runner.CaseTimeout:
            return ('exc', 'TIMEOUT')
        except RecursionError:
            return ('exc', 'RecursionError')
        except Exception as e:      # noqa: BLE001
            return ('exc', type(e).__name__)

    def ap(self, verb, *args):
        key = (verb.text, verb.arity, args)
        hit = self.memo.get(key)
        if hit is None:
            hit = self._ap(verb, args)
            self.memo[key] = hit
        if hit[0] == 'nj':
            raise NotJudged(hit[1], hit[2])
        if hit[0] == 'acc':
            self.acc_used.add(verb.text)
        return hit[1]

    def _ap(self, verb, args):
        if len(args) != verb.arity:
            raise runner.HarnessError('arity mix-up: %r applied to %d operands' % (verb, len(args)))
        if not all(has_literal(a) for a in args):
            return ('nj', 'operand-without-literal', '')
        if verb.kind == 'py':
            got = self._evaluate(verb, args)
            if got[0] != 'ok' or _opaque(got[1]):
                return ('nj', 'python-callable-undefined-here', self.text(verb, args))
            return ('val', got[1])
        ref = verb.ref(*args)
        if ref is verbs.NJ:
            return ('nj', 'outside-reference-domain', self.text(verb, args))
        got = self._evaluate(verb, args)
        if got[0] == 'ok' and verbs.judge(ref, got[1])[0]:
            return ('val' if ref[0] == 'val' else 'acc', got[1])
        t = self.text(verb, args)
        self.disagree.setdefault(t, 'ok:' + show(got[1]) if got[0] == 'ok' else 'exc:' + got[1])
        return ('nj', 'plain-application-disagrees-with-reference', t)

    def match(self, x, y):
        m = model.match_ref(x, y)
        if m is None:
            return None
        key = ('~match', 2, (x, y))
        hit = self.memo.get(key)
        if hit is None:
            if not (has_literal(x) and has_literal(y)):
                hit = ('nj', 'operand-without-literal', '')
            else:
                self.evals += 1
                t = '(%s)~(%s)' % (lit(x), lit(y))
                try:
                    with runner.watchdog(10):
                        got = ('ok', cn(self.twin(t)))
                except runner.CaseTimeout:
                    got = ('exc', 'TIMEOUT')
                except Exception as e:      # noqa: BLE001
                    got = ('exc', type(e).__name__)
                if got == ('ok', I(1 if m else 0)):
                    hit = ('val', m)
                else:
                    self.disagree.setdefault(t, 'ok:' + show(got[1]) if got[0] == 'ok' else 'exc:' + got[1])
                    hit = ('nj', 'plain-application-disagrees-with-reference', t)
            self.memo[key] = hit
        if hit[0] == 'nj':
            raise NotJudged(hit[1], hit[2])
        return hit[1]


def _opaque(c):
    t = c[0]
    if t in ('obj', 'none', 'fn', 'u'):
        return True
    if t == 'l':
        return any(_opaque(e) for e in c[1])
    if t == 'd':
        return any(_opaque(k) or _opaque(v) for k, v in c[1])
    return False


# ---------------------------------------------------------------------------------------------
# evaluation of the adverb program by an unmodified interpreter

_TIMEOUTS = 0                   # watchdog hits of this worker process
TIMEOUT_CAP = 12                # afterwards the remaining programs of the worker are not started (counted, never silent)


def evaluate(text, pynames=(), compiler=True):
    """compiler=False is used only to label a violation (does it disappear without the expression compiler?).
    A tree on which a whole class of programs does not terminate would cost 10 s per program: after 3 hits the limit
    drops to 2 s of CPU time, after TIMEOUT_CAP hits the worker stops starting programs (('exc', 'NOT-RUN'))."""
    global _TIMEOUTS
    if _TIMEOUTS >= TIMEOUT_CAP:
        return ('exc', 'NOT-RUN')
    try:
        kl = KlongInterpreter()
        if not compiler:
            kl._c02_twin = True         # honoured by the compile_expr wrapper installed by Plain()
        for n in pynames:
            kl[n] = PYFNS[n]
        with runner.watchdog(10 if _TIMEOUTS < 3 else 2):
            r = kl(text)
        return ('ok', cn(r))
    except runner.CaseTimeout:
        _TIMEOUTS += 1
        return ('exc', 'TIMEOUT')
    except RecursionError:
        return ('exc', 'RecursionError')
    except Exception as e:      # noqa: BLE001
        return ('exc', type(e).__name__)


def expected_of(plain, case, vmap):
    form, vtext, left, a = case
    if isinstance(form, tuple) and form[0] == '@var':
        form = form[1]
    if isinstance(form, tuple):
        v = vmap[(vtext, FORMS[form[0]][1])]
        return model.expand_chain(form[0], form[1], plain.ap, plain.match, v, a)
    v = vmap[(vtext, FORMS[form][1])]
    if FORMS[form][2] == 'predicate':
        left = vmap[(left, 1)]
    if FORMS[form][2] == 'count' and isinstance(left, tuple):
        left = left[1]
    return model.expand(form, plain.ap, plain.match, v, a, left)


def snippet(text, pynames):
    s = 'from klongpy import KlongInterpreter\nk = KlongInterpreter()\n'
    for n in pynames:
        s += 'k[%r] = %s\n' % (n, PY_SOURCE[n])
    return s + 'print(repr(k(%r)))' % text


PY_SOURCE = {'padd': 'lambda x, y: x + y', 'psub': 'lambda x, y: x - y', 'ptwo': 'lambda x, y: 2 * x + y',
             'pinc': 'lambda x: x + 1', 'pneg': 'lambda x: -x'}


CHOICE_ACC = {'$', '<', '>'}        # verbs whose accept set is a choice of value (not only of kind / representation)


def first_form(form):
    if isinstance(form, tuple):
        return form[1] if form[0] == '@var' else form[0]
    return form


def form_name(form):
    if isinstance(form, tuple) and form[0] == '@var':
        return form[1] + '@var'
    return '+'.join(form) if isinstance(form, tuple) else form


def check_case(plain, case, vmap, out):
    form, vtext, left, a = case
    fname = form_name(form)
    plain.acc_used = set()
    try:
        exp = expected_of(plain, case, vmap)
    except NotJudged as e:
        out['not_judged'][e.reason] = out['not_judged'].get(e.reason, 0) + 1
        return None
    text = program(case)
    pynames = tuple(n for n in (vtext,) if n in PYFNS)
    got = evaluate(text, pynames)
    if got == ('exc', 'NOT-RUN'):
        out['not_run_after_timeout_cap'] = out.get('not_run_after_timeout_cap', 0) + 1
        return None
    out['programs'] += 1
    by = out['per_form'].setdefault(fname, 0)
    out['per_form'][fname] = by + 1
    if got[0] == 'ok':
        ok = model.accepts(exp, got[1])
        observed = 'ok:' + show(got[1])
        if not ok and plain.acc_used:
            # a plain application of this expansion has an accept set in the reference: the expansion was computed with
            # the member the implementation's plain application picked, the adverb may pick another member
            if model.accepts(exp, got[1], loose=True):
                ok = True
                out['accepted_within_accept_set'] += 1
            elif plain.acc_used & CHOICE_ACC:
                out['programs'] -= 1
                out['per_form'][fname] -= 1
                r = 'accept-set-member-differs (Grade of ties / Format digits)'
                out['not_judged'][r] = out['not_judged'].get(r, 0) + 1
                return None
    else:
        ok, observed = False, 'exc:' + got[1]
    out['outcomes'].add(hash((fname, observed)) & 0xffffffffffff)
    if not ok:
        group = None
        if vmap[(vtext, FORMS[first_form(form)][1])].kind in ('lambda', 'proj') or FORMS[first_form(form)][2] == 'predicate':
            again = evaluate(text, pynames, compiler=False)
            if again[0] == 'ok' and model.accepts(exp, again[1]):
                group = 'expression-compiler-in-lambda-body-changes-result (C05 root cause)'
        out['violations'].append(dict(key=text, observed=observed, expected=model.describe(exp),
                                      group=group or classify(case, vmap, exp, got), case=case_json(case),
                                      snippet=snippet(text, pynames)))
    return ok


# ---------------------------------------------------------------------------------------------
# root-cause labels (triage aid; assigned from the shape of the failing case, see the report of the build)

def _has(c, tags):
    if c is None or not isinstance(c, tuple):
        return False
    if c[0] in tags:
        return True
    if c[0] == 'l':
        return any(_has(e, tags) for e in c[1])
    if c[0] in ('alt', 'bag'):
        return any(_has(e, tags) for e in c[1])
    return False


def _unwrap1(c):
    """Replace every one-element list of a non-list by its element (to recognise "returned bare instead of in a list")."""
    if c[0] != 'l':
        return c
    el = tuple(_unwrap1(e) for e in c[1])
    if len(el) == 1 and el[0][0] != 'l':
        return el[0]
    return ('l', el)


def _leaves(c):
    if c[0] == 'l':
        return [x for e in c[1] for x in _leaves(e)]
    return [c]


def _nesting_only(exp, got):
    g = _leaves(model._loosen(got))
    return any(_leaves(model._loosen(norm(e))) == g for e in _single(exp))


def _single(exp):
    return exp[1] if exp[0] == 'alt' else [] if exp[0] == 'bag' else [exp]


def classify(case, vmap, exp, got):
    form, vtext, left, a = case
    forms = (form[1],) if isinstance(form, tuple) and form[0] == '@var' else form if isinstance(form, tuple) else (form,)
    first = forms[0]
    verb = vmap[(vtext, FORMS[first][1])]
    exc = got[1] if got[0] == 'exc' else None
    texty = _has(a, 'sc') or _has(left if isinstance(left, tuple) and left[0] != 'computed' else None, 'sc')
    atom = a[0] not in 'ls'
    if exc == 'TIMEOUT':
        return 'does-not-terminate'
    if verb.kind == 'op' and vtext not in verbs.MONADS and FORMS[first][2] is None:
        return 'dyad-only-operator-not-parsed-before-monadic-adverb'
    if first in ('each-left', 'each-right') and atom:
        return 'each-left-right-atom-operand'
    if 'each' in forms and (a[0] in 'cy' or (forms[:2] == ('each', 'each') and (
            a[0] == 's' or (a[0] == 'l' and any(e[0] in 'cy' for e in a[1]))))):
        return 'each-character-or-symbol-atom-treated-as-string'
    if verb.kind == 'op' and vtext == '%' and _has(exp, 'u') and ('over' in forms or 'scan-over' in forms):
        return 'divide-shortcut-gives-inf-or-nan-for-division-by-zero'
    if exc == 'ValueError' and verb.kind == 'op' and vtext in '&|' and 'over' in forms:
        return 'over-min-max-shortcut-on-nested-list-raises'
    if first == 'each2' and exc == 'ValueError':
        return 'each2-nested-results-raise'
    if exc is None and model.accepts(exp, got[1], loose=True):
        return 'integer-results-become-real'
    if 'scan-over' in forms or first == 'scan-over-neutral':
        if exc == 'TypeError' and (texty or _has(a, 'y')):
            return 'scan-over-arithmetic-shortcut-on-characters-raises'
        if exc is None and (any(model.same(_unwrap1(e), _unwrap1(got[1])) for e in _single(exp))
                            or (atom and forms[0] == 'scan-over' and not texty)):
            return 'scan-over-atom-returned-bare'
    if texty and exc is None and 'each' in forms and got[1][0] == 's' and a[0] == 's' and not (exp[0] == 's'):
        return 'each-on-string-concatenates-string-results'
    if exc is None and _nesting_only(exp, got[1]):
        return 'result-collection-mangles-nested-results'
    if texty and exc is None:
        if a[0] == 'c' and 'each' in forms:
            return 'each-character-atom-treated-as-string'
        if 'over' in forms and verb.arity == 2 and len(forms) == 1 and a[0] == 's' and len(a[1]) == 1:
            return 'over-single-character-string-returns-string'
        return 'string-elements-reach-verb-as-strings-not-characters'
    if exc is None and forms[0] == 'each' and _has(exp, 's') and _has(got[1], 's'):
        return 'each-on-string-concatenates-string-results'        # an intermediate value of the chain is a string
    return 'unclassified ' + form_name(form) + (' exc:' + exc if exc else '')


# ---------------------------------------------------------------------------------------------
# enumeration

def enumerate_cases(quick):
    dy, mo, pr = verb_sets(quick)
    ops, dicts, lefts = operands(quick)
    counts = [0, 1, 2, 3]
    cases = []
    excluded = 0
    for form, (sym, arity, lk) in FORMS.items():
        vs = dy if arity == 2 else mo
        for v in vs:
            if ambiguous(v, sym):
                excluded += 1
                continue
            rights = ops + (dicts if form == 'each' else [])
            if lk is None:
                cases += [(form, v.text, None, a) for a in rights]
                if v.kind == 'op':
                    cases += [(('@var', form), v.text, None, a) for a in rights]
            elif lk == 'value':
                cases += [(form, v.text, l, a) for l in lefts for a in rights]
            elif lk == 'count':
                cases += [(form, v.text, n, a) for n in counts for a in rights]
                cases += [(form, v.text, ('computed', n), a) for n in (0, 2) for a in rights]
            else:
                cases += [(form, v.text, p.text, a) for p in pr for a in rights]
    # chains f A1 A2 a
    if quick:
        cd = [v for v in dy if v.text in ('+', '-', '*', '&', ',', '^', '{x-y}', '{x,y}', '{(2*x)+y}', '{x+y+z}(1;;)', 'psub')]
        cm = [v for v in mo if v.text in ('-', '|', '#', ',', '*', '{x+1}', '{_x%2}', '{x,x}', '{x@0}', '{x-y}(;1)', 'pinc')]
        keep = {lit(norm(P(x))) for x in [1, 'abc', [], [1], [3, 1, 2], [1.5, 2.5], [[1, 2], [3, 4]], [[1, 2, 3], [4, 5, 6]],
                                          [[[1, 2], [3, 4]], [[5, 6], [7, 8]]], [1, [2, 3]], [[1], [2, 3]], ['ab', 'cd'],
                                          ['a', ['b'], 'c']]}
        cops = [a for a in ops if lit(a) in keep]
    else:
        cd, cm, cops = dy, mo, ops
    via_var = {lit(norm(P(x))) for x in [[3, 1, 2], [[1, 2], [3, 4]], [1, [2, 3]], 'abc']
               + ([] if quick else [1, [1.5, 2.5], [[1], [2, 3]], ['ab', 'cd']])}
    for f1 in CHAIN_FIRST:
        s1, arity, _ = FORMS[f1]
        for f2 in CHAIN_SECOND:
            for v in (cd if arity == 2 else cm):
                if ambiguous(v, s1):
                    excluded += 1
                    continue
                rights = cops + (dicts if f2 == 'each' else [])
                cases += [((f1, f2), v.text, None, a) for a in rights]
                cases += [((f1, f2, 'var'), v.text, None, a) for a in cops if lit(a) in via_var]
    vmap = {(v.text, v.arity): v for v in dy + mo + pr}
    return cases, vmap, excluded


def work(quick):
    cases_vmap = {}

    def fn(items):
        if 'vmap' not in cases_vmap:
            dy, mo, pr = verb_sets(quick)
            cases_vmap['vmap'] = {(v.text, v.arity): v for v in dy + mo + pr}
        vmap = cases_vmap['vmap']
        plain = Plain()
        out = {'programs': 0, 'not_judged': {}, 'violations': [], 'outcomes': set(), 'per_form': {}, 'cases': 0,
               'accepted_within_accept_set': 0}
        for case in items:
            out['cases'] += 1
            check_case(plain, case, vmap, out)
        out['plain_evals'] = plain.evals
        out['plain_keys'] = {hash(k) & 0xffffffffffff for k in plain.memo}
        out['plain_disagree'] = sorted(plain.disagree.items())[:40]
        return out
    return fn


def run(cfg):
    rep = runner.Report('C02', 'model_checking')
    check = model.selfcheck()
    cases, vmap, excluded = enumerate_cases(cfg.quick)
    # group the cases of one verb into the same chunks: the memo of plain applications is per worker
    cases.sort(key=lambda c: (c[1], form_name(c[0])))
    total = {}
    for part in runner.pmap(work(cfg.quick), cases, cfg, chunk=max(50, min(600, len(cases) // (cfg.jobs * 6) or 1))):
        runner.merge_counts(total, part)
    rep.extend_violations(total.get('violations', []))
    dis = sorted(set(map(tuple, total.get('plain_disagree', []))))
    nj = total.get('not_judged', {})
    programs = total.get('programs', 0)
    dy, mo, pr = verb_sets(cfg.quick)
    ops, dicts, lefts = operands(cfg.quick)
    rep.coverage = {
        'states': len(total.get('outcomes', ())),
        'transitions': programs + total.get('plain_evals', 0),
        'traces_validated_against_impl': programs,
        'samples': [program(c) for c in cases[:: max(1, len(cases) // 10)]][:12],
        'exhaustive': total.get('not_run_after_timeout_cap', 0) == 0,
        'programs_not_run_after_timeout_cap': total.get('not_run_after_timeout_cap', 0),
        'distinct_outcomes': len(total.get('outcomes', ())),
        'cases_enumerated': len(cases),
        'programs_executed_and_judged': programs,
        'programs_per_form': dict(sorted(total.get('per_form', {}).items())),
        'not_judged_by_reason': dict(sorted(nj.items())),
        'accepted_within_reference_accept_set': total.get('accepted_within_accept_set', 0),
        'plain_applications_executed': total.get('plain_evals', 0),
        'distinct_plain_applications': len(total.get('plain_keys', ())),
        'plain_applications_disagreeing_with_reference_examples': [list(x) for x in dis[:12]],
        'verb_adverb_token_clashes_excluded': excluded,
        'verbs': {'dyadic': [v.text for v in dy], 'monadic': [v.text for v in mo], 'predicates': [v.text for v in pr]},
        'operands': len(ops), 'dictionaries': len(dicts), 'left_operands': len(lefts),
        'oracle_selfcheck': check,
        'rule': '16 adverb forms x closed verb set (dyadic verbs for each-2/each-left/each-right/each-pair/over/scan-over and '
                'their neutral forms, monadic verbs for each/each-index/iterate/converge/while and their scanning forms) x '
                'right operands (x left operands / counts 0..3 as literals and 0, 2 as computed values / predicates), plus all chains f A1 A2 a with A1 in the 7 forms '
                'that give a monad and A2 in each/each-index/converge/scan-converging (operand as literal and, for a few '
                'operands, through a variable `A::a;f A1 A2 A`); states = distinct (form, outcome) '
                'pairs; transitions = adverb programs executed + plain applications executed for the expansions; a case is '
                'judged only if every plain application of its expansion is inside the reference domain and agrees with it',
    }
    rep.assumptions = [
        'adverb model mc/ref/adverbs.py transcribed from the reference text in the docstrings; reproduces %s' % check,
        'plain applications are evaluated on literals of canonical values: the runtime representation of intermediate '
        'values inside the implementation\'s own fold (np.int64, views, object arrays) is deliberately not reproduced',
        'domain of a plain application = mc.ref.verbs (C01); a case with a plain application outside it, or on which the '
        'implementation disagrees with the reference (C01 findings), is counted in not_judged_by_reason and not executed',
        'comparison in canonical form modulo string / list-of-characters, numeric-block promotion (DESIGN 2.4), reals to '
        'rtol 1e-12; f\'dictionary as multiset; "" where the text says [] accepted as "" or []',
        'where the text gives two formulas that differ (a f/b written out vs. "formally f/a,b" for a list a; f\\[] ) either '
        'reading is accepted; Converge may stop at any value from the first undecided to the first certain Match',
        'two cases the text does not spell out are accepted either way, because the language\'s own test suite '
        '(tests/kgtests/language/test_suite.kg) expects the bare value: 0 f\\*a (a or [a]) and a f\\[] (a or [a])',
        'where a plain application of the expansion has an accept set in the reference (kind of an integral Power, of a mixed '
        'Min/Max, [] vs "") the adverb result may differ from the expansion in exactly that freedom; for accept sets that '
        'are a choice of value (Grade of ties, digits of Format) a differing result is not judged',
        'While / Scan-While are judged only when the predicate yields an integer; Each-2 of atom and list, Each-Index of an '
        'atom are not judged (text silent)',
        'lambdas and projections are applied in a twin interpreter whose expression compiler is disabled; one twin per '
        'worker is reused across plain applications (C04 covers history independence)',
        'operands reach adverbs as literals; the compiled reduce/scan path for variable operands belongs to C05',
    ]
    return rep


def selftest():
    return model.selfcheck()


def replay(cfg, path):
    with open(path) as f:
        r = json.load(f)
    c = r['case']
    text = c['text']
    pynames = tuple(n for n in (c['verb'],) if n in PYFNS)
    got = evaluate(text, pynames)
    print(text, '->', ('ok:' + show(got[1])) if got[0] == 'ok' else 'exc:' + got[1])
    print('expected:', r['expected'])
    # recompute the expansion
    dy, mo, pr = verb_sets(False)
    vmap = {(v.text, v.arity): v for v in dy + mo + pr}
    kl = KlongInterpreter()
    form = tuple(c['form']) if isinstance(c['form'], list) else c['form']
    left = c['left']
    if isinstance(left, list) and left[0] == 'computed':
        left = ('computed', left[1])
    elif isinstance(left, list):
        left = cn(kl('(' + left[1] + ')'))
    a = cn(kl('(' + c['operand'] + ')'))
    plain = Plain()
    try:
        exp = expected_of(plain, (form, c['verb'], left, a), vmap)
        print('expansion now gives:', model.describe(exp), '| accepted:', got[0] == 'ok' and model.accepts(exp, got[1]))
    except NotJudged as e:
        print('expansion not judged now:', e.reason, e.detail)
    return 0

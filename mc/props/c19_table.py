"""C19 - a table holds exactly the rows inserted into it, in the documented order.

E1 (explicit-state BFS over operation histories) on the real klongpy.db Table / Database, driven only through Klong
source text (`.table`, `.insert`, `t?"col"`, `#t`, `.schema`, `.index`, `.rindex`, `t,"d",,v`, `db(sql)`, `$t`).
After every operation the Klong-level result is compared with the list-of-rows model of mc/ref/tablemodel.py.

States are merged on (model rows / columns / index columns) x (fingerprint of the real Table fields: idx_cols, columns,
per-column dtype of the committed frame, the committed frame's cells and index, contents of the insert buffer).
The insert buffer and the dtypes are part of the key because buffering is the mechanism whose unobservability is
being checked: two histories are one state only if the real object agrees on all of it.
"""
import concurrent.futures as cf
import json
import os
import random
from concurrent.futures.process import BrokenProcessPool

import numpy as np

from klongpy import KlongInterpreter
import klongpy.db.sys_fn_db      # noqa: F401 - pandas and duckdb are loaded once, before any worker is forked

from .. import bfs, runner
from ..ref.tablemodel import TableModel, selfcheck
from ..values import canon, norm, show, from_py

# --- alphabet -------------------------------------------------------------------------------------

ALLCOLS = ('a', 'b', 'c')                    # int, real, string
ADDED = 'd'                                  # the column added with t,"d",,v (integers 100, 101, ...)
ADDED_INSERT_VALUE = 7                       # what later inserts carry in the added column

# full rows (a, b, c); a table with fewer columns uses the prefix
INIT_ROWS = {0: [], 1: [(1, 10.5, 'x')], 2: [(2, 20.5, 'y'), (1, 10.5, 'x')]}     # 2 rows: not in key order

SINGLES = [
    (3, 10.5, 'x'),        # key 3: new, larger than every initial key
    (1, 20.5, 'y'),        # key 1: present in the 1- and 2-row tables, different payload
    (2, 20.5, 'y'),        # identical to an initial row of the 2-row table
]
BATCHES = [
    [(3, 10.5, 'y'), (2, 10.5, 'x')],        # distinct keys, descending
    [(3, 10.5, 'x'), (3, 20.5, 'y')],        # same a-key twice, different payload (key 3 present after a [3 ..] insert)
    [(2, 10.5, 'x'), (1, 20.5, 'y')],        # both initial keys re-inserted with new payloads, descending
    [(3, 20.5, 'x'), (3, 20.5, 'x')],        # the same row twice (thorough only)
]
INDEXES = [('a',), ('c',), ('a', 'c'), ('b',), ('a', 'b')]

# the last line keeps DuckDB from starting one thread per core in each of the 16 worker processes
SETUP = ['.py("klongpy.db")', 'q:::{}', 'db::.db(q)', 'db("SET threads TO 1")']
REGISTER = 'q,"t",,t'


def bounds(cfg):
    if cfg.quick:
        return dict(depth=4, tables=[(1, 2), (2, 1), (3, 0), (3, 2)], singles=SINGLES, batches=BATCHES[:3],
                    indexes=INDEXES[:3], sums=('a',))
    return dict(depth=5, tables=[(1, 2), (2, 1), (2, 2), (3, 0), (3, 2)], singles=SINGLES,
                batches=BATCHES, indexes=INDEXES, sums=('a', 'b'))


# --- Klong text of values and operations --------------------------------------------------------------

def vlit(v):
    if isinstance(v, str):
        return '"' + v + '"'
    return repr(v)


def rowlit(row):
    return '[' + ' '.join(vlit(v) for v in row) + ']'


def project(full, cols):
    """Row of the (a, b, c) universe as a row of a table with columns `cols`."""
    out = []
    for c in cols:
        out.append(ADDED_INSERT_VALUE if c == ADDED else full[ALLCOLS.index(c)])
    return tuple(out)


def create_text(ncols, nrows):
    cols = ALLCOLS[:ncols]
    rows = [project(r, cols) for r in INIT_ROWS[nrows]]
    parts = []
    for i, c in enumerate(cols):
        parts.append('["%s" %s]' % (c, rowlit([r[i] for r in rows])))
    return 't::.table([' + ' '.join(parts) + '])'


def text(op, m):
    """Klong source of op in model state m (rows are projected on the table's current columns)."""
    k = op[0]
    if k == 'create':
        return create_text(op[1], op[2])
    if k == 'ins':
        return '.insert(t;%s)' % rowlit(project(op[1], m.cols))
    if k == 'insb':
        return '.insert(t;[%s])' % ' '.join(rowlit(project(r, m.cols)) for r in op[1])
    if k == 'find':
        return 't?"%s"' % op[1]
    if k == 'count':
        return '#t'
    if k == 'schema':
        return '.schema(t)'
    if k == 'print':
        return '$t'
    if k == 'sql':
        return 'db("%s")' % {'all': 'select * from t', 'count': 'select count(*) from t',
                             'sum': 'select sum(%s) from t' % (op[2] if len(op) > 2 else '')}[op[1]]
    if k == 'index':
        return '.index(t;[%s])' % ' '.join('"%s"' % c for c in op[1])
    if k == 'rindex':
        return '.rindex(t)'
    if k == 'addcol':
        return 't,"%s",,%s' % (ADDED, rowlit(addcol_values(m)))
    raise ValueError(op)


def addcol_values(m):
    return [100 + i for i in range(m.count())]


def enabled(m, b):
    ops = []
    for r in b['singles']:
        ops.append(('ins', r))
    for bt in b['batches']:
        ops.append(('insb', tuple(bt)))
    for c in m.cols:
        ops.append(('find', c))
    ops += [('count',), ('schema',), ('print',), ('sql', 'all'), ('sql', 'count')]
    for c in b['sums']:
        if c in m.cols:
            ops.append(('sql', 'sum', c))
    for idx in b['indexes']:
        if m.can_index(idx):            # the property's precondition: values of the index columns are unique
            ops.append(('index', idx))
    ops.append(('rindex',))
    if ADDED not in m.cols:
        ops.append(('addcol',))
    return ops


# --- expectations ------------------------------------------------------------------------------------
# ('val', python value) compared modulo int/real kind | ('table',) the table itself | ('print', header, rows, n)
# | ('free',) anything that is not an exception

def apply(m, op):
    """Apply op to the model; return what the Klong-level result must be."""
    k = op[0]
    if k == 'create':
        return ('table',)
    if k == 'ins':
        m.insert([project(op[1], m.cols)])
        return ('table',)
    if k == 'insb':
        m.insert([project(r, m.cols) for r in op[1]])
        return ('table',)
    if k == 'find':
        return ('val', m.column(op[1]))
    if k == 'count':
        return ('val', m.count())
    if k == 'schema':
        return ('val', m.schema())
    if k == 'print':
        return ('print', m.header(), [list(r) for r in m.rows], m.count())
    if k == 'sql':
        if op[1] == 'all':
            return ('val', m.select_all())
        if op[1] == 'count':
            return ('val', m.count())
        s = m.sum(op[2])
        return ('free',) if s is None else ('val', s)          # sum over no rows is SQL NULL: not judged
    if k == 'index':
        return ('val', m.index(op[1]))
    if k == 'rindex':
        return ('val', m.rindex())
    if k == 'addcol':
        m.addcol(ADDED, addcol_values(m))
        return ('table',)
    raise ValueError(op)


def model_of(hist):
    m = None
    for op in hist:
        if op[0] == 'create':
            cols = ALLCOLS[:op[1]]
            m = TableModel(cols, [project(r, cols) for r in INIT_ROWS[op[2]]])
        else:
            apply(m, op)
    return m


# --- canonical comparison ----------------------------------------------------------------------------

def tcanon(v):
    """Canonical form of a Klong-level result; pandas extension arrays (pandas 3 returns a StringArray for t?"c")
    are read as the list of their elements."""
    if not isinstance(v, (np.ndarray, str, int, float, list, tuple, dict)) and hasattr(v, 'to_numpy'):
        v = v.to_numpy(dtype=object)
    return norm(canon(v))


def loose(c):
    """Numbers by value: 1 and 1.0 are the same cell content (see assumptions)."""
    t = c[0]
    if t in 'ir':
        return ('n', float(c[1]))
    if t == 'l':
        return ('l', tuple(loose(e) for e in c[1]))
    return c


def expected_canon(pyval):
    return norm(from_py(pyval))


def check_print(s, header, rows, n):
    """`$t` against the model: header tokens (index columns starred), one line per row (first 10), cells by value."""
    if not isinstance(s, str):
        return False
    lines = s.split('\n')
    if lines[0].split() != header:
        return False
    body = lines[1:]
    shown = rows[:10]
    if n > 10:
        if body[len(shown):] != ['...', 'rows=%d' % n, '']:
            return False
        body = body[:len(shown)]
    if len(body) != len(shown):
        return False
    for line, row in zip(body, shown):
        toks = line.split()
        if len(toks) != len(row):
            return False
        for tok, v in zip(toks, row):
            if isinstance(v, str):
                if tok != v:
                    return False
            else:
                try:
                    if float(tok) != float(v):
                        return False
                except ValueError:
                    return False
    return True


def print_expected(header, rows, n):
    out = ' '.join(header) + ''.join(' / ' + ' '.join(str(v) for v in r) for r in rows[:10])
    return out + (' / ... rows=%d' % n if n > 10 else '')


# --- the real side -------------------------------------------------------------------------------------

_ENVS = {}          # pid -> interpreter; a forked worker never touches (or frees) the parent's DuckDB connection


def env():
    """One interpreter and one Database (DuckDB connection: 17 ms to open) per process; every history gets a fresh
    Table registered under the name t in the dictionary the database was created from."""
    pid = os.getpid()
    kl = _ENVS.get(pid)
    if kl is None:
        kl = KlongInterpreter()
        for s in SETUP:
            kl(s)
        _ENVS[pid] = kl
    return kl


def fingerprint(t):
    df = t._df
    cells = tuple(tuple(canon(x) for x in row) for row in df.values.tolist())
    index = ('range', len(df.index)) if type(df.index).__name__ == 'RangeIndex' else \
        (tuple(str(n) for n in df.index.names), tuple(repr(x) for x in df.index.tolist()))
    buf = tuple(tuple(canon(x) for x in np.asarray(r, dtype=object).tolist()) for r in t.buffer)
    return (None if t.idx_cols is None else tuple(t.idx_cols), tuple(t.columns), tuple(str(c) for c in df.columns),
            tuple(str(d) for d in df.dtypes), cells, index, buf)


def build(hist):
    """Fresh real table + model after hist (hist[0] is the create op). A history that was accepted when it was
    generated must replay without an exception; anything else is nondeterminism the harness does not own."""
    kl = env()
    m = None
    for op in hist:
        src = text(op, m)
        if op[0] == 'create':
            m = model_of((op,))
            kl(src)
            kl(REGISTER)
        else:
            apply(m, op)
            try:
                kl(src)
            except Exception as e:          # noqa: BLE001
                raise runner.HarnessError('replay diverged at %s of %s: %r' % (src, texts(hist), e))
    return kl, m


def texts(hist):
    out, m = [], None
    for op in hist:
        out.append(text(op, m))
        if op[0] == 'create':
            m = model_of((op,))
        else:
            apply(m, op)
    return out


def classify(op, m_before, buf):
    """Category of an insert relative to the key columns (index columns, else column a) - coverage only."""
    if op[0] not in ('ins', 'insb'):
        return op[0] if op[0] != 'sql' else 'sql_' + op[1]
    idx = m_before.idx or ('a',)
    pos = [m_before.cols.index(c) for c in idx]
    rows = [project(op[1], m_before.cols)] if op[0] == 'ins' else [project(r, m_before.cols) for r in op[1]]
    keys = [tuple(r[p] for p in pos) for r in rows]
    present = {tuple(r[p] for p in pos) for r in m_before.rows}
    if op[0] == 'ins':
        return 'insert_one_existing_key' if keys[0] in present else 'insert_one_new_key'
    if keys[0] == keys[1]:
        return 'insert_batch_same_key_twice'
    if any(k in present for k in keys):
        return 'insert_batch_key_present'
    return 'insert_batch_distinct_new_keys'


def group_of(op, m_before, buffered):
    """Root-cause label from the situation the failing operation was issued in (triage aid, never a verdict)."""
    if op[0] == 'find' and buffered:
        return 'find-ignores-insert-buffer'
    if op[0] == 'addcol' and buffered:
        return 'add-column-ignores-insert-buffer'
    if m_before.idx is not None and buffered:
        pos = [m_before.cols.index(c) for c in m_before.idx]
        keys = [tuple(r[p] for p in pos) for r in buffered]
        if len(set(keys)) < len(keys) and len(set(buffered)) > 1:
            return 'indexed-same-key-twice-in-one-commit'
    return 'unclassified'


def step(kl, m, op, hist_texts, buffered_rows):
    """Execute op on the real table and the model. Returns (violation dict or None, observed string)."""
    m_before = m.copy()
    src = text(op, m)
    exp = apply(m, op)
    t = kl['t']
    try:
        with runner.watchdog(20):
            r = kl(src)
        got = ('ok', r)
    except runner.CaseTimeout:
        got = ('exc', 'did-not-terminate')
    except Exception as e:              # noqa: BLE001
        got = ('exc', type(e).__name__)
    ok = got[0] == 'ok'
    drift = False
    if not ok:
        observed = 'exc:' + got[1]
        expected_s = 'no exception'
    elif exp[0] == 'table':
        ok = got[1] is t if op[0] != 'create' else True
        observed = 'ok:<table>' if ok else 'ok:' + show(tcanon(got[1]))
        expected_s = '<the table>'
    elif exp[0] == 'free':
        observed = 'ok:' + show(tcanon(got[1]))
        expected_s = None
    elif exp[0] == 'print':
        ok = check_print(got[1], exp[1], exp[2], exp[3])
        observed = 'ok:' + (' / '.join(x.strip() for x in got[1].split('\n')) if isinstance(got[1], str)
                            else show(tcanon(got[1])))
        expected_s = print_expected(exp[1], exp[2], exp[3])
    else:
        c = tcanon(got[1])
        e = expected_canon(exp[1])
        ok = loose(c) == loose(e)
        drift = ok and c != e
        observed = 'ok:' + show(c)
        expected_s = show(e)
    prog = hist_texts + [src]
    what = '@result'
    post = fingerprint(t) if ok else None
    witnessed = 0
    if ok and not conforms(t, m):
        # The operation answered as the model does but left the real fields in a state that no longer stands for the
        # model's rows. That is not a verdict; it triggers one extra Klong-level read whose answer is judged, so the
        # divergence is reported once, at the operation that caused it, instead of at every later read.
        witnessed = 1
        e = expected_canon(m.select_all())
        try:
            with runner.watchdog(20):
                c = tcanon(kl(WITNESS))
            ok = loose(c) == loose(e)
            observed = 'ok:' + show(c)
        except runner.CaseTimeout:
            ok, observed = False, 'exc:did-not-terminate'
        except Exception as ex:         # noqa: BLE001
            ok, observed = False, 'exc:' + type(ex).__name__
        expected_s = show(e)
        prog = prog + [WITNESS]
        what = '@witness'
    viol = None
    if not ok:
        snippet = ('from klongpy import KlongInterpreter\nk = KlongInterpreter()\n'
                   + ''.join('k(%r)\n' % s for s in ['.py("klongpy.db")', prog[0], 'db::.db(:{},"t",,t)'])
                   + 'for s in %r:\n    try:\n        r = k(s)\n'
                     '        print(s, "->", "<table>" if isinstance(r, dict) else repr(r))'
                     '    # printing a table would read it (and flush its insert buffer)\n'
                     '    except Exception as e:\n'
                     '        print(s, "-> EXC", type(e).__name__, e)\n' % (prog[1:],)
                   + '# expected for the last line: %s\n' % expected_s)
        viol = dict(key=' ; '.join(prog) + ' ' + what, observed=observed, expected=expected_s,
                    case={'ops': None, 'history': hist_texts, 'op': src, 'witness': WITNESS if witnessed else None},
                    snippet=snippet, group=group_of(op, m_before, buffered_rows))
    return viol, observed, drift, post, witnessed


WITNESS = 'db("select * from t")'


def _lv(x):
    if hasattr(x, 'item'):
        x = x.item()
    return float(x) if isinstance(x, (int, float)) and not isinstance(x, bool) else x


def conforms(t, m):
    """Abstraction of the real fields - committed cells, then the buffered rows inserted the way the model inserts -
    equals the model (numbers by value). Used only to decide whether to issue the witness read."""
    try:
        cols = [str(c) for c in t.columns]
        a = TableModel(cols, [tuple(_lv(x) for x in row) for row in t._df.values.tolist()])
        a.idx = None if t.idx_cols is None else tuple(t.idx_cols)
        a.insert(buffered_model_rows(t))
        a.rows = [tuple(_lv(x) for x in r) for r in a.rows]
    except Exception:                   # noqa: BLE001 - e.g. buffered rows of another width than the frame
        return False
    want = [tuple(_lv(x) for x in r) for r in m.rows]
    return cols == list(m.cols) and a.idx == m.idx and a.rows == want


def buffered_model_rows(t):
    out = []
    for r in t.buffer:
        out.append(tuple(x.item() if hasattr(x, 'item') else x for x in np.asarray(r, dtype=object).tolist()))
    return out


def make_expand(b):
    tables = b['tables']

    def expand(hist):
        out = {'succ': [], 'transitions': 0, 'replayed_steps': 0, 'viol': set(), 'outcomes': set(), 'by_op': {},
               'kind_differences_not_judged': 0, 'ops_with_nonempty_buffer': 0, 'witness_reads': 0, 'rebuilds': 0,
               'witness_reads_that_agreed': 0}
        if not hist:
            for n, r in tables:
                op = ('create', n, r)
                out['transitions'] += 1
                out['by_op']['create'] = out['by_op'].get('create', 0) + 1
                try:
                    kl, m = build((op,))
                    out['succ'].append((op, (m.key(), fingerprint(kl['t']))))
                except Exception as e:      # noqa: BLE001 - the reads of a fresh table are judged in the next layer
                    src = text(op, None)
                    v = dict(key=src + ' @result', observed='exc:' + type(e).__name__, expected='no exception',
                             case={'ops': [list(op)], 'history': [], 'op': src, 'witness': None},
                             snippet='from klongpy import KlongInterpreter\nk = KlongInterpreter()\n'
                                     'k(\'.py("klongpy.db")\')\nk(%r)\n' % src, group='unclassified')
                    out['viol'].add(json.dumps(v, sort_keys=True))
                    out['succ'].append((op, None))
            return out
        m0 = model_of(hist)
        ht = texts(hist)
        kl = pre = None
        for op in enabled(m0, b):
            # every operation starts from the state reached by hist: the table is rebuilt unless the previous
            # operation provably left every field that states are merged on untouched
            if kl is None:
                kl, _ = build(hist)
                pre = fingerprint(kl['t'])
                out['rebuilds'] += 1
                out['replayed_steps'] += len(hist)
            m = m0.copy()
            t = kl['t']
            buffered = buffered_model_rows(t)
            cat = classify(op, m, buffered)
            viol, observed, drift, post, witnessed = step(kl, m, op, ht, buffered)
            out['transitions'] += 1 + witnessed
            out['witness_reads'] += witnessed
            out['witness_reads_that_agreed'] += int(witnessed and viol is None)
            if viol is not None or witnessed or post != pre:
                kl = None
            out['by_op'][cat] = out['by_op'].get(cat, 0) + 1
            out['outcomes'].add(op[0] + ('_' + op[1] if op[0] == 'sql' else '') + ' ' + observed)
            out['kind_differences_not_judged'] += int(drift)
            out['ops_with_nonempty_buffer'] += int(bool(buffered))
            if viol is not None:
                viol['case']['ops'] = json.loads(json.dumps(list(hist) + [op]))
                out['viol'].add(json.dumps(viol, sort_keys=True))
                out['succ'].append((op, None))
            else:
                out['succ'].append((op, (m.key(), post)))
        return out
    return expand


# --- fan-out ---------------------------------------------------------------------------------------------
# bfs.search forks a fresh set of workers for every layer (runner.pmap) and expands small frontiers in the parent.
# Neither fits DuckDB: a process that has opened a connection cannot safely fork workers that open their own
# (observed: children hang in connect), and opening a connection costs 0.1-6 s under load, which 16 workers would pay
# again in every layer. bfs.search is therefore run with a `pmap` of the same contract backed by one set of workers
# that is forked once, before any connection exists, and lives for the whole search; the parent never expands.

_WORK = {'fn': None}


def _run_chunk(chunk):
    return _WORK['fn'](chunk)


class Workers:
    def __init__(self, jobs):
        self.jobs = max(1, jobs)
        self.ex = None

    def pmap(self, fn, items, cfg, chunk=None, deadline_s=3600, pin=True, inline_below=0):
        items = list(items)
        if not items:
            return
        if chunk is None:
            chunk = max(1, min(200, len(items) // (self.jobs * 8) or 1))
        chunks = [items[i:i + chunk] for i in range(0, len(items), chunk)]
        random.Random(cfg.seed).shuffle(chunks)         # the seed permutes the order of work, never the work
        if self.jobs == 1:
            for c in chunks:
                yield fn(c)
            return
        # `fn` is bfs.search's per-layer closure over `expand`; expand is the same object in every layer, so the
        # workers forked during the first layer can serve the later ones through it
        if self.ex is None:
            import gc
            import multiprocessing
            _WORK['fn'] = fn
            gc.collect()
            gc.freeze()
            self.ex = cf.ProcessPoolExecutor(max_workers=self.jobs, mp_context=multiprocessing.get_context('fork'))
        futs = [self.ex.submit(_run_chunk, c) for c in chunks]
        try:
            for f in cf.as_completed(futs, timeout=deadline_s):
                yield f.result()
        except cf.TimeoutError:
            self.kill()
            raise runner.HarnessError('fan-out exceeded %ss' % deadline_s)
        except BrokenProcessPool as e:
            raise runner.HarnessError('a worker died: %r' % (e,))

    def kill(self):
        if self.ex is not None:
            for p in list(getattr(self.ex, '_processes', {}).values()):
                p.kill()

    def close(self):
        if self.ex is not None:
            self.ex.shutdown(wait=True, cancel_futures=True)
            self.ex = None


def search(expand, cfg, max_depth, max_states):
    w = Workers(cfg.jobs)
    orig = runner.pmap
    runner.pmap = w.pmap            # bfs.py looks pmap up in the runner module at call time
    try:
        return bfs.search(expand, cfg, max_depth, max_states=max_states)
    finally:
        runner.pmap = orig
        w.close()


# --- entry points --------------------------------------------------------------------------------------

def selftest():
    n = selfcheck()
    assert check_print('a* b\n 1 10.5\n 3  2.0', ['a*', 'b'], [[1, 10.5], [3, 2]], 2)
    assert not check_print('a* b\n 1 10.5', ['a*', 'b'], [[1, 10.5], [3, 2]], 2)
    assert check_print('a b', ['a', 'b'], [], 0)
    return 'tablemodel: %d documentation / repository examples reproduced' % n


def run(cfg):
    rep = runner.Report('C19', 'model_checking')
    selftest()
    b = bounds(cfg)
    total = search(make_expand(b), cfg, b['depth'] + 1, max_states=cfg.pick(400000, 4000000))
    viols = sorted((json.loads(s) for s in total.get('viol', ())), key=lambda v: (len(v['case']['ops']), v['key']))
    rep.extend_violations(viols)
    groups = {}
    for v in viols:
        groups[v['group']] = groups.get(v['group'], 0) + 1
    sample_ops = [('create', 3, 2), ('index', ('a',)), ('insb', tuple(BATCHES[2])), ('sql', 'all')]
    sample2 = [('create', 2, 1), ('ins', SINGLES[0]), ('count',), ('addcol',), ('ins', SINGLES[1]), ('find', 'd')]
    rep.coverage = {
        'states': total['states'],
        'transitions': total['transitions'],
        'traces_validated_against_impl': total['transitions'],
        'replayed_steps': total.get('replayed_steps', 0),
        'table_rebuilds': total.get('rebuilds', 0),
        'samples': [SETUP + texts(sample_ops), SETUP + texts(sample2)],
        'exhaustive': not total['capped'],
        'max_ops_after_create': total['max_depth'] - 1,
        'layers': total['layers'],
        'frontier_states_not_expanded': total['unexpanded_frontier'],
        'distinct_outcomes': len(total.get('outcomes', ())),
        'transitions_by_kind': dict(sorted(total.get('by_op', {}).items())),
        'operations_issued_with_nonempty_insert_buffer': total.get('ops_with_nonempty_buffer', 0),
        'kind_differences_not_judged': total.get('kind_differences_not_judged', 0),
        'witness_reads': total.get('witness_reads', 0),
        'witness_reads_that_agreed': total.get('witness_reads_that_agreed', 0),
        'violations_by_group': groups,
        'initial_tables': ['%d column(s) x %d row(s)' % t for t in b['tables']],
        'single_rows': [rowlit(r) for r in b['singles']],
        'batches': ['[%s]' % ' '.join(rowlit(r) for r in bt) for bt in b['batches']],
        'index_column_sets': [list(i) for i in b['indexes']],
        'rule': 'BFS over histories: create a table from the first 1-3 of the columns a (int), b (real), c (string) '
                'with 0-2 rows, then up to max_ops_after_create operations from {insert one row, insert a batch of '
                'two, t?col for every column, #t, .schema, $t, db(select * / count(*) / sum(col)), .index on every '
                'listed column set whose values are unique in the table, .rindex, add column d}; every enabled '
                'operation is executed in every state on the real table as hist left it (rebuilt from scratch unless '
                'the previous operation left all merged fields untouched) and its result compared with the model; '
                'states merged on (model rows, columns, index columns) x (real idx_cols, columns, dtypes, committed '
                'cells and index, insert buffer); when an operation answers correctly but leaves fields that no '
                'longer stand for the model rows, one extra db("select * from t") is issued and judged (witness read)',
    }
    rep.assumptions = [
        'numbers are compared by value, not by kind: an unindexed commit rebuilds the frame from one NumPy matrix, so '
        'an int column of an all-numeric table comes back as reals (1 -> 1.0); the property speaks of rows, not of '
        'number kinds (kind_differences_not_judged counts the results this applies to)',
        'pandas 3 hands out string columns as a pandas StringArray through t?"c"; it is read as the list of its '
        'elements (the container type is not judged)',
        'sum(col) over a table without rows is SQL NULL and is not judged; sum of an integer column may be real',
        'one interpreter and one Database / DuckDB connection per worker process serve all histories (opening a '
        'connection costs 17 ms); each history creates a fresh Table and registers it in the database dictionary '
        'with q,"t",,t - DuckDB is trusted not to carry results from one query to the next',
        '.index is issued only where the property applies: the index columns hold unique values (rows identical in '
        'every column count once); .index on an indexed table and inserts of the wrong width are not issued',
        '$t is judged on its tokens: header names (index columns starred) and one line per row with cells equal by '
        'value; column widths and number formatting belong to pandas',
        'pandas, NumPy and DuckDB are used as installed; row order of select * without ORDER BY is taken as the '
        'frame order (DuckDB preserves insertion order)',
        'real values are 10.5 / 20.5 instead of the design\'s 10 / 20 so that the real column is unambiguously real',
        'state identity: two histories are one state when the model and the listed real Table fields agree; a table '
        'whose fields an operation left untouched serves the next operation of the same state without a rebuild '
        '(pandas block layout and DuckDB internals are not part of the state)',
        'bfs.search runs with a pmap of the same contract backed by one set of workers forked before any DuckDB '
        'connection exists (DuckDB connections do not survive fork; per-layer workers would reconnect every layer)',
    ]
    return rep


def _tuplify(x):
    return tuple(_tuplify(e) for e in x) if isinstance(x, list) else x


def replay(cfg, path):
    with open(path) as f:
        r = json.load(f)
    ops = [_tuplify(o) for o in r['case']['ops']]
    hist, op = tuple(ops[:-1]), ops[-1]
    m = None
    kl = env()
    for o in hist + (op,):
        src = text(o, m)
        if o[0] == 'create':
            m = model_of((o,))
            kl(src)
            kl(REGISTER)
            print(src)
            continue
        exp = apply(m.copy(), o)
        t = kl['t']
        pre = 'buffer=%d row(s)' % len(t.buffer)
        try:
            got = kl(src)
            got_s = '<table>' if got is t else (repr(got) if isinstance(got, str) else show(tcanon(got)))
        except Exception as e:      # noqa: BLE001
            got_s = 'EXC %s: %s' % (type(e).__name__, e)
        apply(m, o)
        want = {'table': '<table>', 'free': '(not judged)'}.get(exp[0])
        if exp[0] == 'val':
            want = show(expected_canon(exp[1]))
        elif exp[0] == 'print':
            want = print_expected(exp[1], exp[2], exp[3])
        print('%-45s [%s] -> %s    (model: %s)' % (src, pre, got_s, want))
    if r['case'].get('witness'):
        t = kl['t']
        print('real fields stand for the model rows: %s' % conforms(t, m))
        try:
            got_s = show(tcanon(kl(WITNESS)))
        except Exception as e:      # noqa: BLE001
            got_s = 'EXC %s: %s' % (type(e).__name__, e)
        print('%-45s [witness read] -> %s    (model: %s)' % (WITNESS, got_s, show(expected_canon(m.select_all()))))
    print('recorded: observed %s, expected %s' % (r.get('observed'), r.get('expected')))
    return 0

"""C06 - gradient operators return the mathematical derivative.

Complete product enumeration (E1 degenerated to an input universe, DESIGN 3.C06):

    expression trees (harness AST of mc.ref.dual, rendered to Klong text)  up to a node bound
  x parameter environments   x: vector of length 1, 2, 3 | x: real scalar | w,b: two named parameters
  x points                   GRID^n (or SUB^n, see PLAN) restricted per tree to its smooth, well-scaled domain
  x forms                    f:>p   p∇f   (∇f)(p)   f:>a   a∇f       (scalar-valued f, one parameter)
                             p∂g    .jacobian(g;p)                    (vector-valued g)
                             loss:>[w b]   [w b]∂g                    (two named parameters)
  x backends                 numpy (numeric differentiation), torch on cpu (autograd)

Oracle: mc.ref.dual evaluates the same tree with forward-mode dual numbers in plain Python and yields the exact partial
derivatives.  Tolerances come from the property statement: numeric differentiation 1e-5 relative (+1e-7 absolute, scaled by
max(1,|f(p)|): the rounding floor of a central difference is proportional to |f|), torch autograd single precision = 1e-4
relative (+1e-6 absolute scaled the same way); `p∇f` / `a∇f` evaluated on the torch backend is numeric differentiation
of a possibly single-precision function and is judged with the looser of the two; numpy and torch answers for the same
(tree, point, form) must agree within the looser tolerance.

Node count: every AST tuple is one node; `x`, `x@i`, `w`, `b` are leaves of one node, a constant operand is part of its
operator (`2*E`, `E^3` are one node on top of E).

Nothing is decided between grid points.
"""
import itertools
import json
import math
import os
import zlib

from .. import runner
from ..ref import dual
from ..values import cn

GRID = (-1.5, -0.5, 0.5, 1.0, 2.0, 3.0)
SUB = (-1.5, 0.5, 2.0)
BKF = ('exp', 'sin', 'cos', 'tanh', 'sqrt', 'log')
CB = (('+', 2, 'l'), ('-', 2, 'l'), ('-', 2, 'r'), ('*', 2, 'l'), ('*', 0.5, 'l'), ('%', 1, 'l'), ('%', 2, 'r'))
POW = (2, 3, -1, 0.5)
CEXP = (2, 0.5)         # constant ^ tree (a power whose exponent varies)
ITEM_TIMEOUT = 60.0          # CPU seconds per (tree, environment): a legitimate one needs < 2 s

ENVS = {
    'x1': [('x', 1)], 'x2': [('x', 2)], 'x3': [('x', 3)], 'xs': [('x', None)],
    'ws_bs': [('w', None), ('b', None)], 'w2_bs': [('w', 2), ('b', None)], 'w2_b2': [('w', 2), ('b', 2)],
}
SINGLE_FORMS = ('f:>p', 'p∇f', '(∇f)(p)', 'f:>a', 'a∇f')
JAC_FORMS = ('p∂g', '.jacobian(g;p)')

RTOL = {'numeric': 1e-5, 'torch': 1e-4}
ATOL = {'numeric': 1e-7, 'torch': 1e-6}


# ---------------------------------------------------------------------------------------------
# tree enumeration

def enumerate_trees(env, max_nodes):
    """-> (S, V): S[k] / V[k] = all scalar-valued / vector-valued trees with exactly k nodes over the parameters of env."""
    vec_len = [ln for _, ln in env if ln is not None]
    vlen = vec_len[0] if vec_len else None
    assert all(x == vlen for x in vec_len)
    S = {1: [], 2: []}
    V = {1: [], 2: []}
    for name, ln in env:
        if ln is None:
            S[1].append(('var', name))
        else:
            V[1].append(('var', name))
            S[1].extend(('idx', name, i) for i in range(ln))
    if vlen is None and len(env) == 1:
        # a scalar point meets a constant real list (a single-precision tensor on the torch backend): the only vector leaf
        # is the list scaled by the point, ([0.5 2.0]*x), counted as one node
        V[1].append(('cvx', env[0][0]))
        vlen = len(dual.CVEC)
    for k in range(2, max_nodes + 1):
        s, v = [], []
        for fam, out in ((S, s), (V, v)):
            for e in fam.get(k - 1, ()):
                out.extend(('un', fn, e) for fn in dual.UNARY)
                out.extend(('cb', op, c, side, e) for op, c, side in CB)
                out.extend(('pow', c, e) for c in POW)
                out.extend(('cexp', c, e) for c in CEXP)
        for e in V.get(k - 1, ()):
            s.extend(('red', r, e) for r in '+*|&')
            if e[0] != 'var':
                s.extend(('vidx', e, i) for i in range(vlen))
            v.extend(('each', lam, e) for lam in sorted(dual.LAMBDAS))
        for i in range(1, k - 1):
            j = k - 1 - i
            s.extend(('bpow', a, b) for a in S.get(i, ()) for b in S.get(j, ()))        # scalar ^ scalar
            for op in dual.BINOPS:
                s.extend(('bin', op, a, b) for a in S.get(i, ()) for b in S.get(j, ()))
                v.extend(('bin', op, a, b) for a in V.get(i, ()) for b in V.get(j, ()))
                v.extend(('bin', op, a, b) for a in V.get(i, ()) for b in S.get(j, ()))
                v.extend(('bin', op, a, b) for a in S.get(i, ()) for b in V.get(j, ()))
        S[k], V[k] = s, v
    return S, V


def scalar_trees(env, max_nodes):
    S, _ = enumerate_trees(env, max_nodes)
    # a tree built from constants alone (possible since the constant-list leaf) is no function of the point
    return [t for k in range(1, max_nodes + 1) for t in S[k] if params_used(t)]


def vector_trees(env, max_nodes):
    """Vector-valued functions: every vector-typed tree with <= max_nodes nodes that is not a bare parameter, plus the
    joins (A),(B) of two scalar trees within the same bound."""
    S, V = enumerate_trees(env, max_nodes)
    out = [t for k in range(2, max_nodes + 1) for t in V[k] if params_used(t)]
    # functions whose result is the parameter itself or a structural view of a small vector tree (identity, reverse, drop,
    # take): no arithmetic produces a fresh array, so the result may alias the point being perturbed
    out.extend(V[1])
    for k in range(1, min(2, max_nodes - 1) + 1):
        out.extend(('view', w, e) for e in V[k] for w in dual.VIEWS)
    for i in range(1, max_nodes - 1):
        for j in range(1, max_nodes - i):
            out.extend(('join', a, b) for a in S[i] for b in S[j])
    return out


def params_used(t, acc=None):
    acc = set() if acc is None else acc
    if t[0] in ('var', 'idx', 'cvx'):
        acc.add(t[1])
    else:
        for e in t[1:]:
            if isinstance(e, tuple):
                params_used(e, acc)
    return acc


# ---------------------------------------------------------------------------------------------
# rendering

def num(c):
    if isinstance(c, int):
        return str(c)
    return repr(float(c))


def kl(t):
    """Klong text of a tree; fully parenthesised (Klong evaluates right to left without precedence)."""
    k = t[0]
    if k == 'var':
        return t[1]
    if k == 'idx':
        return '(%s@%d)' % (t[1], t[2])
    if k == 'vidx':
        return '(%s@%d)' % (kl(t[1]), t[2])
    if k == 'un':
        return '(-%s)' % kl(t[2]) if t[1] == 'neg' else '%s(%s)' % (t[1], kl(t[2]))
    if k == 'cb':
        _, op, c, side, e = t
        return '(%s%s%s)' % ((num(c), op, kl(e)) if side == 'l' else (kl(e), op, num(c)))
    if k == 'pow':
        return '(%s^%s)' % (kl(t[2]), num(t[1]))
    if k == 'bin':
        return '(%s%s%s)' % (kl(t[2]), t[1], kl(t[3]))
    if k == 'cvx':
        return '([' + ' '.join(num(c) for c in dual.CVEC) + ']*' + t[1] + ')'
    if k == 'bpow':
        return '(%s^%s)' % (kl(t[1]), kl(t[2]))
    if k == 'cexp':
        return '(%s^%s)' % (num(t[1]), kl(t[2]))
    if k == 'red':
        return '(%s/%s)' % (t[1], kl(t[2]))
    if k == 'each':
        return "(%s'%s)" % (dual.LAMBDAS[t[1]][0], kl(t[2]))
    if k == 'join':
        return '(%s,%s)' % (kl(t[1]), kl(t[2]))
    if k == 'view':
        return {'rev': '(|%s)', 'drop1': '(1_%s)', 'take2': '(2#%s)'}[t[1]] % kl(t[2])
    raise ValueError(t)


def fn_text(t):
    return '{' + kl(t) + '}'


def vec_lit(p):
    return '[' + ' '.join(num(float(x)) for x in p) + ']'


def param_lit(ln, vals):
    if ln is None:
        v = float(vals[0])
        return '(%s)' % num(v) if v < 0 else num(v)
    return vec_lit(vals)


def split_point(env, p):
    out, k = [], 0
    for name, ln in env:
        w = 1 if ln is None else ln
        out.append((name, ln, p[k:k + w]))
        k += w
    return out


def to_list(t):
    return [to_list(e) if isinstance(e, tuple) else e for e in t]


def to_tuple(t):
    return tuple(to_tuple(e) if isinstance(e, list) else e for e in t)


# ---------------------------------------------------------------------------------------------
# plan: what is enumerated per tier

BOTH = ('numpy', 'torch')
MG, MJ = ('loss:>[w b]',), ('[w b]∂g',)


def plan(cfg):
    """Rows (family, env_id, max_nodes, forms, grid tag, backends[, 'all-params']): every tree of the family with at most
    max_nodes nodes over the environment (with the optional 7th field: only trees in which every named parameter occurs)
    is evaluated under each form on each backend at every point of GRID^n ('G') or SUB^n ('S') inside its smooth domain.
    family: 'grad' | 'jac' | 'mgrad' | 'mjac'.  Rows overlap; per (tree, form, backend) the larger grid wins."""
    if cfg.quick:
        return [
            ('grad', 'xs', 3, SINGLE_FORMS, 'G', BOTH),
            ('grad', 'x1', 3, SINGLE_FORMS, 'G', BOTH),
            ('grad', 'x2', 3, ('f:>p',), 'G', BOTH),
            ('grad', 'x2', 3, SINGLE_FORMS, 'S', BOTH),
            ('grad', 'x3', 3, ('f:>p', 'p∇f'), 'S', ('numpy',)),
            ('grad', 'x3', 3, ('f:>p',), 'S', ('torch',)),
            ('grad', 'x3', 2, SINGLE_FORMS, 'S', BOTH),
            ('jac', 'x1', 3, JAC_FORMS, 'G', BOTH),
            ('jac', 'x2', 3, JAC_FORMS, 'S', BOTH),
            ('jac', 'x2', 3, ('p∂g',), 'G', BOTH),
            ('jac', 'x3', 3, JAC_FORMS, 'S', BOTH),
            ('mgrad', 'ws_bs', 3, MG, 'G', BOTH),
            ('mgrad', 'w2_bs', 3, MG, 'S', BOTH),
            ('mjac', 'w2_bs', 3, MJ, 'S', BOTH),
            ('mjac', 'w2_b2', 2, MJ, 'S', BOTH),
        ]
    NP, TO = ('numpy',), ('torch',)
    auto = ('f:>p', '(∇f)(p)', 'f:>a')          # the forms that use autograd on the torch backend
    return [
        # every form, both backends, up to 3 nodes
        ('grad', 'xs', 3, SINGLE_FORMS, 'G', BOTH),
        ('grad', 'x1', 3, SINGLE_FORMS, 'G', BOTH),
        ('grad', 'x2', 3, SINGLE_FORMS, 'G', BOTH),
        ('grad', 'x3', 3, SINGLE_FORMS, 'S', BOTH),
        ('grad', 'x3', 3, ('f:>p', 'p∇f'), 'G', NP),
        ('grad', 'x3', 3, ('f:>p',), 'G', TO),
        # 4 nodes.  Numeric differentiation treats f as a black box while autograd applies one rule per operator, so the
        # largest trees are spent mostly on autograd; the numeric forms of the torch backend (`p∇f`, `a∇f`) stop at 3 nodes
        ('grad', 'xs', 4, SINGLE_FORMS, 'G', NP),
        ('grad', 'xs', 4, auto, 'G', TO),
        ('grad', 'x1', 4, ('f:>p', 'p∇f', 'a∇f'), 'G', NP),
        ('grad', 'x1', 4, ('f:>p',), 'G', TO),
        ('grad', 'x2', 4, ('f:>p', 'p∇f'), 'S', NP),
        ('grad', 'x2', 4, ('f:>p',), 'S', TO),
        ('grad', 'x3', 4, ('f:>p',), 'S', TO),
        ('jac', 'x1', 3, JAC_FORMS, 'G', BOTH),
        ('jac', 'x2', 3, JAC_FORMS, 'G', BOTH),
        ('jac', 'x3', 3, JAC_FORMS, 'G', BOTH),
        ('jac', 'x1', 4, JAC_FORMS, 'G', NP),
        ('jac', 'x1', 4, ('p∂g',), 'G', TO),
        ('jac', 'x2', 4, ('p∂g',), 'S', TO),
        ('jac', 'x3', 4, ('p∂g',), 'S', TO),
        ('mgrad', 'ws_bs', 3, MG, 'G', BOTH),
        ('mgrad', 'w2_bs', 3, MG, 'G', BOTH),
        ('mgrad', 'w2_b2', 3, MG, 'S', BOTH),
        # 4-node losses: only those in which every named parameter occurs
        ('mgrad', 'ws_bs', 4, MG, 'S', BOTH, 'all-params'),
        ('mgrad', 'w2_bs', 4, MG, 'S', TO, 'all-params'),
        ('mjac', 'ws_bs', 3, MJ, 'G', BOTH),
        ('mjac', 'w2_bs', 3, MJ, 'G', BOTH),
        ('mjac', 'w2_b2', 3, MJ, 'S', BOTH),
    ]


def work_items(cfg):
    """Flat, deterministic list of items (family, env_id, tree, spec) with spec = ((form, backend, grid tag), ...); a
    (family, env, tree) that occurs in several plan rows is merged (per form and backend the larger grid)."""
    merged = {}
    order = []
    cache = {}
    for row in plan(cfg):
        fam, env_id, mx, forms, tag, backends = row[:6]
        ck = (fam in ('grad', 'mgrad'), env_id, mx)
        if ck not in cache:
            cache[ck] = scalar_trees(ENVS[env_id], mx) if ck[0] else vector_trees(ENVS[env_id], mx)
        names = {nm for nm, _ in ENVS[env_id]}
        for t in cache[ck]:
            if len(row) > 6 and params_used(t) != names:
                continue
            key = (fam, env_id, t)
            m = merged.get(key)
            if m is None:
                m = merged[key] = {}
                order.append(key)
            for f in forms:
                for b in backends:
                    if m.get((f, b)) != 'G':
                        m[(f, b)] = tag
    return [(k[0], k[1], k[2], tuple((f, b, g) for (f, b), g in merged[k].items())) for k in order]


# ---------------------------------------------------------------------------------------------
# expected values

def expected_for(fam, env, tree, p):
    """-> (fvalue_scale, expected nested lists) or None when p is outside the smooth domain of the tree."""
    try:
        r = dual.evaluate(tree, env, list(p))
    except dual.NotSmooth:
        return None
    rows = r if isinstance(r, list) else [r]
    scale = max(1.0, max(abs(e.v) for e in rows))
    parts = split_point(env, list(range(len(p))))          # flat indices per parameter
    if fam == 'grad':
        ln = env[0][1]
        exp = r.d[0] if ln is None else list(r.d)
    elif fam == 'jac':
        exp = [list(e.d) for e in rows]
    elif fam == 'mgrad':
        exp = [(r.d[ix[0]] if ln is None else [r.d[i] for i in ix]) for _, ln, ix in parts]
    else:   # mjac: per parameter an m x len matrix; for a scalar parameter the statement fixes no shape: m x 1 or m
        exp = [(('col', [e.d[ix[0]] for e in rows]) if ln is None else [[e.d[i] for i in ix] for e in rows])
               for _, ln, ix in parts]
    return scale, exp, [e.v for e in rows] if isinstance(r, list) else r.v


def nested(v):
    """runtime value -> nested lists of floats (ValueError when it is not numeric)."""
    c = cn(v)

    def conv(c):
        if c[0] in 'ir':
            return float(c[1])
        if c[0] == 'l':
            return [conv(e) for e in c[1]]
        raise ValueError('not numeric: %r' % (c[0],))
    return conv(c)


def agree(obs, exp, rtol, atol):
    if isinstance(exp, tuple) and exp[0] == 'col':          # scalar parameter of a multi-parameter Jacobian
        col = exp[1]
        return agree(obs, col, rtol, atol) or agree(obs, [[x] for x in col], rtol, atol)
    if isinstance(exp, list):
        return isinstance(obs, list) and len(obs) == len(exp) and all(agree(o, e, rtol, atol) for o, e in zip(obs, exp))
    if isinstance(obs, list):
        return False
    if math.isnan(obs) or math.isinf(obs):
        return False
    return abs(obs - exp) <= atol + rtol * abs(exp)


def plain(exp):
    if isinstance(exp, tuple) and exp[0] == 'col':
        return [[x] for x in exp[1]]
    if isinstance(exp, list):
        return [plain(e) for e in exp]
    return exp


def fmt(x):
    if isinstance(x, list):
        return '[' + ' '.join(fmt(e) for e in x) + ']'
    return '%.6g' % x


def nonzero(exp):
    e = plain(exp)
    if isinstance(e, list):
        return any(nonzero(x) for x in e)
    return e != 0.0


# ---------------------------------------------------------------------------------------------
# running one item against the real interpreter

_TORCH_READY = []


def interp(backend):
    from klongpy import KlongInterpreter
    if backend == 'torch':
        if not _TORCH_READY:
            import torch
            torch.set_num_threads(1)
            _TORCH_READY.append(True)
        k = KlongInterpreter(backend='torch', device='cpu')
    else:
        k = KlongInterpreter(backend='numpy')
    k('.bkf([' + ' '.join('"%s"' % f for f in BKF) + '])')
    return k


def program(fam, env, tree, form, p):
    """-> (setup statements, expression) for one evaluation; the function itself is defined by define()."""
    parts = split_point(env, p)
    if fam in ('grad', 'jac'):
        _, ln, vals = parts[0]
        lit = param_lit(ln, vals)
        if form == 'f:>p':
            return [], 'f:>' + lit
        if form == 'p∇f':
            return [], lit + '∇f'
        if form == '(∇f)(p)':
            return [], 'h(' + (num(float(vals[0])) if ln is None else lit) + ')'
        if form == 'f:>a':
            return ['a::' + lit], 'f:>a'
        if form == 'a∇f':
            return ['a::' + lit], 'a∇f'
        if form == 'p∂g':
            return [], lit + '∂f'
        if form == '.jacobian(g;p)':
            return [], '.jacobian(f;' + lit + ')'
    else:
        setup = ['%s::%s' % (name, param_lit(ln, vals)) for name, ln, vals in parts]
        if form == 'loss:>[w b]':
            return setup, 'f:>[w b]'
        if form == '[w b]∂g':
            return setup, '[w b]∂f'
    raise ValueError(form)


def define(fam, tree):
    return ['f::' + fn_text(tree)] + (['h::∇f'] if fam == 'grad' else [])


def tolerance(form, backend):
    # `p∇f` / `a∇f` on the torch backend is numeric differentiation of a function evaluated in single precision: judged
    # with the looser of the two tolerances, like autograd
    return 'numeric' if backend == 'numpy' else 'torch'


def snippet(backend, fam, env, tree, form, p):
    setup, expr = program(fam, env, tree, form, p)
    ctor = "KlongInterpreter(backend='torch', device='cpu')" if backend == 'torch' else "KlongInterpreter(backend='numpy')"
    lines = ['from klongpy import KlongInterpreter', 'k = ' + ctor,
             "k('.bkf([%s])')" % ' '.join('\"%s\"' % f for f in BKF)]
    for s in define(fam, tree) + setup:
        lines.append('k(%r)' % s)
    lines.append('print(k(%r))' % expr)
    return '\n'.join(lines)


def evaluate_one(k, setup, expr):
    try:
        for s in setup:
            k(s)
        r = k(expr)
        kinds = sorted({type(e).__name__ for e in (r if isinstance(r, list) else [r])})
        return ('ok', nested(r), '+'.join(kinds))
    except RecursionError:
        return ('exc', 'RecursionError')
    except Exception as e:          # noqa: BLE001 - every failure class is an observation
        return ('exc', type(e).__name__)


def classify(fam, env, tree, form, backend, out):
    """Root-cause label by inspection of the failing case (triage aid only)."""
    uses_bkf = any(('%s(' % f) in fn_text(tree) for f in BKF)
    if backend == 'torch' and form in ('p∇f', 'a∇f'):
        if out[0] == 'ok':
            # numeric_grad steps by 1e-6 although the function is evaluated in single precision
            return 'torch-nabla-step-too-small-for-float32'
        if out[1] == 'TypeError' and uses_bkf:
            # numeric_grad hands numpy scalars/arrays to torch.sin & co
            return 'torch-nabla-bkf-function-gets-numpy-value'
    if backend == 'torch' and form == '.jacobian(g;p)' and out == ('exc', 'TypeError') and uses_bkf:
        # the system function's own parameter y is visible to the variadic wrapper of the imported function
        return 'torch-.jacobian-bkf-function-sees-caller-y'
    if backend == 'torch' and fam == 'mgrad' and out == ('exc', 'RuntimeError') and \
            params_used(tree) != {nm for nm, _ in env}:
        return 'torch-multi-grad-unused-parameter-raises'
    if backend == 'torch' and fam in ('jac', 'mjac') and out[0] == 'ok' and 'ndarray' in out[2]:
        # compute_jacobian failed, jacobian_of_fn silently fell back to numeric_jacobian (which answers with an ndarray)
        # although the function is evaluated in single precision
        return 'torch-jacobian-silent-numeric-fallback'
    if out[0] == 'exc':
        return '%s-%s-%s' % (backend, fam, out[1])
    return '%s-%s-wrong-value' % (backend, fam)


def in_sub(p):
    return all(x in SUB for x in p)


U32, U64 = 2.0 ** -24, 2.0 ** -53
STEP = 1e-6           # documented default step of numeric_grad / numeric_jacobian in double precision


def ill_conditioned(env, tree, p, tk, scale):
    """Consulted only when an answer misses its tolerance: True when the point lies outside the *well-conditioned* domain
    for that kind of differentiation, i.e. when the error that is inherent in the method exceeds the tolerance for some
    derivative entry - autograd in single precision: 4 * 2^-24 * (first-order sensitivity of the exact derivative to a
    relative perturbation of every intermediate result); central difference in double precision: 2 * (|error of a
    faultless central difference with the documented step h = 1e-6 over the reference's own values| + 2^-53 *
    (sensitivity of f) / h).  Both bounds come from the reference alone."""
    s = dual.sensitivity(tree, env, list(p))
    if s is None:
        return True
    sv, sd = s
    rows = dual.evaluate(tree, env, list(p))
    rows = rows if isinstance(rows, list) else [rows]
    if tk == 'torch':
        inh = [[4.0 * U32 * x for x in row] for row in sd]
    else:
        cd = dual.ideal_central_difference(tree, env, list(p), STEP)
        if cd is None:
            return True
        inh = [[2.0 * (abs(c - rows[r].d[j]) + U64 * sv[r] / STEP) for j, c in enumerate(row)] for r, row in enumerate(cd)]
    for r, row in enumerate(rows):
        for j, d in enumerate(row.d):
            if inh[r][j] > ATOL[tk] * scale + RTOL[tk] * abs(d):
                return True
    return False


def run_item(item, out):
    fam, env_id, tree, spec = item
    env = ENVS[env_id]
    n = dual.flat_size(env)
    grid = GRID if any(g == 'G' for _, _, g in spec) else SUB
    backends = [b for b in BOTH if any(sb == b for _, sb, _ in spec)]
    forms = []
    for f, _, _ in spec:
        if f not in forms:
            forms.append(f)
    tag = {(f, b): g for f, b, g in spec}
    pts = []
    for p in itertools.product(grid, repeat=n):
        e = expected_for(fam, env, tree, p)
        if e is not None:
            pts.append((p, e))
    out['trees'] += 1
    out['points_outside_domain'] += len(grid) ** n - len(pts)
    if not pts:
        out['trees_without_point'] += 1
        return
    text = fn_text(tree)
    # The function itself first (double precision, numpy backend): the Klong text must denote at every point the function
    # the reference differentiates.  Where the interpreter's own f(p) raises or has another value (a defect of a verb, not
    # of the gradient operators) the point is left out and listed in the coverage.
    kv = interp('numpy')
    try:
        kv('f::' + text)
        kept = []
        for p, e in pts:
            args = [param_lit(ln, vals) for _, ln, vals in split_point(env, p)]
            if fam in ('grad', 'jac'):
                vo = evaluate_one(kv, [], 'f(' + args[0] + ')')
            else:
                vo = evaluate_one(kv, ['%s::%s' % (nm, a) for (nm, _), a in zip(env, args)], 'f()')
            out['value_checks'] += 1
            if vo[0] == 'ok' and agree(vo[1], e[2], 1e-9, 1e-12):
                kept.append((p, e))
            else:
                out['function_differs'] += 1
                out['value_mismatch'].append([env_id, text, fmt(list(p)),
                                              ('exc:' + vo[1]) if vo[0] == 'exc' else 'ok:' + fmt(vo[1]), fmt(e[2])])
        pts = kept
    except Exception:       # noqa: BLE001 - the definition itself is judged per backend below
        pass
    results = {}
    first_bad = {}
    nbad = {}
    illc = {}
    for backend in backends:
        k = interp(backend)
        try:
            for s in define(fam, tree):
                k(s)
        except Exception as e:      # noqa: BLE001
            key = 'define|%s|%s|%s' % (backend, env_id, text)
            out['viol'].append(dict(key=key, observed='exc:' + type(e).__name__, expected='definition accepted',
                                    case=dict(fam=fam, env=env_id, tree=to_list(tree), backend=backend),
                                    snippet=None, group='%s-define-%s' % (backend, type(e).__name__)))
            continue
        for p, (scale, exp, fval) in pts:
            sub = in_sub(p)
            for form in forms:
                g = tag.get((form, backend))
                if g is None or (g == 'S' and not sub):
                    continue
                if form == 'p∇f' and env[0][1] is None and p[0] < 0:
                    # a negative real has no literal in operand position of ∇ (`-1.5∇f` is -(1.5∇f), and ∇ does not
                    # evaluate `(-1.5)`); the variable form a∇f covers the point
                    out['skipped_no_literal'] += 1
                    continue
                setup, expr = program(fam, env, tree, form, p)
                o = evaluate_one(k, setup, expr)
                out['evaluations'] += 1
                tk = tolerance(form, backend)
                good = o[0] == 'ok' and agree(o[1], exp, RTOL[tk], ATOL[tk] * scale)
                results[(backend, form, p)] = normalise(o[1], exp) if good else None
                if not good and o[0] == 'ok':
                    if (tk, p) not in illc:
                        illc[(tk, p)] = ill_conditioned(env, tree, p, tk, scale)
                    if illc[(tk, p)]:
                        out['excused_ill_conditioned'] += 1
                        continue
                if not good:
                    fk = (backend, form)
                    nbad[fk] = nbad.get(fk, 0) + 1
                    if fk not in first_bad:
                        first_bad[fk] = (p, o, exp)
    for (backend, form), (p, o, exp) in sorted(first_bad.items()):
        obs = ('ok:' + fmt(o[1])) if o[0] == 'ok' else 'exc:' + o[1]
        key = '%s|%s|%s|%s' % (form, backend, env_id, text)
        out['viol'].append(dict(
            key=key, observed='p=%s %s' % (fmt(list(p)), obs), expected='p=%s %s' % (fmt(list(p)), fmt(plain(exp))),
            case=dict(fam=fam, env=env_id, tree=to_list(tree), form=form, backend=backend, point=list(p),
                      failing_points=nbad[(backend, form)], points=len(pts)),
            snippet=snippet(backend, fam, env, tree, form, p),
            group=classify(fam, env, tree, form, backend, o)))
    if len(backends) == 2:
        # both answers are within their own tolerance of the exact value here; the statement also wants them to agree
        # with each other within the looser tolerance (sum of the two, so that the triangle inequality cannot trip it)
        disagreed = set()
        for p, (scale, exp, _) in pts:
            for form in forms:
                a, b = results.get(('numpy', form, p)), results.get(('torch', form, p))
                if a is None or b is None or form in disagreed:
                    continue
                out['cross_backend_pairs'] += 1
                if not _agree_pair(a, b, RTOL['torch'] + RTOL['numeric'], (ATOL['torch'] + ATOL['numeric']) * scale):
                    disagreed.add(form)
                    out['viol'].append(dict(
                        key='%s|numpy-vs-torch|%s|%s' % (form, env_id, text),
                        observed='p=%s numpy %s torch %s' % (fmt(list(p)), fmt(a), fmt(b)), expected='agree',
                        case=dict(fam=fam, env=env_id, tree=to_list(tree), form=form, backend='both', point=list(p)),
                        snippet=None, group='backends-disagree'))
    nz = sum(1 for _, (_, exp, _) in pts if nonzero(exp))
    out['points_in_domain'] += len(pts)
    out['distinct_nontrivial'] += nz
    out['distinct_gradients'] += len({fmt(plain(exp)) for _, (_, exp, _) in pts})
    if nz and zlib.crc32(text.encode('utf8')) % 211 == 0:      # a fixed pseudo-random subset, independent of the fan-out
        p, (scale, exp, _) = pts[len(pts) // 2]
        out['samples'].append([env_id, forms[0], text, fmt(list(p)), fmt(plain(exp))])


def normalise(obs, exp):
    """An accepted observation in the shape of plain(exp) (m -> m x 1 for the Jacobian block of a scalar parameter)."""
    if isinstance(exp, tuple) and exp[0] == 'col':
        return [[x] if not isinstance(x, list) else x for x in obs]
    if isinstance(exp, list):
        return [normalise(o, e) for o, e in zip(obs, exp)]
    return obs


def _agree_pair(a, b, rtol, atol):
    if isinstance(a, list) != isinstance(b, list):
        return False
    if isinstance(a, list):
        if len(a) != len(b):
            return False
        return all(_agree_pair(x, y, rtol, atol) for x, y in zip(a, b))
    return abs(a - b) <= atol + rtol * max(abs(a), abs(b))


def new_out():
    return dict(trees=0, trees_without_point=0, points_outside_domain=0, points_in_domain=0, evaluations=0,
                value_checks=0, value_mismatch=[], cross_backend_pairs=0, distinct_nontrivial=0, distinct_gradients=0,
                viol=[], samples=[], timeouts=0, skipped_no_literal=0, excused_ill_conditioned=0, function_differs=0)


def worker(items):
    out = new_out()
    for item in items:
        if not _TORCH_READY and any(b == 'torch' for _, b, _ in item[3]):
            interp('torch')                     # the import must not run under the per-item watchdog
        try:
            with runner.watchdog(ITEM_TIMEOUT):
                run_item(item, out)
        except runner.CaseTimeout:
            fam, env_id, tree, _ = item
            out['timeouts'] += 1
            out['viol'].append(dict(key='timeout|%s|%s|%s' % (fam, env_id, fn_text(tree)), observed='did not terminate',
                                    expected='terminates', case=dict(fam=fam, env=env_id, tree=to_list(tree)),
                                    snippet=None, group='timeout'))
    return out


# ---------------------------------------------------------------------------------------------

def selftest():
    pool = []
    for env_id in ('x2', 'w2_bs'):
        env = ENVS[env_id]
        n = dual.flat_size(env)
        for t in scalar_trees(env, 3) + vector_trees(env, 3):
            pool.append((t, env, [(-1.5, 0.5, 2.0)[(i + len(pool)) % 3] for i in range(n)]))
    n, m = dual.selftest(pool)
    # node counting and rendering on fixed examples
    t = ('bin', '*', ('un', 'sin', ('idx', 'x', 0)), ('pow', 2, ('idx', 'x', 1)))
    assert dual.size(t) == 5 and kl(t) == '(sin((x@0))*((x@1)^2))', kl(t)
    S, V = enumerate_trees(ENVS['x3'], 3)
    assert all(dual.size(x) == k for k in S for x in S[k]) and all(dual.size(x) == k for k in V for x in V[k])
    return 'dual: %d examples, %d derivative entries cross-checked against Richardson differences' % (n, m)


MATRIX_ENV = [('x', 4)]
MATRIX_POINTS = ((0.5, 2.0, -1.5, 1.0), (2.0, 0.5, 1.0, 3.0))


def matrix_points(cfg, rep):
    """Gradient with respect to a 2x2 matrix point in both memory layouts (NumPy backend, numeric differentiation).
    Every scalar tree T over a 4-vector with <= 2 nodes is turned into f::{g(,/x)}, g::{T}: a function of a matrix;
    the point is bound as a literal (row-major) and as the transpose of the transposed literal (same values,
    column-major in memory: what Transpose returns).  Expected: the dual-number gradient of T, reshaped 2x2."""
    from klongpy import KlongInterpreter
    trees = scalar_trees(MATRIX_ENV, cfg.pick(2, 3))
    n = 0
    for t in trees:
        for p in MATRIX_POINTS:
            e = expected_for('grad', MATRIX_ENV, t, p)
            if e is None:
                continue
            scale, exp, _ = e
            want = [list(exp[0:2]), list(exp[2:4])]
            c_lit = '[[%s %s] [%s %s]]' % tuple(num(float(v)) for v in p)
            f_lit = '+[[%s %s] [%s %s]]' % tuple(num(float(v)) for v in (p[0], p[2], p[1], p[3]))
            for layout, lit_ in (('row-major', c_lit), ('column-major', f_lit)):
                for form in ('f:>a', 'a∇f'):
                    k = KlongInterpreter(backend='numpy')
                    k('.bkf([%s])' % ' '.join('"%s"' % f for f in BKF))
                    setup = ['g::' + fn_text(t), 'f::{g(,/x)}', 'a::' + lit_]
                    with runner.watchdog(ITEM_TIMEOUT):
                        got = evaluate_one(k, setup, 'f:>a' if form == 'f:>a' else 'a∇f')
                    n += 1
                    good = got[0] == 'ok' and agree(got[1], want, RTOL['numeric'], ATOL['numeric'] * scale)
                    if not good and not ill_conditioned(MATRIX_ENV, t, p, 'numeric', scale):
                        rep.violation('%s|numpy|matrix %s|%s' % (form, layout, fn_text(t)),
                                      'p=%s %s' % (lit_, ('ok:' + fmt(got[1])) if got[0] == 'ok' else 'exc:' + got[1]),
                                      'p=%s %s' % (lit_, fmt(want)), case={'part': 'matrix', 'tree': to_list(t), 'point': list(p),
                                                                         'layout': layout, 'form': form},
                                      snippet='\n'.join(['from klongpy import KlongInterpreter', 'k = KlongInterpreter()',
                                                         "k('.bkf([%s])')" % ' '.join('\"%s\"' % f for f in BKF)] +
                                                        ['k(%r)' % s_ for s_ in setup] + ['print(k(%r))' % ('f:>a' if form == 'f:>a' else 'a∇f')]),
                                      group='numpy-gradient-at-a-matrix-point')
    return n


def run(cfg):
    rep = runner.Report('C06', 'exploration')
    dual.selftest()
    n_matrix = matrix_points(cfg, rep)
    items = work_items(cfg)
    sl = os.environ.get('VERIF_C06_SLICE')          # development aid: "i/n" runs every n-th item only (not exhaustive)
    if sl:
        i, n = (int(x) for x in sl.split('/'))
        items = items[i::n]
        rep.notes.append('VERIF_C06_SLICE=%s: %d items only, NOT exhaustive' % (sl, len(items)))
    total = new_out()
    # big environments first inside a chunk does not matter; chunks are small so that the fan-out balances
    for part in runner.pmap(worker, items, cfg, chunk=max(1, min(40, len(items) // (cfg.jobs * 12) or 1)), inline_below=-1):
        runner.merge_counts(total, part)
    total['value_mismatch'].sort()
    if total['function_differs'] > 0.002 * max(1, total['value_checks']):
        # a handful of points are expected (verb defects such as `[1 2]^-1`); more means the rendering is wrong
        raise runner.HarnessError('Klong rendering of a tree does not denote the reference function (%d of %d points), '
                                  'first: %r' % (total['function_differs'], total['value_checks'], total['value_mismatch'][0]))
    rep.extend_violations(sorted(total['viol'], key=lambda v: (v['key'], v['observed'])))
    fams = {}
    for it in items:
        k = '%s/%s' % (it[0], it[1])
        fams[k] = fams.get(k, 0) + 1
    rep.coverage = dict(
        evaluations=total['evaluations'], distinct_nontrivial=total['distinct_nontrivial'],
        rule='one evaluation = one gradient/Jacobian expression evaluated by the real interpreter and compared with the '
             'dual-number derivative; distinct_nontrivial = number of distinct (family, environment, tree, grid point) '
             'inputs inside the smooth domain whose exact derivative has a non-zero entry (each is evaluated under '
             'every form and backend of its plan row); trees are all typed trees up to the node bound, see PLAN',
        exhaustive=not sl, trees=total['trees'], trees_per_family=fams,
        matrix_point_evaluations_both_layouts=n_matrix, points_in_domain=total['points_in_domain'],
        points_outside_domain=total['points_outside_domain'], trees_without_point=total['trees_without_point'],
        distinct_gradients=total['distinct_gradients'], value_checks=total['value_checks'],
        cross_backend_pairs=total['cross_backend_pairs'], timeouts=total['timeouts'],
        skipped_no_literal=total['skipped_no_literal'], excused_ill_conditioned=total['excused_ill_conditioned'],
        points_where_f_itself_differs=total['function_differs'],
        points_where_f_itself_differs_examples=total['value_mismatch'][:10],
        plan=[[r[0], r[1], r[2], list(r[3]), {'G': 'GRID^n', 'S': 'SUB^n'}[r[4]], list(r[5])] + list(r[6:])
              for r in plan(cfg)],
        samples=sorted(total['samples'])[:12], oracle_selfcheck='passed')
    rep.assumptions = [
        'Nothing is decided between grid points: the check is exhaustive over trees x grid only (grid %s, sub-grid %s).'
        % (list(GRID), list(SUB)),
        'Smooth domain per tree: divisors, arguments of log/sqrt and bases of negative or real powers at least %.1f away '
        'from the singularity; intermediate values and derivatives bounded by %g (mc.ref.dual LIMITS).' % (dual.MARGIN, dual.BIG),
        'Tolerances: numeric 1e-5 relative + 1e-7*max(1,|f(p)|) absolute; torch 1e-4 relative + 1e-6*max(1,|f(p)|); '
        'the absolute term is scaled by |f| because the rounding floor of a central difference is proportional to |f| '
        '(weaker than a pure relative bound, never stronger).',
        'Well-conditioned domain: an answer that misses its tolerance is not judged when the error inherent in the method '
        'already exceeds the tolerance at that point for some entry (single precision: 4*2^-24*sensitivity of the exact '
        'derivative to relative perturbations of the intermediates; central difference: 2*(error of a faultless central '
        'difference with the documented step 1e-6 over the reference\'s own values + 2^-53*sensitivity(f)/h)); both bounds '
        'are computed from the reference only '
        '(excused_ill_conditioned counts these evaluations; exceptions are never excused).',
        'A point at which the interpreter\'s own f(p) raises or differs from the reference value (a verb defect such as '
        '`[1 2]^-1`, not a gradient defect; judged on the numpy backend in double precision) is left out: '
        'points_where_f_itself_differs.',
        'The shape of a multi-parameter Jacobian block for a scalar parameter is not fixed by the statement: m and m x 1 '
        'are both accepted.',
        'The point of `p∇f` is a literal; a negative real scalar has none in that position (`-1.5∇f` is -(1.5∇f) and ∇ '
        'does not evaluate a parenthesised operand), so those points are covered by `a∇f` only (skipped_no_literal).',
        'Constant functions (no parameter occurs) are not enumerated; constants are 2, 0.5, 1 and exponents 2, 3, -1, 0.5.',
        'torch, numpy and libm are trusted as installed; the torch backend runs on cpu with one thread.',
    ]
    return rep


def replay(cfg, path):
    with open(path) as f:
        d = json.load(f)
    c = d['case']
    env = ENVS[c['env']]
    tree = to_tuple(c['tree'])
    fam = c['fam']
    print('key     :', d['key'])
    print('function:', fn_text(tree))
    if 'form' not in c:
        print('no single evaluation recorded for this case')
        return 0
    backends = ('numpy', 'torch') if c['backend'] == 'both' else (c['backend'],)
    p = tuple(c['point'])
    e = expected_for(fam, env, tree, p)
    print('point   :', list(p), ' exact:', fmt(plain(e[1])) if e else 'outside the smooth domain')
    bad = 0
    for backend in backends:
        k = interp(backend)
        for s in define(fam, tree):
            k(s)
        setup, expr = program(fam, env, tree, c['form'], p)
        o = evaluate_one(k, setup, expr)
        tk = tolerance(c['form'], backend)
        good = e is not None and o[0] == 'ok' and agree(o[1], e[1], RTOL[tk], ATOL[tk] * e[0])
        excused = not good and e is not None and o[0] == 'ok' and ill_conditioned(env, tree, p, tk, e[0])
        print('%-6s %s -> %s  %s' % (backend, expr, ('ok:' + fmt(o[1])) if o[0] == 'ok' else 'exc:' + o[1],
                                     'within tolerance' if good else
                                     'outside the well-conditioned domain (not judged)' if excused else 'VIOLATION'))
        bad += not (good or excused)
    return 1 if bad else 0

"""C04 - evaluation depends only on program text and variable state; values are immutable.

E1 without deduplication: every statement sequence up to a bounded length over a closed alphabet of statement texts is
executed on one real interpreter A (parse cache, compiled-expression cache, per-node `_compiled` memos, literal arrays
inside cached syntax trees all warm).  For the last statement of every history a *fresh* interpreter B is loaded with a
copy of A's pre-state and executes the same text once.  Oracle (no expected values):

  result     cn(result) of A == cn(result) of B               (both raising is agreement; classes are not compared)
  state      canonical post-state of A == canonical post-state of B
  frame      in A every storage cell (context frame, key) other than the one the statement assigns keeps its pre-state
             canonical value (cells bound to the dictionary updated by a documented in-place operation excepted)
  raise      a statement that raises leaves every pre-state cell unchanged in A

What "state" is.  klongpy keeps variables in a stack of frames (`KlongContext._context`): the global dictionary, one
`KGModule` per `.module(:q)`, one plain dictionary per `.module(0)`, and - because `.module` is itself a function call
whose argument frame cannot be popped once the module frame sits on top of it - leaked argument frames holding `x` and
`.f`.  Name resolution walks that stack, so the stack *is* the variable state.  The second component is the module the
PARSER is in (`KlongInterpreter._module`): it decides how the next text is qualified (`a` -> a`q) and is part of the
parse-cache key.  Pre-state = (frames with their contents, parser module, `_min_ctx_count`); B receives all three.
Data values are `copy.deepcopy` images made with ONE memo for the whole stack (dtype, representation and the alias
structure between variables / dictionaries survive; NumPy view relations and syntax-tree sharing do not - B is fresh),
Klong functions are re-parsed by B from the text of the statement that defined them under the module that was current
then, system functions found in leaked `.f` cells are replaced by B's own function of the same name.
"""
import contextlib
import copy
import re
import types
from collections import deque

from klongpy import KlongInterpreter
from klongpy.core import KGSym, KGFn, KGCall, KGLambda
from klongpy.interpreter import KGModule

from .. import bfs, runner
from ..values import cn, show

# The statement alphabet of DESIGN.md (C04), in that order, plus four texts (last line).  `a::"xy"`, `a*2`, `b::a*2`
# make the compiled-expression caches observable (compiled `a*2` applied to a string is Python's repetition, not
# Klong's Times): `a*2` goes through `_compiled_cache`, the operand of `b::a*2` through the per-node `_compiled` memo.
# `d,[5 6]` updates a dictionary through the variable its literal was assigned to (literal sharing in 3 statements).
ALPHABET = [
    'a::[1 2 3]', 'a::[1.0 2.0 3.0]',
    'b::a', 'b::1_a', 'b::2#a', 'b::|a', 'b::a@[0 1]', 'b::a,[]', 'b::[],a', 'b::0:^a',
    'a::a:=9,0', 'b::b:=9,0', 'b::b:=9.5,0', 'c::a:=0.5,1',      # integer and real values: a real into a real list needs no conversion
    'm::[[1 2] [3 4]]', 'r::*m', 'm::m:-7,[0 0]', 'r::r:=5,0',
    'f::{x:=0,0}', 'f(a)',
    'g::{[1 2 3]}', 'c::g()', 'c::c:=8,1',
    '+/a', 'a+1',
    '.module(:q)', '.module(0)',
    'd:::{[1 2]}', 'e::d', 'e,[3 4]',
    '{+/x*x}:>[1.0 2.0]',
    'a::"xy"', 'a*2', 'b::a*2', 'd,[5 6]',
    # a compiled comparison inside a function, applied to a flat list and then to a list with a one-element inner list
    # (the per-node memo was made for the first; an object array goes through NumPy's truth-value comparison)
    'h::{[t];t::x=1;t}', 'h([1 2 3])', 'h([1 [1]])',
    # a ragged list (an object array: copying it copies only the outer level) amended in depth
    'u::[[1 2] [3 4 5]]', 'b::u:-9,[0 1]',
    # a shape list with the placeholder -1 (Reshape works the placeholder out in a copy of the shape, not in the operand)
    's::[-1 2]', 'c::s:^[1 2 3 4 5 6]',
    # a dictionary literal nested in a dictionary literal, and an update of the inner dictionary found under its key: evaluating
    # the literal's text again (a parse-cache hit) must yield the dictionary that was written, not the one that was updated
    'p:::{[1 :{[2 3]}]}', '(p?1),[4 5]',
]

# depth-4 alphabet of the thorough tier when the full one does not fit (see run()): one representative per mechanism
REDUCED = [
    'a::[1 2 3]', 'a::[1.0 2.0 3.0]', 'a::"xy"', 'b::a', 'b::1_a', 'b::a,[]', 'a::a:=9,0', 'b::b:=9,0', 'c::a:=0.5,1',
    'm::[[1 2] [3 4]]', 'r::*m', 'm::m:-7,[0 0]', 'r::r:=5,0', 'f::{x:=0,0}', 'f(a)', 'g::{[1 2 3]}', 'c::g()',
    'c::c:=8,1', '+/a', 'a*2', 'b::a*2', '.module(:q)', '.module(0)', 'd:::{[1 2]}', 'e::d', 'e,[3 4]',
    '{+/x*x}:>[1.0 2.0]', 'h::{[t];t::x=1;t}', 'h([1 2 3])', 'h([1 [1]])',
]
FULL_DEPTH_4 = False        # thorough tier: full alphabet at length 4 (False: REDUCED at length 4, full up to 3)

ASSIGN = re.compile(r'^([a-z]+)::')
DICT_INPLACE = {'e,[3 4]': 'e', 'd,[5 6]': 'd',           # statement -> variable whose dictionary is updated in situ (documented)
                '(p?1),[4 5]': ('p', 1)}                  # ... or (variable, key): the dictionary found under that key of it
CASE_CPU_S = 10

SAMPLES = [
    ('a::[1 2 3]', 'b::a', 'a::a:=9,0'),
    ('g::{[1 2 3]}', 'c::g()', 'c::c:=8,1'),
    ('d:::{[1 2]}', 'e::d', 'e,[3 4]'),
    ('.module(:q)', 'a::[1 2 3]', '.module(0)'),
    ('a::[1.0 2.0 3.0]', 'a+1', 'a+1'),
    ('m::[[1 2] [3 4]]', 'r::*m', 'r::r:=5,0'),
]


class Side:
    """One real interpreter plus the provenance of the Klong functions bound in it."""

    def __init__(self, kl=None):
        self.kl = kl if kl is not None else KlongInterpreter()
        self.fns = {}                   # id(function object) -> (object, defining text, parser module then)

    def frames(self):
        """User frames, top of the stack first (the last two entries of the deque are the system dictionaries)."""
        return list(self.kl._context._context)[:-2]

    def sysname(self, lam):
        for fr in list(self.kl._context._context)[-2:]:
            for k, v in fr.items():
                if v is lam or getattr(v, 'a', None) is lam:
                    return str.__str__(k)
        return None

    def note_fns(self, text, module):
        for fr in self.frames():
            for v in fr.values():
                if isinstance(v, KGFn) and id(v) not in self.fns:
                    self.fns[id(v)] = (v, text, module)

    def cval(self, v):
        if isinstance(v, KGFn):
            e = self.fns.get(id(v))
            return ('fn', v.arity, e[1] if e else '?', _mod(e[2]) if e else '?')
        if isinstance(v, KGLambda):
            return ('sysfn', self.sysname(v) or '?')
        return cn(v)

    def snapshot(self):
        """(parser module, min_ctx, frames bottom-up as (kind, ((key, value)...)), alias classes of dictionaries)."""
        frs = []
        seen = {}
        for i, fr in enumerate(reversed(self.frames())):
            kind = 'module:' + str.__str__(fr.name) if isinstance(fr, KGModule) else 'frame'
            items = []
            for k, v in fr.items():
                ks = str.__str__(k)
                items.append((ks, self.cval(v)))
                if isinstance(v, dict):
                    seen.setdefault(id(v), []).append((i, ks))
            frs.append((kind, tuple(sorted(items))))
        alias = tuple(sorted(tuple(sorted(g)) for g in seen.values() if len(g) > 1))
        return (_mod(self.kl._module), self.kl._context._min_ctx_count, tuple(frs), alias)

    def execute(self, text):
        module = self.kl._module
        try:
            r = self.kl(text)
            self.note_fns(text, module)
            out = ('ok', self.cval(r))
        except RecursionError:
            out = ('exc', 'RecursionError')
        except Exception as e:          # noqa: BLE001 - every failure class is an observation
            out = ('exc', type(e).__name__)
        self.note_fns(text, module)
        return out


def _mod(m):
    return None if m is None else str.__str__(m)


def fresh_copy(a):
    """A fresh interpreter holding a copy of a's state (see module docstring)."""
    b = Side()
    memo = {}
    fnmemo = {}

    def clone(v):
        if isinstance(v, KGFn):
            if id(v) in fnmemo:
                return fnmemo[id(v)]
            e = a.fns.get(id(v))
            if e is None:
                raise runner.HarnessError('function value without a defining statement')
            _, text, module = e
            saved = b.kl._module
            b.kl._module = module
            try:
                _, prog = b.kl.prog(text)
            finally:
                b.kl._module = saved
            node = prog[0] if len(prog) == 1 else None
            if not (isinstance(node, KGFn) and node.is_op() and node.a.a == '::' and isinstance(node.args, list)
                    and isinstance(node.args[1], KGFn) and not isinstance(node.args[1], KGCall)):
                raise runner.HarnessError('cannot re-define a function from %r' % text)
            f = node.args[1]
            fnmemo[id(v)] = f
            b.fns[id(f)] = (f, text, module)
            return f
        if isinstance(v, KGLambda):
            name = a.sysname(v)
            if name is None:
                raise runner.HarnessError('unknown Python function in the variable state')
            w = b.kl._context[KGSym(name)]
            return w.a if isinstance(w, KGFn) else w
        return copy.deepcopy(v, memo)

    new = []
    for fr in a.frames():
        nf = KGModule(fr.name) if isinstance(fr, KGModule) else {}
        for k, v in fr.items():
            nf[k] = clone(v)
        new.append(nf)
    ctx = b.kl._context
    ctx._context = deque(new + list(ctx._context)[-2:])
    ctx._min_ctx_count = a.kl._context._min_ctx_count
    b.kl._module = a.kl._module
    return b


def build(hist):
    a = Side()
    for t in hist:
        a.execute(t)
    return a


def _show_out(o):
    if o[0] == 'ok':
        return 'ok:' + _sv(o[1])
    if o[0] == 'exc':
        return 'exc:' + o[1]
    return 'did not terminate'


def _sv(c):
    if c[0] == 'fn' and len(c) == 4:
        return '<fn/%d %s>' % (c[1], c[2])
    if c[0] == 'sysfn':
        return '<%s>' % c[1]
    return show(c)


def _cells(snap):
    return {(i, k): v for i, (kind, items) in enumerate(snap[2]) for k, v in items}


def _state_diff(sa, sb):
    """Short deterministic description of where two snapshots differ (A side, B side)."""
    da, db = [], []
    if sa[0] != sb[0]:
        da.append('parser-module=%s' % sa[0])
        db.append('parser-module=%s' % sb[0])
    if sa[1] != sb[1]:
        da.append('min_ctx=%s' % sa[1])
        db.append('min_ctx=%s' % sb[1])
    if [f[0] for f in sa[2]] != [f[0] for f in sb[2]]:
        da.append('frames=' + ','.join(f[0] for f in sa[2]))
        db.append('frames=' + ','.join(f[0] for f in sb[2]))
    ca, cb = _cells(sa), _cells(sb)
    for key in sorted(set(ca) | set(cb)):
        if ca.get(key) != cb.get(key):
            name = '%s#%d' % (key[1], key[0])
            da.append('%s=%s' % (name, _sv(ca[key]) if key in ca else 'unbound'))
            db.append('%s=%s' % (name, _sv(cb[key]) if key in cb else 'unbound'))
    if sa[3] != sb[3]:
        da.append('aliases=%s' % (sa[3],))
        db.append('aliases=%s' % (sb[3],))
    return ' '.join(da), ' '.join(db)


def classify(what, hist, text, observed):
    """Root-cause label by inspection of the failures seen on the pinned tree (triage aid only)."""
    if text.startswith('.module(') and 'parser-module' in observed:
        return 'module-switch-from-parse-cache'
    if text == 'b::a*2' and ('xyxy' in observed or what.startswith('raise(b')):
        return 'stale-compiled-memo-on-syntax-node'
    return None


def check_last(hist, text):
    """Run hist on A, then `text` on A and on a fresh copy; return (violations, info)."""
    a = build(hist)
    pre = a.snapshot()
    premod = a.kl._module
    try:
        b = fresh_copy(a)
    except runner.HarnessError as e:
        # The variable state holds a function that no statement of the history defines: it sits in a call frame that an
        # earlier statement left on the scope stack (reported there as frame-left-behind).  Nothing can be compared.
        if not any(isinstance(v, KGFn) and k == KGSym('.f') for fr in a.frames() for k, v in fr.items()):
            raise
        return [dict(key=' ; '.join(list(hist) + [text]) + ' @pre-state', observed='a call frame (with .f) is still on the scope stack '
                     'before the statement: %s' % e, expected='call frames end with their call',
                     case={'history': list(hist), 'op': text, 'what': 'pre-state'}, snippet=None, group='frame-left-behind')], \
            {'ra': ('exc', 'unjudged'), 'post': pre, 'hit': False}
    if b.snapshot() != pre:
        raise runner.HarnessError('fresh copy differs from the pre-state: %r' % (list(hist),))
    # cells exempt from the frame condition: bound to the dictionary a documented in-place operation updates
    exempt = set()
    if text in DICT_INPLACE:
        name, inner_key = DICT_INPLACE[text], None
        if isinstance(name, tuple):
            name, inner_key = name
        try:
            tgt = a.kl._context[KGSym(name if premod is None else '%s`%s' % (name, premod))]
        except KeyError:
            tgt = None
        if isinstance(tgt, dict) and inner_key is not None:
            tgt = tgt.get(inner_key)
        if isinstance(tgt, dict):
            for i, fr in enumerate(reversed(a.frames())):
                for k, v in fr.items():
                    if v is tgt or (isinstance(v, dict) and any(w is tgt for w in v.values())):
                        exempt.add((i, str.__str__(k)))
    m = ASSIGN.match(text)
    assigned = None
    if m:
        assigned = m.group(1) if premod is None else '%s`%s' % (m.group(1), _mod(premod))
    warm = (text, premod) in getattr(a.kl, '_parse_cache', {})        # measured on the real cache, evidence only
    ra = a.execute(text)
    post_a = a.snapshot()
    rb = b.execute(text)
    post_b = b.snapshot()

    viol = []
    history = list(hist)
    prog = history + [text]

    def add(what, observed, expected):
        snippet = ('from klongpy import KlongInterpreter\nk = KlongInterpreter()\n'
                   + ''.join('try:\n    print(%r, "->", k(%r))\nexcept Exception as e:\n    print(%r, "-> exc", type(e).__name__)\n'
                             % (p, p, p) for p in prog)
                   + 'print("parser module:", k._module)\n'
                   + 'print([dict(fr) for fr in list(k._context._context)[:-2]])\n'
                   + '# %s: observed %s\n' % (what, observed)
                   + '# a fresh interpreter holding the same variable values answers the last statement with: %s\n' % expected)
        viol.append(dict(key=' ; '.join(prog) + ' @' + what, observed=observed, expected=expected,
                         case={'history': history, 'op': text, 'what': what}, snippet=snippet,
                         group=classify(what, history, text, observed)))

    ok_a, ok_b = ra[0] == 'ok', rb[0] == 'ok'
    if not ok_a and len(post_a[2]) > len(pre[2]):
        add('frame-left-behind', 'the statement raised %s and left %d scope(s) more on the stack than before: %s'
            % (ra[1], len(post_a[2]) - len(pre[2]), repr(post_a[2][len(pre[2]):])[:200]), 'a failed statement leaves the scope stack as it was')
    if ok_a != ok_b or (ok_a and ra != rb):
        add('result', _show_out(ra), _show_out(rb))
    if post_a != post_b:
        da, db = _state_diff(post_a, post_b)
        add('state', da, db)
    pre_c, post_c = _cells(pre), _cells(post_a)
    for key in sorted(pre_c):
        if key in exempt or (ok_a and assigned is not None and key[1] == assigned):
            continue
        if post_c.get(key) != pre_c[key]:
            add(('frame(%s#%d)' if ok_a else 'raise(%s#%d)') % (key[1], key[0]),
                '%s=%s' % (key[1], _sv(post_c[key]) if key in post_c else 'unbound'),
                '%s=%s' % (key[1], _sv(pre_c[key])))
    info = {'ra': ra, 'post': post_a, 'hit': warm}
    return viol, info


@contextlib.contextmanager
def fast_construction():
    """Two interpreters are constructed per history and ~60% of `KlongInterpreter()` is `inspect.signature` over the
    same 45 system functions.  The parameter names of a plain Python function are a function of its code object, so
    they are memoised per code object while a run is in progress (construction only; nothing the property is about)."""
    import klongpy.types as kt
    orig = getattr(kt, 'safe_inspect', None)
    if orig is None:
        yield
        return
    cache = {}

    def memo(fn, follow_wrapped=True):
        if type(fn) is types.FunctionType and not hasattr(fn, '__wrapped__'):
            r = cache.get(fn.__code__)
            if r is None:
                r = cache[fn.__code__] = orig(fn, follow_wrapped)
            return r
        return orig(fn, follow_wrapped)

    kt.safe_inspect = memo
    try:
        yield
    finally:
        kt.safe_inspect = orig


def make_expand(alphabet, sample_set, max_len, check_from=1):
    def expand(hist):
        out = {'succ': [], 'transitions': 0, 'executions': 0, 'violations': [], 'raised': 0, 'warm': 0, 'pruned': 0,
               'outcomes': set(), 'poststates': set(), 'sampled': []}
        if len(hist) + 1 < check_from:          # shorter histories over this alphabet were checked by an earlier phase
            out['succ'] = [(text, 0) for text in alphabet]
            return out
        for text in alphabet:
            try:
                with runner.watchdog(CASE_CPU_S):
                    v, info = check_last(hist, text)
            except runner.CaseTimeout:
                prog = list(hist) + [text]
                out['transitions'] += 1
                out['violations'].append(dict(
                    key=' ; '.join(prog) + ' @termination', observed='did not terminate', expected='termination',
                    case={'history': list(hist), 'op': text, 'what': 'termination'}, group='non-termination',
                    snippet='from klongpy import KlongInterpreter\nk = KlongInterpreter()\n'
                            + ''.join('k(%r)\n' % p for p in prog)))
                out['succ'].append((text, None))        # not extended: every extension would hang in the replay
                out['pruned'] += 1
                continue
            if len(hist) + 1 < max_len:             # histories of maximal length are checked, not extended
                out['succ'].append((text, 0))
            out['transitions'] += 1
            out['executions'] += len(hist) + 2
            out['violations'].extend(v)
            out['raised'] += info['ra'][0] != 'ok'
            out['warm'] += bool(info['hit'])
            out['outcomes'].add(hash((info['ra'], info['post'])) & 0xffffffffffff)
            out['poststates'].add(hash(info['post']) & 0xffffffffffff)
            if hist + (text,) in sample_set:
                out['sampled'].append(list(hist) + [text, '=> ' + _show_out(info['ra'])])
        return out
    return expand


def run(cfg):
    rep = runner.Report('C04', 'model_checking')
    sample_set = set(SAMPLES)
    two_phase = (not cfg.quick) and not FULL_DEPTH_4
    depth = 3 if (cfg.quick or two_phase) else 4
    with fast_construction():
        total = bfs.search(make_expand(ALPHABET, sample_set, depth), cfg, depth, merge=False)
        t2 = bfs.search(make_expand(REDUCED, sample_set, 4, check_from=4), cfg, 4, merge=False) if two_phase else None
    expected = sum(len(ALPHABET) ** n for n in range(1, depth + 1))
    by_length = [len(ALPHABET) ** n for n in range(depth + 1)]
    rule_tail = ''
    if two_phase:
        for k in ('layers', 'states', 'max_depth', 'unexpanded_frontier', 'capped'):
            t2.pop(k, None)
        runner.merge_counts(total, t2)
        expected += len(REDUCED) ** 4
        by_length.append(len(REDUCED) ** 4)
        depth = 4
        rule_tail = '; length 4 over the reduced alphabet of %d texts (`alphabet_length_4`)' % len(REDUCED)
    rep.extend_violations(total.get('violations', []))
    checked = total['transitions']
    rep.coverage = {
        'states': 1 + checked,
        'transitions': checked,
        'traces_validated_against_impl': checked,
        'statement_executions': total.get('executions', 0),
        'samples': sorted(total.get('sampled', [])),
        'exhaustive': True,
        'max_history_length': depth,
        'alphabet': list(ALPHABET),
        'alphabet_size': len(ALPHABET),
        'alphabet_length_4': list(REDUCED) if two_phase else (list(ALPHABET) if depth == 4 else None),
        'histories_by_length': by_length,
        'distinct_outcomes': len(total.get('outcomes', ())),
        'distinct_post_states': len(total.get('poststates', ())),
        'statements_that_raised': total.get('raised', 0),
        'statements_run_on_a_warm_parse_cache': total.get('warm', 0),
        'rule': 'every sequence of length <= %d over the %d statement texts is executed on one interpreter (no merging '
                'of histories: a state is a history); the last statement of every sequence is also executed by a fresh '
                'interpreter loaded with a copy of the pre-state; results, post-states and the frame condition are '
                'compared' % (3 if two_phase else depth, len(ALPHABET)) + rule_tail,
    }
    pruned = total.get('pruned', 0)
    rep.coverage['exhaustive'] = pruned == 0
    rep.coverage['histories_not_extended_after_timeout'] = pruned
    if not pruned and checked != expected:
        raise runner.HarnessError('enumeration incomplete: %d checked' % checked)
    rep.assumptions = [
        'the variable state is the stack of context frames (global, module, post-module and leaked argument frames) '
        'plus the module the parser is in; the fresh interpreter is given structurally equal frames directly, not '
        'through Klong statements',
        'data values are deep-copied with one memo (alias structure kept, NumPy view relations and syntax-tree sharing '
        'dropped); functions are re-parsed from the statement that defined them under the parser module of that time',
        'frame condition is evaluated per storage cell (frame, key); a name that was unbound before the statement has '
        'no pre-state value (reading an unbound name binds it to its own symbol: compared between A and B only)',
        'cells bound to the dictionary updated by `e,[3 4]` are exempt from the frame condition (documented in-place '
        'operation) but are compared with the fresh interpreter, which holds the same alias structure',
        'A and B live in one process: hidden state shared through module-level objects of klongpy would be invisible',
        'while the search runs, klongpy.types.safe_inspect is memoised per code object (interpreter construction only)',
        'numeric-block promotion of the canonical form (DESIGN 2.4); exception classes are not compared',
    ]
    return rep


def selftest():
    a = build(('.module(:q)', 'a::[1 2 3]', 'f::{x:=0,0}', '.module(0)', 'd:::{[1 2]}', 'e::d', 'b::a'))
    b = fresh_copy(a)
    assert a.snapshot() == b.snapshot(), 'fresh copy is not faithful'
    fa, fb = a.frames(), b.frames()
    assert all(x is not y for x, y in zip(fa, fb))
    assert b.kl('e') is b.kl('d') and b.kl('d') is not a.kl('d')
    assert b.kl('f') is not a.kl('f')
    # the snapshot sees an in-place write through an alias, the copy does not share storage with the original
    a = build(('a::[1 2 3]', 'b::a'))
    b = fresh_copy(a)
    pre = a.snapshot()
    a.kl('a')[0] = 9
    diff = {k for k, v in _cells(a.snapshot()).items() if _cells(pre)[k] != v}
    assert diff == {(0, 'a'), (0, 'b')}, diff
    assert b.snapshot() == pre
    # copy-before-write amend on an aliased literal: nothing to report
    v, _ = check_last(('a::[1 2 3]', 'b::a'), 'a::a:=9,0')
    assert v == [], v
    return 'fresh copy faithful on a 7-statement history (module, function, aliased dictionary); snapshot sees aliased writes'


def replay(cfg, path):
    import json
    with open(path) as f:
        r = json.load(f)
    hist, text = tuple(r['case']['history']), r['case']['op']
    a = Side()
    for t in hist:
        print('A %-24s -> %s' % (t, _show_out(a.execute(t))))
    viol, info = check_last(hist, text)
    print('A %-24s -> %s' % (text, _show_out(info['ra'])))
    for v in viol:
        print('VIOLATION %s\n   observed (warm interpreter): %s\n   expected (fresh interpreter / pre-state): %s'
              % (v['key'], v['observed'], v['expected']))
    if not viol:
        print('no violation on this tree')
    return 1 if viol else 0

"""C03 - function application, projection, locals and conditionals follow substitution.

Four parts (DESIGN.md section C03), all bounded-exhaustive over the real interpreter:

(a) APPLY   every expression tree with <= N operator nodes over the leaves {x y z 1 2 [1 2] g} and the operators
            {+ - * , # @} (each in its monadic and its dyadic use), plus local-declaring bodies {[a b];a::E;...},
            is turned into a function and called with every argument tuple of its arity through every call form:
            {..}(a;b)   f::{..};f(a;b)   f@[a b]   f@a   f'L   L f'L   f/L   a f/L   recursion through .f .
            ORACLE = textual substitution: the expected outcome of a call is the outcome of the body text in which
            x, y, z are replaced by the parenthesised literal of the (already evaluated) argument, evaluated by the
            same interpreter at top level.  The harness knows no Klong semantics beyond that.  If the substituted
            body raises, the call must raise too (class not compared); otherwise the canonical values must be equal.
            After every call the non-system variables and the context depth must be what they were before.
            Adverbs are observed twice: through the assembled result (the expected list is assembled by the
            interpreter itself from the literals of the element results) and through a logging verb
            fc = {rec(<body>)} (rec = Python callable that records its argument), which shows every single
            application whatever the adverb does with the results.  Recursion is also entered from another
            function's frame (w), and the leaf bodies are called as the whole body of a nilad ({f(a;b)}()).
            The full product "<= 3 nodes x all tuples over 6 values x all forms" is ~10^9 evaluations; the layers
            actually enumerated (each one completely) are listed in coverage.bounds.
            Triage aids (never part of a verdict): a disagreement is re-run in a freshly loaded interpreter and
            with the expression compiler switched off; disagreements caused by the compiled fast path (C05's
            subject) are listed once per function body.
(b) PROJECT every fill plan of a dyad / triad: an ordered sequence of disjoint position sets (intermediate steps are
            projections bound to variables p1, p2, ..., the last step is the call), any hole order, with and without
            "fill nothing" steps, for the non-commutative bodies {x-y} {x-y-z} {x,y,z}.  Same oracle.
(c) FAULT   a Python callable boom() that raises replaces every sub-expression position of every body of (a) with
            <= 2 nodes; the body runs inside 1, 2, 3 nested calls whose frames declare locals (one named like a
            global) and increment an existing global on the way down.  Afterwards: (i) snapshot of all non-system
            variables == pre-call snapshot except the deliberate global increments, (ii) context depth == pre-call
            depth, (iii) a battery of follow-up programs gives the same outcomes in this interpreter and in a fresh
            twin that was loaded with the pre-call state and never made the call.
(d) COND    :[c;A;B] and :[c1;A:|c2;B;C] for c over the truth universe in three placements (literal, variable,
            parameter); A, B, C are logging Python callables; exactly the selected branch may run and its value is
            the value of the conditional.  Klong truth: 0, [] and "" are false, everything else is true.

"The function's arity" is the reference's: the highest of x, y, z that occurs (so {y} is a dyad).
"""
import itertools
import json
import random
import time
import warnings

import numpy as np

from klongpy import KlongInterpreter
from mc import runner
from mc.values import I, R, S, L, cn, norm, lit, plit, show, has_literal, outcome, show_outcome

warnings.simplefilter('ignore')
np.seterr(all='ignore')

PID = 'C03'
PARAMS = ('x', 'y', 'z')
LEAVES = ('x', 'y', 'z', '1', '2', '[1 2]', 'g')
OPS = ('+', '-', '*', ',', '#', '@')
G_SETUP = 'g::[5 6 7]'
BOOM = 'boom()'

U6 = (I(0), I(3), I(-2), R(1.5), L(I(1), I(2), I(3)), S('ab'))
U3 = (I(-2), L(I(1), I(2), I(3)), S('ab'))
U2 = (I(-2), L(I(1), I(2), I(3)))

# restricted grammar for the deepest layer of the thorough tier
LEAVES_R = ('x', 'y', 'z', 'g')
MON_R = ('-', '#')
DY_R = ('-', ',', '@')


# ---------------------------------------------------------------------------------------------
# harness-side AST: ('L', text) | ('M', op, t) | ('D', op, l, r)

def render(t, sub=None):
    k = t[0]
    if k == 'L':
        if sub is not None and t[1] in sub:
            return sub[t[1]]
        return t[1]
    if k == 'M':
        return t[1] + _operand(t[2], sub)
    return _operand(t[2], sub) + t[1] + _operand(t[3], sub)


def _operand(t, sub):
    s = render(t, sub)
    return s if t[0] == 'L' else '(' + s + ')'


def leaves_of(t):
    if t[0] == 'L':
        return [t[1]]
    if t[0] == 'M':
        return leaves_of(t[2])
    return leaves_of(t[2]) + leaves_of(t[3])


def arity_of(t):
    ls = leaves_of(t)
    return max([PARAMS.index(p) + 1 for p in PARAMS if p in ls] or [0])


def nodes_of(t):
    if t[0] == 'L':
        return 0
    if t[0] == 'M':
        return 1 + nodes_of(t[2])
    return 1 + nodes_of(t[2]) + nodes_of(t[3])


def gen_trees(n, leaves, mon, dy, _memo=None):
    """All trees with exactly n operator nodes."""
    memo = {} if _memo is None else _memo
    if n in memo:
        return memo[n]
    if n == 0:
        out = [('L', s) for s in leaves]
    else:
        out = []
        sub = gen_trees(n - 1, leaves, mon, dy, memo)
        for op in mon:
            for t in sub:
                out.append(('M', op, t))
        for op in dy:
            for i in range(n):
                for l in gen_trees(i, leaves, mon, dy, memo):
                    for r in gen_trees(n - 1 - i, leaves, mon, dy, memo):
                        out.append(('D', op, l, r))
    memo[n] = out
    return out


def fault_trees(max_nodes):
    """Every body of (a) with <= max_nodes nodes with boom() put at every sub-expression position = every tree with
    <= max_nodes nodes over leaves + boom() that contains boom() exactly once (replacing an inner node removes its
    subtree, which gives a smaller tree of the same family)."""
    memo = {}
    out = []
    for n in range(max_nodes + 1):
        for t in gen_trees(n, LEAVES + (BOOM,), OPS, OPS, memo):
            if leaves_of(t).count(BOOM) == 1:
                out.append(t)
    return out


# ---------------------------------------------------------------------------------------------
# body descriptions: plain trees and local-declaring templates

LOCAL_TEMPLATES = {
    # name: (function text, oracle statements, extra arity) ; %s = body expression
    'T1': ('{[a];a::%s;a}', 'a::%s;a', 0),
    'T2': ('{[a b];a::%s;b::a,a;b}', 'a::%s;b::a,a;b', 0),
    'T3': ('{[a b];b::%s;a}', 'b::%s;a', 0),
    'T4': ('{[x];%s}', '%s', 1),
    'T5': ('{[a y];a::%s;a,y}', 'a::%s;a,Y', 2),
    'T6': ('{[a];a::%s;a::a,1;a}', 'a::%s;a::a,1;a', 0),
}


LOCAL_TEMPLATES_DEEP = ('T1', 'T5')       # templates used with the 2-node bodies (thorough tier)


class Body:
    __slots__ = ('tree', 'tmpl', 'n', 'fn', 'local')

    def __init__(self, tree, tmpl=None):
        self.tree, self.tmpl = tree, tmpl
        e = render(tree)
        if tmpl is None:
            self.fn = '{' + e + '}'
            self.n = arity_of(tree)
            self.local = False
        else:
            ft, _, extra = LOCAL_TEMPLATES[tmpl]
            self.fn = ft % e
            self.n = max(arity_of(tree), extra)
            self.local = True

    def oracle_text(self, args):
        sub = {p: plit(a) for p, a in zip(PARAMS, args)}
        e = render(self.tree, sub)
        if self.tmpl is None:
            return e
        return (LOCAL_TEMPLATES[self.tmpl][1] % e).replace('Y', sub.get('y', 'y'))

    def rec_fn(self):
        """Recursion through .f with a decreasing counter held in the first parameter the body does not use; the
        other arguments are handed down (swapped for a dyad, so an odd counter yields the body at swapped args)."""
        if self.local or self.n > 2:
            return None
        e = render(self.tree)
        return ('{:[x;.f(x-1);%s]}', '{:[y;.f(x;y-1);%s]}', '{:[z;.f(y;x;z-1);%s]}')[self.n] % e


# ---------------------------------------------------------------------------------------------
# small helpers around the interpreter

def is_fnlike(v):
    return callable(v) or type(v).__name__ in ('KGFn', 'KGCall', 'KGLambda', 'KGFnWrapper')


def snapshot(k, with_ids=True):
    """Canonical snapshot of all non-system variables (all scopes in front of the two system scopes, front wins) and
    the context depth."""
    scopes = list(k._context._context)
    seen = {}
    for d in scopes[:-2]:
        for key, v in d.items():
            name = str(key)
            if name not in seen:
                seen[name] = (cn(v), id(v) if (with_ids and is_fnlike(v)) else None)
    return len(scopes), tuple(sorted(seen.items()))


def show_snapshot(s):
    return 'depth=%d ' % s[0] + ' '.join('%s=%s' % (n, show(c)) for n, (c, _) in s[1])


_LIST_INTERP = None
_ELEMS = {}


def elems_of(list_text):
    """Elements of an evaluated list literal (the 'already evaluated arguments' of the list-taking call forms)."""
    global _LIST_INTERP
    r = _ELEMS.get(list_text)
    if r is None:
        if _LIST_INTERP is None:
            _LIST_INTERP = KlongInterpreter()
        c = cn(_LIST_INTERP(list_text))
        if c[0] == 's':
            r = tuple(('c', ch) for ch in c[1])
        else:
            assert c[0] == 'l', (list_text, c)
            r = c[1]
        _ELEMS[list_text] = r
    return r


def list_lit(vals):
    return '[' + ' '.join(lit(v) for v in vals) + ']'


def loosen(c):
    """Comparison modulo 'a list of characters may be a string' (only used where the harness assembles a list itself:
    adverb results)."""
    t = c[0]
    if t in 'cy':
        return ('s', c[1])
    if t == 'l':
        el = tuple(loosen(e) for e in c[1])
        if el and all(e[0] == 's' and len(e[1]) == 1 for e in el):
            return ('s', ''.join(e[1] for e in el))
        return ('l', el)
    return c


def agree(exp, obs, loose=False):
    if exp[0] == 'exc':
        return obs[0] == 'exc'
    if obs[0] != 'ok':
        return False
    if loose:
        return loosen(exp[1]) == loosen(obs[1])
    return exp[1] == obs[1]


def snippet_for(programs, boom=False, cond=False, collector=False):
    lines = ['from klongpy import KlongInterpreter', 'k = KlongInterpreter()']
    if boom:
        lines += ['def boom():', '    raise RuntimeError("boom")', "k['boom'] = boom"]
    if collector:
        lines += ['log = []', "k['rec'] = lambda x: (log.append(x), 0)[1]"]
    if cond:
        lines += ['log = []',
                  "k['la'] = lambda: (log.append('A'), 11)[1]",
                  "k['lb'] = lambda: (log.append('B'), 22)[1]",
                  "k['lc'] = lambda: (log.append('C'), 33)[1]"]
    lines.append('for p in %r:' % (list(programs),))
    lines += ['    try:', '        print(p, "->", k(p))', '    except Exception as e:',
              '        print(p, "-> EXC", type(e).__name__, e)']
    if cond:
        lines.append('print("branches run:", log)')
    if collector:
        lines.append('print("values produced by the applications of the verb:", log)')
    lines.append('print("depth", len(k._context._context))')
    return '\n'.join(lines)


class Stats:
    def __init__(self):
        self.d = {'violations': [], 'evals': 0, 'calls': 0, 'states': 0, 'outcomes': set(), 'samples': [],
                  'by_form': {}, 'skipped_no_literal': 0}

    def form(self, name):
        self.d['by_form'][name] = self.d['by_form'].get(name, 0) + 1

    def violation(self, key, observed, expected, case, snippet, group):
        self.d['violations'].append(dict(key=key, observed=observed, expected=expected, case=case, snippet=snippet,
                                         group=group))


# ---------------------------------------------------------------------------------------------
# part (a)

LOCAL_GLOBALS = 'a::100;b::200'


def without_compiler(fn):
    """Run fn() with klongpy's expression compiler switched off (triage aid only: tells whether a disagreement comes
    from the compiled fast path rather than from function application)."""
    import klongpy.interpreter as ki
    old = ki.compile_expr
    ki.compile_expr = lambda *a, **kw: None
    try:
        return fn()
    finally:
        ki.compile_expr = old


def classify_apply(form, body, exp, obs):
    if form == 'each2':
        return 'each2-result-assembly'
    if form == 'call-is-whole-body' and obs == ('exc', 'TypeError') and exp[0] == 'ok':
        return 'fn-whose-body-is-a-call-with-list-literal-cannot-be-defined'
    if obs[0] == 'ok' and obs[1][0] == 'fn' and exp[0] == 'ok' and exp[1][0] != 'fn':
        return 'call-returns-function'
    if exp[0] == 'exc' and obs[0] == 'ok':
        return 'call-succeeds-where-body-raises'
    if exp[0] == 'ok' and obs[0] == 'exc':
        return 'call-raises-where-body-has-value'
    return 'call-value-differs'


def check_body(body, univ, opts, st):
    setup = [G_SETUP] + ([LOCAL_GLOBALS] if body.local else [])
    define = 'f::' + body.fn
    rec = body.rec_fn() if opts.get('rec') else None
    programs = setup + [define] + (['r::' + rec, 'w::{r(%s+1)}' % ';'.join(PARAMS[:body.n + 1])] if rec else [])
    collect = opts.get('adverbs') and body.n in (1, 2)
    if collect:
        # fc = f with its result expression wrapped in rec(...): a Python callable that logs the value it is given and
        # returns 0, so every single application made by an adverb is observed, whatever the adverb does with results
        inner = body.fn[1:-1]
        head, sep, last = inner.rpartition(';')
        programs.append('fc::{' + head + sep + 'rec(' + last + ')}')
    log = []
    hist = []           # every text evaluated in the current interpreter since it was loaded (for replay)

    def load_fresh():
        kk = KlongInterpreter()
        if collect:
            kk['rec'] = lambda x: (log.append(x), 0)[1]        # fresh interpreter, fresh name: stored wrapped
        for p in programs:
            kk(p)
        return kk

    def fresh():
        del hist[:]
        return load_fresh()

    try:
        k = fresh()
    except Exception as e:      # noqa: BLE001
        st.violation(';'.join(programs), 'exc:' + type(e).__name__, 'definition succeeds',
                     dict(part='a', programs=programs), snippet_for(programs), 'definition-raises')
        return
    if body.local:
        ko = KlongInterpreter()
        ko(G_SETUP)
    else:
        ko = None
    base = snapshot(k)
    memo = {}
    box = {'k': k}

    def execute(text):
        kk = box['k']
        del log[:]
        hist.append(text)
        obs = outcome(lambda: kk(text))
        st.d['evals'] += 1
        return obs, [cn(v) for v in log]

    def oracle(args):
        o = memo.get(args)
        if o is None:
            text = body.oracle_text(args)
            if ko is not None:
                for nm in ('a', 'b'):
                    try:
                        del ko[nm]
                    except KeyError:
                        pass
                o = outcome(lambda: ko(text))
                st.d['evals'] += 1
            else:
                o = execute(text)[0]
                if snapshot(box['k']) != base:      # the substituted body itself must not disturb anything either
                    box['k'] = fresh()
            st.d['states'] += 1
            st.d['outcomes'].add(hash(o))
            memo[args] = (o, text)
            o = memo[args]
        return o

    def diagnose(text, ok_fn):
        """A disagreement was seen after the calls in hist.  Returns (history needed to reproduce it, root-cause hint):
        re-run the one call in a freshly loaded interpreter, and with the expression compiler switched off."""
        before = hist[:-1]

        def once(history):
            k2 = load_fresh()
            for h in history:
                outcome(lambda: k2(h))
            del log[:]
            o = outcome(lambda: k2(text))
            return ok_fn(o, [cn(v) for v in log])
        if not once([]):
            return [], ('compiled-path-differs' if without_compiler(lambda: once([])) else None)
        if once(before):
            return before, 'not-reproducible'
        return before, ('stale-compiled-memo' if without_compiler(lambda: once(before)) else 'depends-on-earlier-calls')

    compiler_seen = {}

    def report(form, text, observed, expected, group, ok_fn, oracle_prog, collector):
        if 'RecursionError' in observed:
            history, hint = hist[:-1], None         # re-running a runaway recursion three times is not worth it
        else:
            history, hint = diagnose(text, ok_fn)
        if hint in ('stale-compiled-memo', 'compiled-path-differs'):
            # root cause outside function application (C05's subject): reported once per function body and kind,
            # the first in enumeration order; later ones of the same body are counted in that report's case
            first = compiler_seen.get(hint)
            if first is not None:
                first['case']['further_disagreements_of_this_kind_same_body'] += 1
                st.d['compiler_related_not_listed'] = st.d.get('compiler_related_not_listed', 0) + 1
                return
        progs = programs + history + [text]
        key = ';'.join(programs + [text]) + (' [after %d earlier evaluations]' % len(history) if history else '')
        st.violation(key, observed, expected,
                     dict(part='a', form=form, programs=progs, oracle=oracle_prog, collector=bool(collect), hint=hint),
                     snippet_for(progs + ([oracle_prog] if oracle_prog else []), collector=bool(collect)),
                     hint or group)
        if hint in ('stale-compiled-memo', 'compiled-path-differs'):
            compiler_seen[hint] = st.d['violations'][-1]
            compiler_seen[hint]['case']['further_disagreements_of_this_kind_same_body'] = 0

    def check_state(form, text):
        after = snapshot(box['k'])
        if after != base:
            key = ';'.join(programs + [text])
            st.violation(key + ' [state]', show_snapshot(after), show_snapshot(base),
                         dict(part='a', form=form, programs=programs + hist, what='snapshot/depth after the call',
                              collector=bool(collect)),
                         snippet_for(programs + hist + [nm for nm, _ in base[1]], collector=bool(collect)),
                         'state-not-restored-after-call')
            box['k'] = fresh()

    def run_call(form, text, exp, exp_text, loose=False, oracle_prog=None):
        obs, _ = execute(text)
        st.d['calls'] += 1
        st.form(form)
        if not agree(exp, obs, loose):
            oprog = oracle_prog if oracle_prog is not None else (None if body.local else exp_text)
            report(form, text, show_outcome(obs), show_outcome(exp) + '  (= ' + exp_text + ')',
                   classify_apply(form, body, exp, obs), lambda o, g: agree(exp, o, loose), oprog, False)
        check_state(form, text)
        if len(st.d['samples']) < 2:
            st.d['samples'].append([';'.join(programs + [text]), show_outcome(obs),
                                    'oracle ' + exp_text + ' -> ' + show_outcome(exp)])
        return obs

    n = body.n
    tuples = list(itertools.product(univ, repeat=n))
    for args in tuples:
        exp, etext = oracle(args)
        alist = ';'.join(lit(a) for a in args)
        if opts.get('direct', True):
            run_call('direct', body.fn + '(' + alist + ')', exp, etext)
        run_call('variable', 'f(' + alist + ')', exp, etext)
        # f@[a b c]: the arguments are the elements of the evaluated list
        ltext = list_lit(args)
        ev = elems_of(ltext)
        if len(ev) == n:
            e2, t2 = oracle(ev)
            run_call('apply-list', 'f@' + ltext, e2, t2)
        if n == 1 and args[0][0] in 'ir':
            run_call('apply-atom', 'f@' + plit(args[0]), exp, etext)
        if opts.get('whole_body_call') and nodes_of(body.tree) == 0 and not body.local:
            # a function whose whole body is the call (arity inference has a separate branch for this shape)
            run_call('call-is-whole-body', '{f(' + alist + ')}()', exp, etext)
        if rec:
            for cnt in opts['rec_counts']:
                if n == 2:
                    want = args if cnt % 2 == 0 else (args[1], args[0])
                else:
                    want = args
                e3, t3 = oracle(want)
                call = 'r(' + ';'.join([lit(a) for a in args] + [str(cnt)]) + ')'
                run_call('recursion', call, e3, '%s after %d levels of .f' % (t3, cnt), oracle_prog=t3)
                if cnt == opts['rec_counts'][-1]:
                    # the same from inside another function's frame: .f must be the function being executed
                    # w adds 1 to the counter, so it is not interchangeable with r
                    want = args if (n != 2 or (cnt + 1) % 2 == 0) else (args[1], args[0])
                    e4, t4 = oracle(want)
                    run_call('recursion-from-function', 'w' + call[1:], e4,
                             '%s after %d levels of .f, entered from the frame of w' % (t4, cnt + 1), oracle_prog=t4)

    def run_apps(form, text, arg_tuples):
        """Adverb with the logging verb fc: the sequence of values produced by the single applications must be the
        sequence of the substituted bodies' values; if one of those raises, the adverb expression must raise."""
        want, texts, raises = [], [], False
        for at in arg_tuples:
            e, t = oracle(at)
            texts.append(t)
            if e[0] == 'exc':
                raises = True
                break
            want.append(e[1])
        obs, got = execute(text)
        st.d['calls'] += 1
        st.form(form)

        def ok_fn(o, g):
            return (o[0] == 'exc') if raises else (o[0] == 'ok' and g == want)
        if not ok_fn(obs, got):
            observed = ('exc:' + obs[1] if obs[0] == 'exc' else 'ok') + ' applications=[' + \
                ' ; '.join(show(v) for v in got) + ']'
            expected = ('raises' if raises else 'ok applications=[' + ' ; '.join(show(v) for v in want) + ']') + \
                '  (= values of ' + ' ; '.join(texts) + ')'
            group = 'adverb-call-succeeds-where-body-raises' if raises else 'adverb-application-differs'
            report(form, text, observed, expected, group, ok_fn, None, True)
        check_state(form, text)

    # adverbs: the verb is applied to the elements of evaluated lists
    if opts.get('adverbs') and n == 1:
        for vals in (univ, univ[::-1]):
            ltext = list_lit(vals)
            tups = [(e,) for e in elems_of(ltext)]
            run_adverb(st, run_call, oracle, 'each', "f'" + ltext, tups)
            run_apps('each-applications', "fc'" + ltext, tups)
    if opts.get('adverbs') and n == 2:
        m = len(univ)
        for rot in range(m):
            lt, rt = list_lit(univ), list_lit(univ[rot:] + univ[:rot])
            tups = list(zip(elems_of(lt), elems_of(rt)))
            if opts.get('each2_assembled'):
                run_adverb(st, run_call, oracle, 'each2', lt + "f'" + rt, tups)
            run_apps('each2-applications', lt + "fc'" + rt, tups)
        for a, b in itertools.product(univ, repeat=2):
            ltext = list_lit((a, b))
            ev = elems_of(ltext)
            e2, t2 = oracle(ev)
            run_call('over', 'f/' + ltext, e2, t2)
        if opts.get('over3'):
            for a, b, c in itertools.product(univ, repeat=3):
                # f/[a b c] = f(f(a;b);c) ; a f/[b c] the same with a as the initial value
                for form, text, seq in (('over3', 'f/' + list_lit((a, b, c)), elems_of(list_lit((a, b, c)))),
                                        ('over-init', plit(a) + 'f/' + list_lit((b, c)),
                                         (a,) + tuple(elems_of(list_lit((b, c)))))):
                    e1, t1 = oracle((seq[0], seq[1]))
                    if e1[0] == 'exc':
                        run_call(form, text, e1, t1)
                        continue
                    if not has_literal(e1[1]):
                        st.d['skipped_no_literal'] += 1
                        continue
                    e2, t2 = oracle((e1[1], seq[2]))
                    run_call(form, text, e2, t2)


_ASSEMBLED = {}


def assemble(vals):
    """Expected result list of an adverb: the element results (each obtained by substitution) are put into a list BY
    THE INTERPRETER ([;v1;v2;...] over their literals), so how klongpy represents a list of results is not the
    harness's business.  Falls back to a harness-built list (compared loosely) if an element has no literal."""
    if all(has_literal(v) for v in vals):
        text = '[;' + ';'.join(plit(v) for v in vals) + ']'
        r = _ASSEMBLED.get(text)
        if r is None:
            elems_of('[]')
            r = _ASSEMBLED[text] = outcome(lambda: _LIST_INTERP(text))
        return r, text, False
    return ('ok', norm(('l', tuple(vals)))), None, True


def run_adverb(st, run_call, oracle, form, text, arg_tuples):
    vals, texts = [], []
    for at in arg_tuples:
        e, t = oracle(at)
        texts.append(t)
        if e[0] == 'exc':
            run_call(form, text, e, t)
            return
        vals.append(e[1])
    exp, atext, loose = assemble(vals)
    st.d['evals'] += 1
    how = 'list of the values of ' + ' ; '.join(texts) + (' assembled as ' + atext if atext else '')
    run_call(form, text, exp, how, loose=loose, oracle_prog=atext or '')


def body_items(cfg):
    """Work items of part (a): (tree, template, universe id, options id)."""
    memo = {}
    items = []
    for n in range(2):
        for t in gen_trees(n, LEAVES, OPS, OPS, memo):
            items.append((t, None, 'U6', 'full3'))
    for t in gen_trees(2, LEAVES, OPS, OPS, memo):
        if cfg.quick:
            items.append((t, None, 'U2', 'fullq'))
        else:
            items.append((t, None, 'U6' if arity_of(t) <= 2 else 'U3', 'full'))
    if not cfg.quick:
        rmemo = {}
        for t in gen_trees(3, LEAVES_R, MON_R, DY_R, rmemo):
            items.append((t, None, 'U2', 'full'))
    # local-declaring bodies
    for n in range(2):
        for t in gen_trees(n, LEAVES, OPS, OPS, memo):
            for tm in sorted(LOCAL_TEMPLATES):
                items.append((t, tm, cfg.pick('U3', 'U6'), 'local'))
    if not cfg.quick:
        for t in gen_trees(2, LEAVES, OPS, OPS, memo):
            for tm in LOCAL_TEMPLATES_DEEP:
                items.append((t, tm, 'U2', 'local'))
    return items


UNIV = {'U6': U6, 'U3': U3, 'U2': U2}
OPTS = {
    'full3': dict(rec=True, rec_counts=(0, 1, 2), adverbs=True, over3=True, each2_assembled=True,
                  whole_body_call=True),
    'full': dict(rec=True, rec_counts=(1, 2), adverbs=True, over3=False),
    'fullq': dict(rec=True, rec_counts=(1, 2), adverbs=True, over3=False),
    'local': dict(rec=False, adverbs=True, over3=False),
}


VIOLATION_CAP = 300     # per worker chunk and part: beyond it the rest of the chunk is skipped (the check has failed
                        # massively anyway; keeps a badly broken tree from taking hours); never reached on the pinned tree
_VCOUNT = None          # shared counter of violations over all workers (created before the fork)
_VLIMIT = 0             # beyond it every worker skips its remaining items


def _over_budget(st):
    if len(st.d['violations']) >= VIOLATION_CAP:
        return True
    return _VCOUNT is not None and _VCOUNT.value >= _VLIMIT


def _account(st, before):
    if _VCOUNT is not None and len(st.d['violations']) > before:
        with _VCOUNT.get_lock():
            _VCOUNT.value += len(st.d['violations']) - before


def work_apply(chunk):
    st = Stats()
    for tree, tmpl, u, o in chunk:
        if _over_budget(st):
            st.d['capped_items'] = st.d.get('capped_items', 0) + 1
            continue
        nv = len(st.d['violations'])
        body = Body(tree, tmpl)
        try:
            with runner.watchdog(120):
                check_body(body, UNIV[u], OPTS[o], st)
        except runner.CaseTimeout:
            st.violation(G_SETUP + ';f::' + body.fn + ' [all call forms]', 'did not terminate', 'terminates',
                         dict(part='a', programs=[G_SETUP, 'f::' + body.fn]), None, 'hang')
        _account(st, nv)
    st.d['bodies'] = len(chunk)
    return st.d


# ---------------------------------------------------------------------------------------------
# part (b): projections

def fill_plans(n, max_empty):
    """All sequences S1..Sk of disjoint subsets of positions 0..n-1 whose union is everything; the last is non-empty
    (the call), at most max_empty intermediate steps are empty (a projection that fills nothing: f(;;), p(;) - only
    written while at least two holes are open, because p() is a call, not a projection)."""
    out = []

    def rec(remaining, steps, empties):
        rem = sorted(remaining)
        # final step: fill everything that is left
        if rem:
            out.append(steps + [tuple(rem)])
        # intermediate step: a proper subset (possibly empty)
        for r in range(0, len(rem)):
            for sub in itertools.combinations(rem, r):
                if not sub and (empties >= max_empty or len(rem) < 2):
                    continue
                rec(remaining - set(sub), steps + [tuple(sub)], empties + (0 if sub else 1))

    rec(set(range(n)), [], 0)
    return out


def plan_programs(fn, n, plan, vals):
    """Program texts of one fill plan. Open holes are addressed in position order at every step."""
    progs = ['f::' + fn]
    open_pos = list(range(n))
    cur = 'f'
    for i, step in enumerate(plan):
        slots = [lit(vals[p]) if p in step else '' for p in open_pos]
        last = i == len(plan) - 1
        text = cur + '(' + ';'.join(slots) + ')'
        if last:
            progs.append(text)
        else:
            nm = 'p%d' % (i + 1)
            progs.append(nm + '::' + text)
            cur = nm
            open_pos = [p for p in open_pos if p not in step]
    return progs


PROJ_BODIES = (('{x-y}', 2, ('D', '-', ('L', 'x'), ('L', 'y'))),
               ('{x-y-z}', 3, ('D', '-', ('L', 'x'), ('D', '-', ('L', 'y'), ('L', 'z')))),
               ('{x,y,z}', 3, ('D', ',', ('L', 'x'), ('D', ',', ('L', 'y'), ('L', 'z')))))


def proj_render(tree, sub):
    # {x-y-z} is written without parentheses in the function text (Klong groups to the right); the oracle text is
    # generated from the same right-nested tree with explicit parentheses.
    return render(tree, sub)


def proj_items(cfg):
    items = []
    max_empty = cfg.pick(1, 2)
    base = (I(10), I(3), I(2))
    rots = [tuple(U6[(i + j) % 6] for j in range(3)) for i in range(6)]
    for fn, n, tree in PROJ_BODIES:
        tuples = [base[:n]] + ([] if cfg.quick else [r[:n] for r in rots])
        for plan in fill_plans(n, max_empty):
            items.append((fn, n, tree, plan, tuples))
    return items


def classify_proj(plan, obs):
    steps = len(plan)
    if obs[0] == 'ok' and obs[1][0] == 'fn':
        return 'projection-%d-steps-returns-function' % steps
    if obs == ('exc', 'ValueError'):
        return 'projection-with-list-argument-raises'
    return 'projection-%d-steps-none-reaches-body' % steps


def work_proj(chunk):
    st = Stats()
    for fn, n, tree, plan, tuples in chunk:
        for vals in tuples:
            progs = plan_programs(fn, n, plan, vals)
            k = KlongInterpreter()
            etext = proj_render(tree, {p: plit(v) for p, v in zip(PARAMS, vals)})
            exp = outcome(lambda: k(etext))
            base_depth = len(k._context._context)

            def seq():
                r = None
                for p in progs:
                    r = k(p)
                return r
            with runner.watchdog(20):
                obs = outcome(seq)
            st.d['evals'] += 1 + len(progs)
            st.d['calls'] += len(progs)
            st.d['states'] += 1
            st.form('projection-%d-steps' % len(plan))
            st.d['outcomes'].add(hash(obs))
            key = ';'.join(progs)
            if not agree(exp, obs):
                st.violation(key, show_outcome(obs), show_outcome(exp) + '  (= ' + etext + ')',
                             dict(part='b', programs=progs, oracle=etext, plan=[list(s) for s in plan]),
                             snippet_for(progs + [etext]), classify_proj(plan, obs))
            if len(k._context._context) != base_depth:
                st.violation(key + ' [depth]', 'depth=%d' % len(k._context._context), 'depth=%d' % base_depth,
                             dict(part='b', programs=progs), snippet_for(progs), 'state-not-restored-after-call')
            if len(st.d['samples']) < 1:
                st.d['samples'].append([key, show_outcome(obs), 'oracle ' + etext + ' -> ' + show_outcome(exp)])
    return st.d


# ---------------------------------------------------------------------------------------------
# part (c): failure injection

def _boom():
    raise RuntimeError('boom')


FAULT_GLOBALS = 'a::100;b::200;c::300;n::0;' + G_SETUP
LEVELS = (
    'f1::{[a b];n::n+1;a::x;b::y,z;%s}',
    'f2::{[a c];n::n+1;a::y;c::f1(x;y;z);a::c;c}',
    'f3::{[b d];n::n+1;b::z;d::f2(x;y;z);b,d}',
)
BATTERY = (
    'a', 'b,c', 'g', 'n', 'd', 'x',
    'f1(1;2;3)',
    '{[a];a::x;a*2}(21)',
    'a::a+1;a',
    'h::{[q];q::x;q+a};h(1)',
    'p::{x-y}(;2);p(10)',
    '{x+y}/[1 2 3]',
    ':[a;"t";"f"]',
    'f2(1;2;3)',
    'q',
)


def fault_setup(ftext):
    return [FAULT_GLOBALS, LEVELS[0] % ftext, LEVELS[1], LEVELS[2]]


def load(programs, boom=True):
    k = KlongInterpreter()
    if boom:
        k['boom'] = _boom                # fresh interpreter, fresh name: stored wrapped (callable from Klong)
    for p in programs:
        k(p)
    return k


def twin_battery(setup, depth):
    """The follow-up battery in a fresh interpreter loaded with the pre-call state (+ the deliberate increments of the
    global n) that never makes the failing call.  It does not depend on the arguments of the failing call."""
    twin = load(setup + ['n::%d' % depth])
    rb = [outcome(lambda: twin(p)) for p in BATTERY]
    return rb, snapshot(twin, with_ids=False)


def check_fault(ftree, depth, args, st, twin=None):
    ftext = render(ftree)
    setup = fault_setup(ftext)
    call = 'f%d(%s)' % (depth, ';'.join(lit(a) for a in args))
    k = load(setup)
    pre = snapshot(k)
    obs = outcome(lambda: k(call))
    post = snapshot(k)
    st.d['evals'] += 1
    st.d['calls'] += 1
    st.d['states'] += 1
    st.form('fault-depth-%d' % depth)
    st.d['outcomes'].add(hash(obs))
    key = ';'.join(setup + [call])
    case = dict(part='c', programs=setup + [call], depth=depth)
    # (i)+(ii): snapshot and depth, the deliberate increments of the existing global n apart
    want_vars = tuple((nm, ((('i', depth), None) if nm == 'n' else v)) for nm, v in pre[1])
    if obs[0] == 'ok':
        # the call got through without reaching boom (cannot happen in this grammar) - still must leave no trace
        pass
    if post[0] != pre[0]:
        st.violation(key + ' [depth]', 'depth=%d after %s' % (post[0], show_outcome(obs)), 'depth=%d' % pre[0], case,
                     snippet_for(setup + [call], boom=True), 'frame-not-popped-after-failure')
    if post[1] != want_vars:
        st.violation(key + ' [snapshot]', show_snapshot(post), show_snapshot((pre[0], want_vars)), case,
                     snippet_for(setup + [call] + [nm for nm, _ in pre[1]], boom=True),
                     'variables-changed-after-failure')
    # (iii): follow-up battery here and in a twin that never made the call
    if twin is None:
        twin = twin_battery(setup, depth)
        st.d['evals'] += len(BATTERY)
    rb, fb = twin
    ra = [outcome(lambda: k(p)) for p in BATTERY]
    st.d['evals'] += len(BATTERY)
    fa = snapshot(k, with_ids=False)
    if ra != rb or fa != fb:
        diffs = [(p, show_outcome(x), show_outcome(y)) for p, x, y in zip(BATTERY, ra, rb) if x != y]
        if fa != fb:
            diffs.append(('final state', show_snapshot(fa), show_snapshot(fb)))
        st.violation(key + ' [follow-up]', '; '.join('%s -> %s' % (p, x) for p, x, _ in diffs),
                     '; '.join('%s -> %s' % (p, y) for p, _, y in diffs),
                     dict(case, battery=list(BATTERY)), snippet_for(setup + [call] + list(BATTERY), boom=True),
                     'follow-up-differs-after-failure')
    if len(st.d['samples']) < 1:
        st.d['samples'].append([key, show_outcome(obs), 'then ' + show_snapshot(post)])


FAULT_TUPLES_Q = ((I(-2), L(I(1), I(2), I(3)), S('ab')), (I(3), R(1.5), I(0)))
FAULT_TUPLES_T = FAULT_TUPLES_Q + ((L(I(1), I(2), I(3)), S('ab'), R(1.5)),)


def fault_items(cfg):
    """(fault body, nesting depth, argument tuples).  Quick: bodies with 2 nodes only at depth 3 (the deepest nest runs
    through the frames of the shallower ones); thorough: every body at every depth."""
    items = []
    for t in fault_trees(2):
        for d in (1, 2, 3):
            if cfg.quick and nodes_of(t) == 2:
                if d == 3:
                    items.append((t, d, FAULT_TUPLES_Q[:1]))
                continue
            items.append((t, d, FAULT_TUPLES_Q if cfg.quick else FAULT_TUPLES_T))
    return items


def work_fault(chunk):
    st = Stats()
    for ftree, depth, tuples in chunk:
        if _over_budget(st):
            st.d['capped_items'] = st.d.get('capped_items', 0) + 1
            continue
        nv = len(st.d['violations'])
        try:
            with runner.watchdog(60):
                twin = twin_battery(fault_setup(render(ftree)), depth)
                st.d['evals'] += len(BATTERY)
                for args in tuples:
                    check_fault(ftree, depth, args, st, twin)
        except runner.CaseTimeout:
            st.violation(render(ftree) + ' depth %d [fault]' % depth, 'did not terminate', 'terminates',
                         dict(part='c', programs=fault_setup(render(ftree))), None, 'hang')
        _account(st, nv)
    return st.d


# ---------------------------------------------------------------------------------------------
# part (d): conditionals

TRUTH_LITERALS = ('0', '0.0', '[]', '""', '1', '-1', '0.5', '[0]', '"a"', '0c0', ':foo', ':{}', ':{[1 2]}', '{x}',
                  '[[]]', '[""]', '0c ')
TRUTH_COMPUTED = ('1-1', '1.5-1.5', '#[]', '[1 2]?3', '0#"ab"', '0#[1 2]', '*[0]', '*[0.0]', '&0', '[1 2]=[3 4]',
                  '1=2', '"a"="a"', '#"ab"', '-0.0')


def klong_false(c):
    """Klong truth by the property text: 0, [] and "" are false, everything else is true."""
    return (c[0] in 'ir' and c[1] == 0) or c == ('l', ()) or c == ('s', '')


def cond_items(cfg):
    conds = TRUTH_LITERALS + TRUTH_COMPUTED
    items = []
    for place in ('literal', 'variable', 'parameter'):
        for c in conds:
            items.append((place, (c,)))
        for c1 in conds:
            for c2 in conds:
                items.append((place, (c1, c2)))
    return items


def cond_programs(place, cs):
    two = len(cs) == 2
    if place == 'literal':
        e = [('(' + c + ')') for c in cs]
        pre = []
        tail = ''
    elif place == 'variable':
        pre = ['c%d::%s' % (i + 1, c) for i, c in enumerate(cs)]
        e = ['c1', 'c2'][:len(cs)]
        tail = ''
    else:
        pre = []
        e = ['x', 'y'][:len(cs)]
        tail = '(' + ';'.join(cs) + ')'
    if two:
        body = ':[%s;la():|%s;lb();lc()]' % (e[0], e[1])
    else:
        body = ':[%s;la();lb()]' % e[0]
    if place == 'parameter':
        return pre + ['{' + body + '}' + tail]
    return pre + [body]


def work_cond(chunk):
    st = Stats()
    k = KlongInterpreter()
    log = []
    k['la'] = lambda: (log.append('A'), 11)[1]
    k['lb'] = lambda: (log.append('B'), 22)[1]
    k['lc'] = lambda: (log.append('C'), 33)[1]
    kv = KlongInterpreter()          # evaluates the condition expressions on their own
    vals = {'A': 11, 'B': 22, 'C': 33}
    base_depth = len(k._context._context)
    for place, cs in chunk:
        truth = []
        for c in cs:
            truth.append(not klong_false(cn(kv(c))))
        if len(cs) == 1:
            want = 'A' if truth[0] else 'B'
        else:
            want = 'A' if truth[0] else ('B' if truth[1] else 'C')
        progs = cond_programs(place, cs)
        del log[:]

        def seq():
            r = None
            for p in progs:
                r = k(p)
            return r
        obs = outcome(seq)
        ran = ''.join(log)
        st.d['evals'] += len(progs) + len(cs)
        st.d['calls'] += 1
        st.d['states'] += 1
        st.form('cond-' + place)
        observed = show_outcome(obs) + ' branches=' + (ran or '-')
        st.d['outcomes'].add(hash(observed))
        expected = 'ok:%d branches=%s' % (vals[want], want)
        key = ';'.join(progs)
        if observed != expected:
            st.violation(key, observed, expected, dict(part='d', programs=progs, truth=truth),
                         snippet_for(progs, cond=True), 'conditional-wrong-branch')
        if len(k._context._context) != base_depth:
            st.violation(key + ' [depth]', 'depth=%d' % len(k._context._context), 'depth=%d' % base_depth,
                         dict(part='d', programs=progs), snippet_for(progs, cond=True),
                         'state-not-restored-after-call')
            raise runner.HarnessError('context depth changed by a conditional; shared interpreter unusable')
        if len(st.d['samples']) < 1:
            st.d['samples'].append([key, observed])
    return st.d


# ---------------------------------------------------------------------------------------------
# part (e): recursion through .f in functions that declare locals

# (function text, arity, expected value as a Python function of the arguments)  --  every frame of the recursion has its
# own locals: a local assigned before the recursive call still has its value after it; the globals a, b are untouched.
REC_LOCALS = [
    ('{[a];a::x;:[x>0;.f(x-1);0];a}', 1, lambda n: n),
    ('{[a];a::x*10;:[x>0;a+.f(x-1);a]}', 1, lambda n: sum(10 * i for i in range(n + 1))),
    ('{[a b];a::x;b::y;:[x>0;.f(x-1;y+1);0];a,b}', 2, lambda n, m: [n, m]),
    ('{[t];t::x;:[x>0;(.f(x-1)),t;,t]}', 1, lambda n: list(range(n + 1))),
    ('{[a];:[x>0;a::.f(x-1);a::0];a+x}', 1, lambda n: sum(range(n + 1))),
]


def rec_items(cfg):
    out = []
    for i, (fn, n, _) in enumerate(REC_LOCALS):
        for depth in range(cfg.pick(4, 7)):
            for via in ('direct', 'from-function'):
                out.append((i, depth, via))
    return out


def work_rec(chunk):
    st = Stats()
    for i, depth, via in chunk:
        fn, n, model = REC_LOCALS[i]
        args = (depth,) if n == 1 else (depth, 5)
        want = model(*args)
        k = KlongInterpreter()
        progs = [LOCAL_GLOBALS, 'r::' + fn, 'w::{[a];a::7;r(%s)}' % ';'.join('xyz'[:n])]
        call = ('r(%s)' if via == 'direct' else 'w(%s)') % ';'.join(str(a) for a in args)

        def seq():
            for p in progs:
                k(p)
            return k(call)
        base = None
        obs = outcome(seq)
        st.d['evals'] += len(progs) + 1
        st.d['calls'] += 1
        st.d['states'] += 1
        st.form('recursion-with-locals')
        glob = outcome(lambda: np.array([k('a'), k('b')]))
        observed = show_outcome(obs) + ' then a,b=' + show_outcome(glob)
        exp_v = cn(k2list(want))
        expected = 'ok:' + show(exp_v) + ' then a,b=ok:[100 200]'
        st.d['outcomes'].add(hash(observed))
        key = ';'.join(progs + [call])
        ok = obs == ('ok', exp_v) and glob == ('ok', cn(np.array([100, 200])))
        if not ok:
            st.violation(key, observed, expected, dict(part='e', programs=progs + [call]), snippet_for(progs + [call]),
                         'recursive-call-through-.f-shares-the-locals-of-its-caller')
    return st.d


# ---------------------------------------------------------------------------------------------
# part (f): the arguments of a projection are evaluated when the projection is made

# (programs, expected value of the last one): the fixed argument is a variable that is rebound, or a call with a side
# effect, between making the projection and filling its last hole; by substitution the projection stands for the body
# with the value the argument had when it was supplied
PROJ_TIME = [
    (['f::{x-y}', 'v::10', 'p::f(v;)', 'v::20', 'p(3)'], 7),
    (['f::{x-y}', 'v::10', 'p::f(;v)', 'v::20', 'p(3)'], -7),
    (['f::{x-y-z}', 'v::10', 'p::f(v;;)', 'v::20', 'q::p(1;)', 'q(2)'], 11),
    (['f::{x-y}', 'n::0', 'c::{n::n+1;n}', 'p::f(c();)', 'p(1)', 'p(1)', 'n'], 1),
    (['f::{x-y}', 'adder::{f(x;)}', 'q::adder(10)', 'q(3)'], 7),
]


# projections whose fixed argument is not a literal (a variable, an expression, a negative number, a parameter of the
# enclosing call), completed by an adverb or by @ instead of a direct call; expected values by substitution
PROJ_ADVERB = [
    (['f::{x+y}', 'a::10', "f(a;)'[1 2 3]"], [11, 12, 13]),
    (['f::{x+y}', "f(-1;)'[1 2 3]"], [0, 1, 2]),
    (['f::{x+y}', 'a::10', 'f(;a*2)@5'], 25),
    (['f::{x+y}', 'a::10', 'g::f(a;)', 'g@5'], 15),
    (['f::{x+y}', "{f(x;)'y}(10;[1 2 3])"], [11, 12, 13]),
    (['f::{x-y}', 'a::10', "[1 2 3]f(a;)'[1 2 3]"], None),          # a monad used as Each-2 verb: must raise or be a projection; not judged
    (['f::{x,y}', 'a::10', "f(a;)'[1 2]"], [[10, 1], [10, 2]]),
    (['f::{x-y}', 'a::10', 'f(a;)/[1 2 3]'], None),
    (['t::{x,y,z}', 'a::10', "t(a;;3)'[1 2]"], [[10, 1, 3], [10, 2, 3]]),
    (['f::{x+y}', 'a::10', '{x<3}{f(1;x)}:~0'], 3),
]


def work_projadverb(chunk):
    st = Stats()
    for progs, want in chunk:
        if want is None:
            continue
        k = KlongInterpreter()

        def seq():
            r = None
            for p in progs:
                r = k(p)
            return r
        obs = outcome(seq)
        st.d['evals'] += len(progs)
        st.d['calls'] += 1
        st.d['states'] += 1
        st.form('projection-completed-by-adverb')
        observed = show_outcome(obs)
        st.d['outcomes'].add(hash(observed))
        exp_v = cn(np.array(want)) if isinstance(want, list) else I(want)
        if obs != ('ok', exp_v):
            st.violation(';'.join(progs), observed, 'ok:' + show(exp_v), dict(part='h', programs=progs), snippet_for(progs),
                         'projection-with-non-literal-argument-completed-by-adverb')
    return st.d


# part j: a higher-order function projects its own function-valued parameter (x, y or z holds the function; the
# projection's function position is a parameter name, not a global).  Complete over functions x forms x fixed values;
# expected: the direct application of the function to the same arguments (substitution), evaluated in the same interpreter.
HO_FNS = [('sub', '{x-y}', 2), ('cat', '{x,y}', 2), ('pw', '{(10*x)+y}', 2), ('t3', '{x,y,z}', 3)]
HO_FORMS2 = [       # (program template with F = the function's name, A / B = the two values, expected direct application)
    ('{[p];p::x(A;);p(B)}(F)', 'F(A;B)'), ('{[p];p::x(;A);p(B)}(F)', 'F(B;A)'),
    ('{x(A;)@y}(F;B)', 'F(A;B)'), ('{x(;A)@y}(F;B)', 'F(B;A)'),
    ("{x(A;)'y}(F;[1 2 3])", "{F(A;x)}'[1 2 3]"), ("{x(;A)'y}(F;[1 2 3])", "{F(x;A)}'[1 2 3]"),
    ("{y(x;)'[1 2 3]}(A;F)", "{F(A;x)}'[1 2 3]"), ('{y(;x)@B}(A;F)', 'F(B;A)'),
    ('{z(x;)@y}(A;B;F)', 'F(A;B)'), ('{x(A;B)}(F)', 'F(A;B)'), ('{x(A;)}(F)@B', 'F(A;B)'),
    ('{[p];p::y(x;);p(B)}(A;F)', 'F(A;B)'),
]
HO_FORMS3 = [
    ('{[p q];p::x(A;;);q::p(;B);q(2)}(F)', 'F(A;2;B)'), ('{[p];p::x(;A;);p(1;B)}(F)', 'F(1;A;B)'),
    ("{x(A;;B)'y}(F;[1 2])", "{F(A;x;B)}'[1 2]"), ('{x(A;;)@y}(F;[2 B])', 'F(A;2;B)'),
]


def ho_items(cfg):
    vals = [('10', '3'), ('3', '10')] if cfg.quick else [('10', '3'), ('3', '10'), ('-1', '0.5'), ('[1 2]', '7')]
    out = []
    for name, body, ar in HO_FNS:
        for tmpl, direct in (HO_FORMS2 if ar == 2 else HO_FORMS3):
            for a, b in vals:
                if ar == 3 and not a.lstrip('-').isdigit():
                    continue
                sub = lambda t: t.replace('F', name).replace('A', '(%s)' % a if a[0] == '-' else a).replace('B', '(%s)' % b if b[0] == '-' else b)
                out.append(([name + '::' + body], sub(tmpl), sub(direct)))
    return out


def work_ho(chunk):
    st = Stats()
    for defs, prog, direct in chunk:
        k = KlongInterpreter()
        for d in defs:
            k(d)
        want = outcome(lambda: k(direct))
        obs = outcome(lambda: k(prog))
        st.d['evals'] += len(defs) + 2
        st.d['calls'] += 1
        st.d['states'] += 1
        st.form('projection-of-a-function-valued-parameter')
        observed = show_outcome(obs)
        st.d['outcomes'].add(hash(observed))
        if want[0] != 'ok':
            continue            # the direct application itself fails: nothing to compare with
        if obs != want:
            progs = defs + [prog]
            # a projection that outlives the call whose parameter it names (returned from the function, completed outside):
            # the stored function position and arguments are syntax, evaluated when the last hole is filled - the root cause
            # of the known finding about projection arguments
            escaped = prog.split('}(')[0].count('@') == 0 and ')@' in prog and '::' not in prog
            st.violation(';'.join(progs), observed, show_outcome(want) + '   (= ' + direct + ')', dict(part='j', programs=progs),
                         snippet_for(progs), 'projection-arguments-evaluated-at-call-time' if escaped
                         else 'projection-of-a-function-valued-parameter')
    return st.d


# part i: a function used BY NAME as the verb of an adverb, the same adverb node evaluated twice (function body called
# twice / the same program text evaluated twice / a local that holds another function in the next call) with the name
# bound to another function in between.  Expected: what the substituted function literal gives.
def rebind_items():
    monads = ['{x+1}', '{x*10}', '{-x}']
    dyads = ['{x+y}', '{x-y}', '{x,y}']
    arg = '[1 2 3]'
    out = []
    for fns, forms in ((monads, [("f'x", "%s'" + arg, 1)]),
                       (dyads, [('f/x', '%s/' + arg, 1), ('f\\x', '%s\\' + arg, 1), ("f:'x", "%s:'" + arg, 1),
                                ("x f'y", arg + "%s'" + arg, 2)])):
        for f1 in fns:
            for f2 in fns:
                if f1 == f2:
                    continue
                for body, want, nargs in forms:
                    args = arg if nargs == 1 else arg + ';' + arg
                    # (1) in a function body called twice
                    out.append((['f::' + f1, 'e::{' + body + '}', 'e(' + args + ')', 'f::' + f2, 'e(' + args + ')'], want % f2))
                    # (2) the same top-level text evaluated twice
                    top = (want % 'f')
                    out.append((['f::' + f1, top, 'f::' + f2, top], want % f2))
                    # (3) a local holds the function: another one in the next call
                    lbody = body.replace('f', 'h')
                    if nargs == 1:
                        out.append((['app::{[h];h::y;' + lbody + '}', 'app(' + arg + ';' + f1 + ')', 'app(' + arg + ';' + f2 + ')'],
                                    want % f2))
                    else:
                        out.append((['app::{[h];h::z;' + lbody + '}', 'app(' + args + ';' + f1 + ')', 'app(' + args + ';' + f2 + ')'],
                                    want % f2))
    return out


def work_rebind(chunk):
    st = Stats()
    for progs, want in chunk:
        k = KlongInterpreter()

        def seq():
            r = None
            for p in progs:
                r = k(p)
            return r
        obs = outcome(seq)
        exp = outcome(lambda: KlongInterpreter()(want))
        st.d['evals'] += len(progs) + 1
        st.d['calls'] += 1
        st.d['states'] += 1
        st.form('named-verb-rebound-between-evaluations')
        observed = show_outcome(obs)
        st.d['outcomes'].add(hash(observed))
        if exp[0] == 'ok' and obs != exp:
            st.violation(';'.join(progs), observed, show_outcome(exp) + '  (= ' + want + ')', dict(part='i', programs=progs),
                         snippet_for(progs), 'adverb-verb-name-not-resolved-at-evaluation')
    return st.d


def work_projtime(chunk):
    st = Stats()
    for progs, want in chunk:
        k = KlongInterpreter()

        def seq():
            r = None
            for p in progs:
                r = k(p)
            return r
        obs = outcome(seq)
        st.d['evals'] += len(progs)
        st.d['calls'] += 1
        st.d['states'] += 1
        st.form('projection-argument-time')
        observed = show_outcome(obs)
        st.d['outcomes'].add(hash(observed))
        if obs != ('ok', I(want)):
            st.violation(';'.join(progs), observed, 'ok:%d' % want, dict(part='f', programs=progs), snippet_for(progs),
                         'projection-arguments-evaluated-at-call-time')
    return st.d


# ---------------------------------------------------------------------------------------------
# part (g): x, y, z are names of the call frame even when globals of the same name exist

PARAM_GLOBALS = 'x::100;y::200;z::300'
# (programs after PARAM_GLOBALS, expected value of the last one or None when it must raise); afterwards x, y, z must
# still be 100, 200, 300.  `{z::x;z*2}(1;2)`: the implementation evaluates this call (it counts the names used);
# z is then a parameter name that received no argument - still a name of the frame, not the global.
PARAM_CASES = [
    (['{x::x+1;x*2}(3)'], 8),
    (['{y::x+1;y*2}(5;6)'], 12),
    (['{z::x;z*2}(1;2)'], 2),
    (['{z::x;z*2}(1;2;3)'], 2),
    (['g::{z::x;z*2}', 'f::{z+g(x;y)}', 'f(1;2;3)'], 5),
    (['g::{z::x;z*2}', 'f::{[t];t::g(x;y);t+z}', 'f(1;2;3)'], 5),
    (['h::{z::x;z%"s"}', 'h(1;2)'], None),
    (['h::{y::x;boom()}', 'h(1;2)'], None),
]


def work_params(chunk):
    st = Stats()
    for progs, want in chunk:
        k = KlongInterpreter()
        k['boom'] = lambda: (_ for _ in ()).throw(RuntimeError('boom'))
        k(PARAM_GLOBALS)

        def seq():
            r = None
            for p in progs:
                r = k(p)
            return r
        obs = outcome(seq)
        glob = outcome(lambda: np.array([k('x'), k('y'), k('z')]))
        st.d['evals'] += len(progs) + 4
        st.d['calls'] += 1
        st.d['states'] += 1
        st.form('parameter-names-vs-globals')
        observed = show_outcome(obs) + ' then x,y,z=' + show_outcome(glob)
        st.d['outcomes'].add(hash(observed))
        good = (obs[0] == 'exc') if want is None else (obs == ('ok', I(want)))
        if not (good and glob == ('ok', cn(np.array([100, 200, 300])))):
            st.violation(PARAM_GLOBALS + ';' + ';'.join(progs), observed,
                         ('raises' if want is None else 'ok:%d' % want) + ' then x,y,z=ok:[100 200 300]',
                         dict(part='g', programs=[PARAM_GLOBALS] + progs), snippet_for([PARAM_GLOBALS] + progs),
                         'assignment-to-a-parameter-name-reaches-outside-the-call-frame')
    return st.d


def k2list(v):
    return np.array(v) if isinstance(v, list) else v


# ---------------------------------------------------------------------------------------------

def selftest():
    t = ('D', '-', ('D', '+', ('L', 'x'), ('L', '1')), ('M', '#', ('L', 'y')))
    assert render(t) == '(x+1)-(#y)', render(t)
    assert render(t, {'x': '(3)', 'y': '("ab")'}) == '((3)+1)-(#("ab"))'
    assert arity_of(t) == 2 and nodes_of(t) == 3
    assert arity_of(('L', 'y')) == 2 and arity_of(('L', 'g')) == 0 and arity_of(('M', '-', ('L', 'z'))) == 3
    memo = {}
    assert [len(gen_trees(n, LEAVES, OPS, OPS, memo)) for n in range(3)] == [7, 336, 30240]
    assert len(fill_plans(2, 0)) == 3 and len(fill_plans(3, 0)) == 13
    assert len(fill_plans(2, 1)) == 6 and len(fill_plans(3, 1)) == 35
    assert plan_programs('{x-y-z}', 3, [(1,), (2,), (0,)], (I(10), I(3), I(2))) == \
        ['f::{x-y-z}', 'p1::f(;3;)', 'p2::p1(;2)', 'p2(10)']
    assert plan_programs('{x-y}', 2, [(), (0, 1)], (I(10), I(3))) == ['f::{x-y}', 'p1::f(;)', 'p1(10;3)']
    for c, f in ((I(0), True), (R(0.0), True), (L(), True), (S(''), True), (I(1), False), (I(-1), False),
                 (R(0.5), False), (L(I(0)), False), (S('a'), False), (('c', '0'), False), (('y', 'foo'), False),
                 (('d', frozenset()), False), (('fn', 1), False)):
        assert klong_false(c) == f, c
    b = Body(('D', '-', ('L', 'x'), ('L', 'y')))
    assert b.fn == '{x-y}' and b.n == 2 and b.oracle_text((I(3), I(-2))) == '(3)-(-2)'
    assert b.rec_fn() == '{:[z;.f(y;x;z-1);x-y]}'
    b = Body(('L', 'x'), 'T5')
    assert b.fn == '{[a y];a::x;a,y}' and b.n == 2 and b.oracle_text((I(3), S('ab'))) == 'a::(3);a,("ab")'
    assert len(fault_trees(1)) == 1 + 6 + 6 * 14
    assert loosen(L(('c', 'a'), S('b'))) == S('ab')
    return True


def run(cfg):
    rep = runner.Report(PID, 'model_checking')
    selftest()
    total = {}
    parts = {}
    # (a) and (c) share one worker pool (starting a pool costs seconds on a busy machine); (b) and (d) are a few
    # thousand evaluations and run in this process
    global _VCOUNT, _VLIMIT
    import multiprocessing
    _VCOUNT = multiprocessing.get_context('fork').Value('l', 0)
    _VLIMIT = cfg.pick(3000, 20000)
    t0 = time.time()
    items_a, items_c = body_items(cfg), fault_items(cfg)
    pooled = {'a': {}, 'c': {}}

    def work_pool(chunk):
        return {'a': work_apply([it for tag, it in chunk if tag == 'a']),
                'c': work_fault([it for tag, it in chunk if tag == 'c'])}
    combined = [('a', it) for it in items_a] + [('c', it) for it in items_c]
    random.Random(20240923).shuffle(combined)       # fixed permutation: spreads the heavy items over the chunks
    for r in runner.pmap(work_pool, combined, cfg, chunk=cfg.pick(100, 400)):
        for tag in ('a', 'c'):
            r[tag].pop('bodies', None)
            runner.merge_counts(pooled[tag], r[tag])
            pooled[tag]['samples'] = sorted(pooled[tag].get('samples', []))[:3]     # order-independent choice
    t_pool = round(time.time() - t0, 1)
    t0 = time.time()
    items_b, items_d, items_e, items_f = proj_items(cfg), cond_items(cfg), rec_items(cfg), list(PROJ_TIME)
    part_b, part_d, part_e, part_f = work_proj(items_b), work_cond(items_d), work_rec(items_e), work_projtime(items_f)
    items_g = list(PARAM_CASES)
    part_g = work_params(items_g)
    items_h = [c for c in PROJ_ADVERB if c[1] is not None]
    part_h = work_projadverb(items_h)
    items_i = rebind_items()
    part_i = work_rebind(items_i)
    items_j = ho_items(cfg)
    part_j = work_ho(items_j)
    t_inline = round(time.time() - t0, 1)
    for name, items, part, wall in (('a', items_a, pooled['a'], t_pool), ('b', items_b, part_b, t_inline),
                                    ('c', items_c, pooled['c'], t_pool), ('d', items_d, part_d, t_inline),
                                    ('e', items_e, part_e, t_inline), ('f', items_f, part_f, t_inline), ('g', items_g, part_g, t_inline),
                                    ('h', items_h, part_h, t_inline), ('i', items_i, part_i, t_inline),
                                    ('j', items_j, part_j, t_inline)):
        parts[name] = dict(items=len(items), wall_s_shared=wall, evals=part.get('evals', 0),
                           calls=part.get('calls', 0),
                           states=part.get('states', 0), violations=len(part.get('violations', [])),
                           by_form=dict(sorted(part.get('by_form', {}).items())))
        if 'skipped_no_literal' in part and name == 'a':
            parts[name]['over3_skipped_intermediate_without_literal'] = part['skipped_no_literal']
            parts[name]['compiler_related_disagreements_not_listed_separately'] = part.get('compiler_related_not_listed', 0)
        samples = sorted(part.pop('samples', []))[:3]
        part['samples'] = samples
        runner.merge_counts(total, part)
    rep.extend_violations(total.get('violations', []))
    groups = {}
    for v in rep.violations:
        groups[v['group']] = groups.get(v['group'], 0) + 1
    rep.coverage = {
        'states': total.get('states', 0),
        'transitions': total.get('calls', 0),
        'traces_validated_against_impl': total.get('evals', 0),
        'samples': total.get('samples', []),
        'exhaustive': not total.get('capped_items'),
        'items_skipped_after_violation_cap': total.get('capped_items', 0),
        'distinct_outcomes': len(total.get('outcomes', ())),
        'parts': parts,
        'violation_groups': dict(sorted(groups.items())),
        'bounds': {
            'a_full': 'bodies <= 1 node (full grammar: 7 leaves, 6 monads, 6 dyads) x all tuples over %s x all call '
                      'forms incl. f/[a b c], a f/[b c] and the assembled Each-2 result' % [show(v) for v in U6],
            'a_2nodes': cfg.pick('all 30240 bodies with 2 nodes x all tuples over %s' % [show(v) for v in U2],
                                 'all 30240 bodies with 2 nodes x all tuples over U6 (arity <= 2) / over %s (arity 3)'
                                 % [show(v) for v in U3]),
            'a_3nodes': cfg.pick('not explored in the quick tier',
                                 'bodies with 3 nodes over leaves %s, monads %s, dyads %s x all tuples over %s'
                                 % (list(LEAVES_R), list(MON_R), list(DY_R), [show(v) for v in U2])),
            'a_local': 'templates %s x bodies <= 1 node x tuples over %s%s' % (
                sorted(LOCAL_TEMPLATES), cfg.pick('U3', 'U6'),
                cfg.pick('', '; templates %s x bodies with 2 nodes x tuples over U2' % list(LOCAL_TEMPLATES_DEEP))),
            'b': 'all fill plans of arity 2 and 3 with <= %d fill-nothing steps; value tuples: (10 3 2)%s'
                 % (cfg.pick(1, 2), cfg.pick('', ' + 6 rotations of the universe')),
            'c': 'boom() at every position of every body <= 2 nodes (%s) x <= %d argument tuples; %d follow-up programs'
                 % (cfg.pick('bodies <= 1 node at nesting depth 1, 2, 3; bodies with 2 nodes at depth 3 with 1 tuple',
                             'every body at nesting depth 1, 2, 3'),
                    len(cfg.pick(FAULT_TUPLES_Q, FAULT_TUPLES_T)), len(BATTERY)),
            'j': '%d programs in which a function projects its own function-valued parameter (4 functions x 12 / 4 forms x fixed '
                 'values), compared with the direct application' % len(items_j),
            'h': '%d programs in which a projection with a non-literal fixed argument is completed by an adverb or @' % len(items_h),
            'i': '%d programs: a function used by name as adverb verb (each, over, scan, each-pair, each-2), the same node '
                 'evaluated twice (function called twice / same text twice / local holding another function) with the name '
                 'rebound in between; all ordered pairs of 3 monads / 3 dyads' % len(items_i),
            'g': '%d programs that assign to x, y, z inside functions while globals of those names exist' % len(PARAM_CASES),
            'f': '%d programs in which the fixed argument of a projection is rebound / has a side effect between the steps' % len(PROJ_TIME),
            'e': '%d functions that declare locals and recurse through .f x depths 0..%d, called directly and from another '
                 'function that declares a local of the same name; expected values from a hand-written model'
                 % (len(REC_LOCALS), cfg.pick(3, 6)),
            'd': '%d condition expressions (%d literal, %d computed) x 3 placements, one- and two-condition forms'
                 % (len(TRUTH_LITERALS) + len(TRUTH_COMPUTED), len(TRUTH_LITERALS), len(TRUTH_COMPUTED)),
        },
        'rule': 'states = distinct (function body, evaluated argument tuple) bindings + projection fill plans x value '
                'tuples + (fault body, depth, arguments) + conditional cases; transitions = calls made through a call '
                'form; every one is an execution of the real interpreter compared with the substituted body text '
                'evaluated by the same interpreter',
    }
    rep.assumptions = [
        'the oracle is textual substitution evaluated by the interpreter itself: a defect that affects a call and '
        'the top-level evaluation of the substituted text in the same way is invisible here (C01/C02/C05 own those)',
        'arity of a body is the reference arity (highest of x, y, z used); calls with fewer or more arguments than '
        'that are not explored',
        'f@L is exercised with list literals; arguments are the elements of the evaluated list (numeric-block '
        'promotion applies: [3 1.5] passes 3.0), f@a only with numeric atoms',
        'the expected result list of an adverb is assembled by the interpreter from the literals of the element '
        'results ([;v1;v2;...]) and compared exactly; only if an element has no literal the harness builds the list '
        'and compares modulo "a list of characters/symbols may be a string"; the assembled Each-2 result is compared '
        'only for bodies <= 1 node, every other layer observes Each-2 through the logging verb (each application)',
        'all calls of one function body share one interpreter (re-loaded after a state leak); a disagreement that '
        'does not reproduce in a freshly loaded interpreter is reported with the full history of earlier evaluations',
        'disagreements that disappear when klongpy.interpreter.compile_expr is switched off (root cause in the '
        'compiled fast path, C05) are listed once per function body and kind; the number of further ones is in '
        'parts.a.compiler_related_disagreements_not_listed_separately and in the case of the listed one',
        'after %d violations in one worker chunk or %d / %d (quick / thorough) over all workers the remaining items '
        'are skipped and coverage.exhaustive is false (not reached on the pinned tree)' % (VIOLATION_CAP, 3000, 20000),
        'f/[a b c] and a f/[b c] are skipped where the intermediate result has no literal (counted in '
        'parts.a.over3_skipped_intermediate_without_literal)',
        'projection arguments are literals, so the time at which a projected argument is evaluated is not observed',
        'exception classes are not compared, only raise / no raise',
        'context depth and scopes are read through KlongInterpreter._context._context (observation only)',
        'deeper bodies use a reduced argument universe / reduced grammar as stated in coverage.bounds; the DESIGN '
        'bound "<= 3 nodes over the full grammar x all tuples" is ~10^9 evaluations and not reachable in the budget',
    ]
    return rep


def replay(cfg, path):
    with open(path) as f:
        r = json.load(f)
    case = r.get('case') or {}
    progs = case.get('programs') or []
    part = case.get('part')
    k = KlongInterpreter()
    log = []
    if part == 'c':
        k['boom'] = _boom
    if part == 'd':
        k['la'] = lambda: (log.append('A'), 11)[1]
        k['lb'] = lambda: (log.append('B'), 22)[1]
        k['lc'] = lambda: (log.append('C'), 33)[1]
    if part == 'a' and case.get('collector'):
        k['rec'] = lambda x: (log.append(x), 0)[1]
    print('key:', r.get('key'))
    for p in progs:
        if part == 'a':
            del log[:]
        print('  %-60s -> %s' % (p, show_outcome(outcome(lambda: k(p)))))
        if part == 'a' and log:
            print('  %-60s    applications: %s' % ('', ' ; '.join(show(cn(v)) for v in log)))
    if part == 'd':
        print('  branches run:', ''.join(log) or '-')
    print('  after:', show_snapshot(snapshot(k, with_ids=False)))
    if case.get('oracle'):
        k2 = KlongInterpreter()
        k2(G_SETUP)
        print('  oracle %-53s -> %s' % (case['oracle'], show_outcome(outcome(lambda: k2(case['oracle'])))))
    if part == 'c':
        twin = load(progs[:-1] + ['n::%d' % case.get('depth', 0)])
        for p in BATTERY:
            a, b = outcome(lambda: k(p)), outcome(lambda: twin(p))
            print('  follow-up %-40s here %-22s twin %-22s %s' % (p, show_outcome(a), show_outcome(b),
                                                                '' if a == b else '<-- differs'))
    print('observed (at check time):', r.get('observed'))
    print('expected:', r.get('expected'))
    return 0

"""C17, concurrent part: "once a key-value set has returned, the value is durable" also when another thread's get or set
of the same key is in flight while the set is called.

E2 (baton scheduler of C18) + E4: the real KeyValueStorage over the real FileCache with its lock, executor and file system
under the scheduler; every schedule of a few two-thread configurations up to a preemption bound runs to completion; then
  * every call returned (no deadlock),
  * the recorded call/return history is linearizable against a register in which every set that returned took effect
    (KeyValueStorage.set has no way to report "not applied"),
  * every crash image of the complete file-system trace (POSIX-style model of c17_crash, the initial files durable) is
    recovered with a fresh store: the key reads one of the final values of those linearizations.
"""
import logging
import posixpath

from .. import runner
from ..memfs import MemFS
from ..sched import Sched, SLock, SExecutor, explore, Abort
from ..values import cn, show, U

import klongpy.db.file_cache as fc
from klongpy.db.helpers import serialize_obj
from klongpy.db.sys_fn_kvs import KeyValueStorage

from . import c18_filecache as c18
from . import c17_crash as cr

VALUES = {'old': 'o' * 12, 'v1': 'p' * 12, 'v2': 'q' * 12}
BYTES = {n: serialize_obj(v) for n, v in VALUES.items()}
NAME_OF = {b: n for n, b in BYTES.items()}


class Harness(c18.Harness):
    def __init__(self, conf, prefix):
        self.conf = conf
        self.unsync = set()
        self.events = []
        self.sched = Sched(prefix, horizon=3000, state_fn=self._state)
        self.fs = MemFS(hook=self.sched.point)
        self.fs.mkdirs(cr.ROOT)
        for name, vname in conf['files'].items():
            self.fs.put(cr.ROOT + '/' + name, BYTES[vname])
        fc.open = self.fs.open
        fc.os = self.fs.os
        fc.time = c18.Clock()
        cls = c18._make_monitored(fc.FileCache)
        cache = cls(max_memory=conf.get('max_memory', 100000), root_path=cr.ROOT)
        cache.executor.shutdown(wait=False)
        cache.executor = SExecutor(self.sched)
        cache.file_futures_lock = SLock(self.sched, 'L')
        cache.__dict__['_harness'] = self
        self.cache = cache
        self.kv = KeyValueStorage.__new__(KeyValueStorage)
        dict.__init__(self.kv)
        self.kv.cache = cache

    def _client(self, ti, ops):
        def body():
            for oi, op in enumerate(ops):
                self.sched.point('call %s' % (op,))
                # recorded in the vocabulary of C18's register model: set = an update that succeeded when it returned
                rec = ('get', op[1]) if op[0] == 'get' else ('update', op[1], BYTES[op[2]])
                self.events.append((ti, oi, 'call', rec))
                try:
                    if op[0] == 'get':
                        v = self.kv.get(op[1])
                        r = ('exc', 'FileNotFoundError') if cn(v) == U else ('ok', serialize_obj(v))
                    else:
                        self.kv.set(op[1], VALUES[op[2]])
                        r = ('ok', True)
                except Abort:
                    raise
                except BaseException as e:      # noqa: BLE001
                    r = ('exc', type(e).__name__)
                self.events.append((ti, oi, 'ret', r))
        return body


def configurations(quick):
    def conf(name, threads, files):
        return {'name': name, 'threads': threads, 'files': files}
    out = [
        conf('get(a) || set(a,v1), a on disk', [[('get', 'a')], [('set', 'a', 'v1')]], {'a': 'old'}),
        conf('set(a,v1) || set(a,v2), a on disk', [[('set', 'a', 'v1')], [('set', 'a', 'v2')]], {'a': 'old'}),
        conf('get(a) || set(a,v1), a absent', [[('get', 'a')], [('set', 'a', 'v1')]], {}),
        conf('get(d/x) || set(d/x,v1), d/x on disk', [[('get', 'd/x')], [('set', 'd/x', 'v1')]], {'d/x': 'old'}),
    ]
    if not quick:
        out += [
            conf('get(a);get(a) || set(a,v1), a on disk', [[('get', 'a'), ('get', 'a')], [('set', 'a', 'v1')]], {'a': 'old'}),
            conf('get(a) || set(a,v1);set(a,v2), a on disk', [[('get', 'a')], [('set', 'a', 'v1'), ('set', 'a', 'v2')]], {'a': 'old'}),
            conf('set(a,v1) || set(a,v2), a absent', [[('set', 'a', 'v1')], [('set', 'a', 'v2')]], {}),
            # three threads: 1 preemption (2 preemptions = > 15 CPU-minutes for this one configuration)
            dict(conf('get(a) || set(a,v1) || set(a,v2), a on disk', [[('get', 'a')], [('set', 'a', 'v1')], [('set', 'a', 'v2')]],
                      {'a': 'old'}), bound=1),
        ]
    return out


def _vname(b):
    return ':undefined' if b == c18.ABSENT else NAME_OF.get(bytes(b), repr(b))


def judge(h):
    s, conf = h.sched, h.conf
    bad = []
    ops = c18.history_ops(h.events)
    results = tuple((o['thread'], o['idx'], o['op'][0], o['result']) for o in ops)
    if s.verdict in ('deadlock', 'livelock'):
        return ('verdict', s.verdict, results), [(s.verdict, '%s: %s' % (s.verdict, s.verdict_detail), 'every call returns')], 0
    for o in ops:
        if o['ret'] is None:
            return ('noreturn', results), [('no-return', 'a call never returned', 'every call returns')], 0
        if o['result'][0] == 'exc' and o['result'][1] != 'FileNotFoundError':
            bad.append(('exception', '%s raised %s' % (o['op'][:2], o['result'][1]), 'no exception'))
    key = ops[0]['op'][1]
    init = BYTES[conf['files'][key]] if key in conf['files'] else c18.ABSENT
    finals = c18.linearizations(ops, init)
    hist = ' ; '.join('%s(%s%s)->%s' % ('set' if o['op'][0] == 'update' else 'get', key,
                                         (',' + _vname(o['op'][2])) if o['op'][0] == 'update' else '',
                                         'returned' if o['op'][0] == 'update' and o['result'] == ('ok', True) else
                                         (_vname(o['result'][1]) if o['result'][0] == 'ok' else
                                          (':undefined' if o['result'][1] == 'FileNotFoundError' else 'raise ' + o['result'][1])))
                     for o in ops)
    nrec = 0
    if not finals:
        bad.append(('not-linearizable', hist, 'an order of the calls, consistent with real time, in which every returned set took effect'))
        return (results,), bad, 0
    allowed = {cn(VALUES[NAME_OF[bytes(f)]]) if f != c18.ABSENT else U for f in finals}
    trace = [op for op in h.fs.log if op[0] in cr.KEPT]
    initial = {cr.ROOT + '/' + n: BYTES[v] for n, v in conf['files'].items()}
    seen = set()
    for img, dirs in cr.images(trace, initial=initial):
        res = cr.recover(img, dirs, keys=[key])
        nrec += 1
        r = res[key]
        if r[0] == 'ok' and r[1] in allowed:
            continue
        obs = 'all calls returned (%s); after a crash key "%s" reads %s' % (hist, key, cr._showres(r))
        if obs not in seen:
            seen.add(obs)
            bad.append(('acknowledged-set-lost', obs, ' or '.join(sorted(_vname(f) for f in finals))))
    return (results, tuple(sorted(map(_vname, finals)))), bad, nrec


def run_conf(conf, prefix):
    return Harness(conf, prefix).run()


def explore_unit(unit):
    logging.disable(logging.CRITICAL)
    conf, bound = unit
    out = {'conc_executions': 0, 'conc_transitions': 0, 'conc_outcomes': set(), 'violations': [], 'conc_recoveries': 0,
           'conc_by_preemptions': {}}
    seen_v = set()
    try:
        for h in explore(lambda p: run_conf(conf, p), bound):
            s = h.sched
            out['conc_executions'] += 1
            out['conc_transitions'] += len(s.trace)
            p = str(s.preemptions())
            out['conc_by_preemptions'][p] = out['conc_by_preemptions'].get(p, 0) + 1
            outcome, bad, nrec = judge(h)
            out['conc_recoveries'] += nrec
            out['conc_outcomes'].add(hash((conf['name'], outcome)) & 0xffffffff)
            for cls, observed, expected in bad:
                key = 'concurrent: %s | %s' % (conf['name'], cls)
                if (key, observed) in seen_v:
                    continue
                seen_v.add((key, observed))
                h2 = run_conf(conf, s.trace)
                o2, bad2, _ = judge(h2)
                if o2 != outcome or [b[:2] for b in bad2] != [b[:2] for b in bad]:
                    raise runner.HarnessError('C17 concurrent: schedule %s of %s is not reproducible' % (s.trace, conf['name']))
                out['violations'].append(dict(
                    key=key, observed=observed, expected=expected, group=cls,
                    case={'kind': 'concurrent', 'config': conf['name'], 'schedule': s.trace, 'preemptions': s.preemptions(),
                          'steps': ['%s: %s' % (s.threads[tid].name, lab) for tid, lab in s.labels]},
                    snippet=None))
    finally:
        c18.restore()
    return out


def work(units):
    total = {}
    for u in units:
        runner.merge_counts(total, explore_unit(u))
    return total


def replay(case):
    logging.disable(logging.CRITICAL)
    conf = next(c for c in configurations(False) if c['name'] == case['config'])
    try:
        h = run_conf(conf, case['schedule'])
        for tid, lab in h.sched.labels:
            print('  %-8s %s' % (h.sched.threads[tid].name, lab))
        outcome, bad, _ = judge(h)
        print('outcome:', outcome)
        for b in bad:
            print('VIOLATED', b)
    finally:
        c18.restore()
    return 0

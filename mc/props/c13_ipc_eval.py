"""C13 - remote evaluation over IPC equals evaluation on the server.

(a) live part (E1): a real server interpreter (`create_repl`, `.srv(port)` on a loopback port) and a real client
    interpreter (`.cli`, `.clid`) with their four real event loops in one process; a twin interpreter receives the same
    definitions locally.  Every transportable value x every remote form, and BFS over operation histories on two names;
    each remote result is compared with the same operation on the twin.
(b) framing part (E3): the byte stream of 1-3 consecutive frames is fed to a real asyncio.StreamReader on the virtual
    loop in EVERY split into <= 3 reads (all pairs of cut positions) and consumed by the real stream_recv_msg and by the
    real NetworkClient._listen with pre-registered futures.
"""
import asyncio
import json
import logging
import os
import socket
import time
import uuid as _uuid

from klongpy import KlongInterpreter

from .. import bfs, runner
from ..values import I, R, C, S, Y, L, D, U, cn, lit, show
from ..vloop import VLoop

import klongpy.sys_fn_ipc as ipc

DEADLINE = 10.0

# ---------------------------------------------------------------------------------------------
# (b) framing

def _frame_sets(quick):
    msgs = [1, 'x' * 1, [1, 2, 3], {'k': 'v' * 40}, 'y' * 250]
    sets = [[m] for m in msgs[:4]] + [[msgs[0], msgs[2]], [msgs[2], msgs[0], msgs[1]]]
    if not quick:
        sets += [[msgs[4]], [msgs[3], msgs[2]], [msgs[1], msgs[1], msgs[1]], [msgs[3], msgs[0], msgs[3]]]
    return sets


def _encode(msgs):
    ids = [_uuid.UUID(int=1000 + i) for i in range(len(msgs))]
    return ids, b''.join(ipc.encode_message(i, m) for i, m in zip(ids, msgs))


def _split_case(msgs, i, j, mode):
    """Feed stream[:i], stream[i:j], stream[j:] (empty chunks skipped); return list of violations."""
    ids, stream = _encode(msgs)
    chunks = [c for c in (stream[:i], stream[i:j], stream[j:]) if c]
    loop = VLoop()
    loop.enter()
    bad = []
    try:
        reader = asyncio.StreamReader(loop=loop)
        got = []
        if mode == 'recv':
            async def consume():
                for _ in msgs:
                    got.append(await ipc.stream_recv_msg(reader))
            task = loop.create_task(consume())
            for ch in chunks:
                reader.feed_data(ch)
                loop.run_all_ready()
            reader.feed_eof()
            loop.run_all_ready()
            if not task.done() or task.exception() is not None:
                bad.append(('framing-incomplete', 'stream_recv_msg did not deliver all messages: %r' % (task.exception() if task.done() else 'pending')))
            exp = list(zip(ids, msgs))
            if [(a, _c(b)) for a, b in got] != [(a, _c(b)) for a, b in exp]:
                bad.append(('framing-wrong', 'received %d messages %r' % (len(got), [b for _, b in got][:3])))
        else:
            class W:
                def __init__(self):
                    self.closing = False

                def write(self, d):
                    pass

                async def drain(self):
                    pass

                def close(self):
                    self.closing = True

                def is_closing(self):
                    return self.closing

                async def wait_closed(self):
                    pass
            nc = ipc.NetworkClient(loop, loop, None, ipc.ReaderWriterConnectionProvider(reader, W(), 'h', 1))
            nc.running = True
            order = []
            futs = []
            for k, mid in enumerate(ids):
                f = loop.create_future()
                f.add_done_callback(lambda fut, k=k: order.append(k))
                nc.pending_responses[mid] = f
                futs.append(f)
            task = loop.create_task(nc._run(None, None, None))
            loop.run_all_ready()
            for ch in chunks:
                reader.feed_data(ch)
                loop.run_all_ready()
            res = []
            for f in futs:
                res.append(_c(f.result()) if f.done() and not f.cancelled() and f.exception() is None else ('pending' if not f.done() else 'exc'))
            if res != [_c(m) for m in msgs]:
                bad.append(('listen-wrong-future', 'futures resolved to %r' % (res[:3],)))
            if order != list(range(len(msgs))):
                bad.append(('listen-order', 'futures resolved in order %r' % (order,)))
            reader.feed_eof()
            loop.run_all_ready()
            for t in asyncio.all_tasks(loop):
                t.cancel()
            loop.run_all_ready()
    finally:
        loop.leave()
        loop.close()
    return bad


def _c(v):
    return repr(v)


def framing_work(items):
    out = {'splits': 0, 'violations': [], 'outcomes': set()}
    for si, msgs, i_lo, i_hi, modes in items:
        _, stream = _encode(msgs)
        n = len(stream)
        for i in range(i_lo, i_hi):
            for j in range(i, n + 1):
                for mode in modes:
                    out['splits'] += 1
                    bad = _split_case(msgs, i, j, mode)
                    out['outcomes'].add((si, mode, not bad))
                    for cls, obs in bad:
                        out['violations'].append(dict(
                            key='framing %s | messages %r | reads cut at %d,%d of %d bytes | %s' % (mode, _short(msgs), i, j, n, cls),
                            observed=obs, expected='every message intact, one by one, in order, each resolving its own future',
                            group=cls, case={'kind': 'framing', 'msgs': msgs, 'i': i, 'j': j, 'mode': mode}))
    return out


def _short(msgs):
    return [m if not isinstance(m, str) or len(m) < 12 else m[:3] + '..(%d)' % len(m) for m in msgs]


# ---------------------------------------------------------------------------------------------
# (c) send side: several senders on one connection (NetworkClient.call from several threads, a reply racing a pushed call
# on the server) each run the real stream_send_msg on the same writer.  The environment decides at every drain() whether
# the transport buffer is below the high-water mark (drain returns at once) or above it (drain suspends for one / three loop
# iterations, the other senders run meanwhile).  Payload classes: small, larger than asyncio's default high-water mark of
# 64 KiB (the size from which a real drain() suspends), several times that.  Oracle: what was written to the connection,
# read back by the real stream_recv_msg, is exactly the sent messages, each intact, each once.

SEND_SIZES = {'small': 10, 'big': 70000, 'huge': 200000}
DRAIN = ('returns at once', 'suspends 1 iteration', 'suspends 3 iterations')


def send_configs(quick):
    two = [('small', 'small'), ('big', 'small'), ('small', 'big'), ('big', 'big')]
    if quick:
        return two
    return two + [('huge', 'big'), ('big', 'huge'), ('big', 'small', 'small'), ('small', 'big', 'big'), ('huge', 'huge', 'small')]


class _ChoiceWriter:
    def __init__(self, run):
        self.buf, self.run = bytearray(), run

    def write(self, data):
        self.buf += bytes(data)

    async def drain(self):
        c = self.run.choose(len(DRAIN))
        for _ in range((0, 1, 3)[c]):
            await asyncio.sleep(0)

    def is_closing(self):
        return False


class _SendRun:
    def __init__(self, cfgn, prefix):
        self.cfgn, self.prefix, self.counts = cfgn, list(prefix), []

    def choose(self, n):
        i = len(self.counts)
        self.counts.append(n)
        c = self.prefix[i] if i < len(self.prefix) else 0
        if c >= n:
            raise runner.HarnessError('C13 send part: replay diverged at choice %d' % i)
        return c

    def go(self):
        msgs = [chr(ord('a') + i) * SEND_SIZES[sz] for i, sz in enumerate(self.cfgn)]
        ids = [_uuid.UUID(int=900 + i) for i in range(len(msgs))]
        loop = VLoop()
        loop.enter()
        bad = []
        try:
            w = _ChoiceWriter(self)
            tasks = [loop.create_task(ipc.stream_send_msg(w, i, m)) for i, m in zip(ids, msgs)]
            for _ in range(10000):
                if all(t.done() for t in tasks):
                    break
                loop.run_all_ready(limit=100000)
            else:
                bad.append(('sender-never-finishes', 'a sender is still running after 10000 loop iterations'))
            for t in tasks:
                if t.done() and t.exception() is not None:
                    bad.append(('sender-raised', type(t.exception()).__name__))
            reader = asyncio.StreamReader(loop=loop)
            reader.feed_data(bytes(w.buf))
            reader.feed_eof()
            got = []

            async def read_all():
                for _ in msgs:
                    got.append(await ipc.stream_recv_msg(reader))
            rt = loop.create_task(read_all())
            for _ in range(1000):
                if rt.done():
                    break
                loop.run_all_ready(limit=100000)
            if not rt.done() or rt.exception() is not None:
                bad.append(('frames-not-intact', 'after %d of %d messages the byte stream written to the connection does not '
                            'decode: %s' % (len(got), len(msgs), type(rt.exception()).__name__ if rt.done() else 'reader waits for more')))
                if not rt.done():
                    rt.cancel()
                    loop.run_all_ready()
            else:
                want = sorted((i, m) for i, m in zip(ids, msgs))
                have = sorted((i, m) for i, m in got)
                if want != have:
                    bad.append(('messages-changed', 'received %r' % ([(str(i)[-3:], m[:2] + '..(%d)' % len(m)) for i, m in have],)))
                if bytes(w.buf)[len(w.buf):] or len(w.buf) != sum(len(ipc.encode_message(i, m)) for i, m in zip(ids, msgs)):
                    bad.append(('extra-bytes', '%d bytes written' % len(w.buf)))
        finally:
            loop.leave()
            loop.close()
        return (tuple(sorted(set(bad))), len(self.counts)), self.counts


def send_work(items):
    from ..vloop import explore_choices
    out = {'send_runs': 0, 'send_drains': 0, 'violations': [], 'send_outcomes': set()}
    for cfgn, bound in items:
        seen = set()

        def run_once(prefix, cfgn=cfgn):
            r = _SendRun(cfgn, prefix)
            return r.go()
        for prefix, (bad, ndrain) in explore_choices(run_once, bound):
            out['send_runs'] += 1
            out['send_drains'] += ndrain
            out['send_outcomes'].add((cfgn, bad))
            for cls, obs in bad:
                if (cls, obs) in seen:
                    continue
                seen.add((cls, obs))
                # replayed once more: the same choices must give the same observation
                again = _SendRun(cfgn, prefix).go()[0][0]
                if (cls, obs) not in again:
                    raise runner.HarnessError('C13 send part: run not reproducible %r %r' % (cfgn, prefix))
                out['violations'].append(dict(
                    key='send %s | drain answers %s | %s' % (' + '.join(cfgn), ','.join(DRAIN[c] for c in prefix) or 'all return at once', cls),
                    observed=obs, expected='the connection carries every sent message intact and exactly once',
                    group=cls, case={'kind': 'send', 'config': list(cfgn), 'prefix': list(prefix)}))
    return out


# ---------------------------------------------------------------------------------------------
# (a) live server

def free_port():
    s = socket.socket()
    s.bind(('127.0.0.1', 0))
    p = s.getsockname()[1]
    s.close()
    return p


SERVER_DEFS = ['n0::{42}', 'n1::{x}', 'n2::{x,,y}', 'n3::{[r];r::x,,y;r,,z}', 'neg::{-x}', 'a::0', 'b::0', 'sq::{x*x}']


class Live:
    """One server interpreter + one client interpreter + the local twin, all in this process."""

    def __init__(self):
        from klongpy.repl import create_repl
        self.S, self.sl = create_repl()
        self.Cc, self.cl = create_repl()
        self.T = KlongInterpreter()
        for d in SERVER_DEFS:
            self.S(d)
            self.T(d)
        self.port = free_port()
        if self.S('.srv(%d)' % self.port) != 1:
            raise runner.HarnessError('cannot start IPC server')
        self.connect(first=True)

    def connect(self, first=False):
        t0 = time.time()
        # wait until the server really listens: a refused first attempt costs the client its 5 s retry delay
        while first:
            try:
                socket.create_connection(('127.0.0.1', self.port), timeout=1).close()
                break
            except OSError:
                if time.time() - t0 > 20:
                    raise runner.HarnessError('IPC server does not listen')
                time.sleep(0.01)
        while True:
            try:
                with runner.watchdog(DEADLINE, wall=6 * DEADLINE):
                    self.Cc('f::.cli("127.0.0.1:%d")' % self.port)
                    self.Cc('d::.clid(f)')
                    if cn(self.Cc('f("1+1")')) == I(2):
                        return
            except Exception:       # noqa: BLE001
                pass
            if time.time() - t0 > 20:
                raise runner.HarnessError('cannot connect to the IPC server')
            time.sleep(0.05)

    def close(self):
        from klongpy.repl import cleanup_repl
        try:
            with runner.watchdog(DEADLINE, wall=6 * DEADLINE):
                try:
                    self.Cc('.clic(f)')
                except Exception:       # noqa: BLE001
                    pass
                self.S('.srv(0)')
        except BaseException:       # noqa: BLE001
            pass
        for loops in (self.cl, self.sl):
            try:
                with runner.watchdog(DEADLINE, wall=6 * DEADLINE):
                    cleanup_repl(loops)
            except BaseException:       # noqa: BLE001
                pass

    def remote(self, text):
        try:
            with runner.watchdog(DEADLINE, wall=6 * DEADLINE):
                return ('ok', cn(self.Cc(text)))
        except runner.CaseTimeout:
            return ('exc', 'TIMEOUT')
        except Exception as e:      # noqa: BLE001
            return ('exc', type(e).__name__)

    def local(self, text):
        try:
            return ('ok', cn(self.T(text)))
        except Exception as e:      # noqa: BLE001
            return ('exc', type(e).__name__)


_LIVE = {}


def live():
    if _LIVE.get('pid') != os.getpid():
        _LIVE['pid'] = os.getpid()
        import traceback
        traceback.print_exception = lambda *a, **k: None      # the client prints a traceback for every failed call
        _LIVE['live'] = Live()
    return _LIVE['live']


def kstr(text):
    return '"' + text.replace('"', '""') + '"'


def value_universe(quick):
    atoms = [I(0), I(-3), I(123456789012), R(0.5), R(-1.5), R(1e-7), C('a'), C('"'), S(''), S('a'), S('a"b'), S('hello foo'),
             Y('foo')]
    lists = [L(), L(I(1), I(2), I(3)), L(R(1.5), R(2.5)), L(L(I(1), I(2)), L(I(3), I(4))), L(I(1), L(I(2), L(I(3)))),
             L(S('ab'), S('cd')), L(I(1), S('a'), C('b'), Y('foo')), L(L(), L(I(1)))]
    dicts = [D([]), D([(I(1), I(2))]), D([(S('a'), L(I(1), I(2))), (Y('k'), S('v'))])]      # (a dictionary nested in a
    # dictionary has no literal: `:{` inside a list literal is not evaluated)
    # lists of exactly one element: a list is not its element
    singles = [L(I(7)), L(L(I(7))), L(S('abc')), L(R(2.5)), L(Y('s')), L(C('c'))]
    vals = atoms + lists + dicts
    return (vals[::2] + [L(I(1), L(I(2), L(I(3))))] + singles[:3]) if quick else vals + singles


def forms_for(v):
    """(name, client text, twin text) for one value v."""
    lv = lit(v)
    in_list = v[0] != 'd'          # a dictionary literal cannot stand inside a list literal: pass it through a variable
    out = [('text', 'f(%s)' % kstr(lv), lv)]
    out.append(('monad', 'v::%s;f([;:n1;v])' % lv, 'n1(%s)' % lv))
    out.append(('dyad', 'v::%s;f([;:n2;v;v])' % lv, 'n2(%s;%s)' % (lv, lv)))
    out.append(('triad', 'v::%s;f([;:n3;v;1;v])' % lv, 'n3(%s;1;%s)' % (lv, lv)))
    out.append(('proxy', 'v::%s;q::f(:n1);q(v)' % lv, 'n1(%s)' % lv))
    out.append(('dict-set-get', 'v::%s;d,[;:a;v];d?:a' % lv, 'a::%s;a' % lv))
    # the remote dictionary takes a name as a symbol or as a string (both name the server-side variable)
    out.append(('dict-set-get-string-key', 'v::%s;d,[;"a";v];d?"a"' % lv, 'a::%s;a' % lv))
    out.append(('dict-set-symbol-get-string', 'v::%s;d,[;:a;v];d?"a"' % lv, 'a::%s;a' % lv))
    out.append(('symbol-get', 'v::%s;d,[;:b;v];f(:b)' % lv, 'b::%s;b' % lv))
    return out


FIXED_FORMS = [
    ('nilad', 'f(,:n0)', 'n0()'),
    ('undefined-by-division', 'f("1%0")', '1%0'),
    ('undefined-tests-undefined', ':_f("1%0")', ':_(1%0)'),
    ('undefined-missing-key', 'f(":{[1 2]}?3")', ':{[1 2]}?3'),
    ('undefined-missing-key-tests-undefined', ':_f(":{[1 2]}?3")', ':_(:{[1 2]}?3)'),
    ('undefined-inside-list', ':_*f("(1%0),2")', ':_*((1%0),2)'),
    ('monad-with-monadic-operator-body', 'f([;:neg;3])', 'neg(3)'),
    ('function-proxy-arity', 'q::f(:n2);q(1;2)', 'n2(1;2)'),
    ('dict-set-function', 'd,:fn,{x+1};g::d?:fn;g(2)', 'fn::{x+1};fn(2)'),
    ('remote-function-value', 'f(:sq)', 'sq'),
    ('server-side-error', 'f("nosuchfn(1)")', 'nosuchfn(1)'),
    ('server-side-error-2', 'f("1+")', '1+'),
    # the server-side operation is klong[:nosuchkey] / calling a non-callable value: both fail on the server
    ('missing-remote-symbol', 'd?:nosuchkey', None),
    ('call-non-callable', 'f([;:a;1])', None),
    # a projection on the server: its proxy has as many parameters as the projection has open slots
    ('remote-projection-call', 'f("add::{x-y};inc::add(;1)");f([;:inc;5])', 'add::{x-y};inc::add(;1);inc(5)'),
    ('proxy-to-projection', 'f("add::{x-y};inc::add(;1)");q::f(:inc);q(5)', 'add::{x-y};inc::add(;1);inc(5)'),
    ('dict-proxy-to-projection', 'f("add::{x-y};inc::add(;1)");q::d?:inc;q(5)', 'add::{x-y};inc::add(;1);inc(5)'),
    ('proxy-to-projection-of-triad', 'f("t3::{x,y,z};p2::t3(;0;)");q::f(:p2);q(1;2)', 't3::{x,y,z};p2::t3(;0;);p2(1;2)'),
]
# a remote function is looked up (proxy), the name is rebound on the server to a function of another arity, and looked up
# and called again: the second proxy must be a proxy of the new function (all ordered pairs of arities 1, 2, 3)
_AR = {1: ('{x+1}', '4'), 2: ('{x-y}', '4;1'), 3: ('{x,y,z}', '1;2;3')}
for _i in _AR:
    for _j in _AR:
        if _i != _j:
            (_bi, _ai), (_bj, _aj) = _AR[_i], _AR[_j]
            FIXED_FORMS.append((
                'proxy-after-rebinding-%d-to-%d' % (_i, _j),
                'f("fn::%s");q::f(:fn);q(%s);f("fn::%s");q::f(:fn);q(%s)' % (_bi, _ai, _bj, _aj),
                'fn::%s;fn(%s);fn::%s;fn(%s)' % (_bi, _ai, _bj, _aj)))
            FIXED_FORMS.append((
                'dict-proxy-after-rebinding-%d-to-%d' % (_i, _j),
                'f("fn::%s");q::d?:fn;q(%s);f("fn::%s");q::d?:fn;q(%s)' % (_bi, _ai, _bj, _aj),
                'fn::%s;fn(%s);fn::%s;fn(%s)' % (_bi, _ai, _bj, _aj)))


def judge_pair(name, ctext, ttext, got, exp):
    """-> (cls, observed, expected) or None"""
    if name in ('dict-set', 'assign-text-nojudge'):
        return None if got[0] == 'ok' else ('remote-raises', _so(got), 'the dictionary handle')
    if exp[0] == 'exc':
        if got[0] == 'exc' and got[1] != 'TIMEOUT':
            return None
        return ('remote-should-raise', _so(got), 'an error (the same operation fails on the server)')
    if got[0] == 'exc':
        return ('remote-raises', _so(got), _so(exp))
    if got != exp:
        return ('remote-differs', _so(got), _so(exp))
    return None


def _so(o):
    return ('raise ' + o[1]) if o[0] == 'exc' else show(o[1])


def live_stateless(items):
    logging.disable(logging.CRITICAL)
    out = {'remote_ops': 0, 'violations': [], 'outcomes': set(), 'reconnects': 0}
    lv = live()
    for name, ctext, ttext in items:
        lv.local('a::0;b::0')
        r0 = lv.remote('f("a::0;b::0")')
        if r0[0] == 'exc':
            lv.connect()
            out['reconnects'] += 1
            lv.remote('f("a::0;b::0")')
        got = lv.remote(ctext)
        exp = lv.local(ttext) if ttext is not None else ('exc', 'expected-to-fail')
        out['remote_ops'] += 1
        out['outcomes'].add((name, got[0], exp[0]))
        if got[0] == 'exc':
            # a failed remote operation ends the connection: open a new one for the next case
            lv.connect()
            out['reconnects'] += 1
        v = judge_pair(name, ctext, ttext, got, exp)
        if v is not None:
            cls, obs, e = v
            out['violations'].append(dict(key='remote %s | %s' % (name, ctext), observed=obs, expected=e, group=cls,
                                          case={'kind': 'live', 'client': ctext, 'twin': ttext, 'history': []}))
    return out


# histories on two server-side names
H_VALUES = [I(5), L(I(1), I(2)), S('s'), R(2.5)]


def h_ops():
    ops = []
    for n in ('a', 'b'):
        for v in H_VALUES:
            ops.append(('assign-text', 'f(%s)' % kstr('%s::%s' % (n, lit(v))), '%s::%s' % (n, lit(v))))
        ops.append(('dict-set', 'd,[:%s 7]' % n, '%s::7' % n))
        ops.append(('read-text', 'f(%s)' % kstr(n), n))
        ops.append(('read-sym', 'f(:%s)' % n, n))
        ops.append(('dict-get', 'd?:%s' % n, n))
        ops.append(('dict-get-string-key', 'd?"%s"' % n, n))
    ops.append(('join', 'f("a,b")', 'a,b'))
    ops.append(('amend', 'f("a::a,1")', 'a::a,1'))
    ops.append(('copy', 'f("b::a")', 'b::a'))
    ops.append(('call-on-state', 'f([;:n2;7;8]),f("a")', 'n2(7;8),a'))
    return ops


def live_expand_factory():
    ops = h_ops()

    def expand(hist):
        logging.disable(logging.CRITICAL)
        out = {'succ': [], 'transitions': 0, 'violations': [], 'outcomes': set(), 'remote_ops': 0}
        lv = live()
        for op in range(len(ops)):
            # replay the history from the reset state, on the live server and on the twin
            lv.local('a::0;b::0')
            if lv.remote('f("a::0;b::0")')[0] == 'exc':
                lv.connect()
                lv.remote('f("a::0;b::0")')
            for h in hist:
                lv.remote(ops[h][1])
                lv.local(ops[h][2])
            name, ctext, ttext = ops[op]
            got, exp = lv.remote(ctext), lv.local(ttext)
            out['transitions'] += 1
            out['remote_ops'] += 1 + len(hist)
            if got[0] == 'exc':
                lv.connect()
            v = judge_pair(name, ctext, ttext, got, exp)
            # state: the twin's values of a and b, and the server's must be the same
            st_t = (lv.local('a'), lv.local('b'))
            st_s = (lv.remote('f("a")'), lv.remote('f("b")'))
            if v is None and st_t != st_s:
                v = ('remote-state-differs', 'server a,b = %s,%s' % (_so(st_s[0]), _so(st_s[1])),
                     'a,b = %s,%s' % (_so(st_t[0]), _so(st_t[1])))
            out['outcomes'].add(hash((st_t, got)) & 0xffffffff)
            if v is not None:
                cls, obs, e = v
                texts = [ops[h][1] for h in hist] + [ctext]
                out['violations'].append(dict(key='remote history | %s' % ' ; '.join(texts), observed=obs, expected=e, group=cls,
                                              case={'kind': 'live', 'history': [ops[h][1] for h in hist],
                                                    'twin_history': [ops[h][2] for h in hist], 'client': ctext, 'twin': ttext}))
            out['succ'].append((op, None if v is not None else st_t))
        return out
    return expand


def run(cfg):
    logging.disable(logging.CRITICAL)
    rep = runner.Report('C13', 'model_checking')
    # (b) framing first (forks workers; no live loops exist in the parent at any time)
    items = []
    for si, msgs in enumerate(_frame_sets(cfg.quick)):
        _, stream = _encode(msgs)
        n = len(stream)
        step = max(1, n // 16)
        for lo in range(0, n + 1, step):
            items.append((si, msgs, lo, min(n + 1, lo + step), ('recv', 'listen')))
    ft = {}
    for part in runner.pmap(framing_work, items, cfg, chunk=1):
        runner.merge_counts(ft, part)
    rep.extend_violations(ft.get('violations', []))
    # (c) send side
    st = {}
    for part in runner.pmap(send_work, [(c, cfg.pick(2, 3)) for c in send_configs(cfg.quick)], cfg, chunk=1):
        runner.merge_counts(st, part)
    rep.extend_violations(st.get('violations', []))
    # (a) live: stateless product over values x forms, then histories
    cases = list(FIXED_FORMS)
    for v in value_universe(cfg.quick):
        cases.extend(forms_for(v))
    # The live interpreters (threads, loops, sockets) only ever exist in forked workers (inline_below=-1), and in few of
    # them: a remote operation costs < 1 ms, starting a server/client pair under load costs seconds.
    depth = cfg.pick(2, 3)
    nshare = cfg.pick(1, 4)
    items = [('stateless', cases[k::nshare]) for k in range(nshare)] + [('bfs', depth)]
    tier, seed = cfg.tier, cfg.seed

    def live_work(its):
        out = {'lt': {}, 'ht': None}
        for kind, payload in its:
            if kind == 'stateless':
                runner.merge_counts(out['lt'], live_stateless(payload))
            else:
                out['ht'] = bfs.search(live_expand_factory(), runner.Cfg('C13', tier, seed, 1), payload, max_states=50000)
        if isinstance(_LIVE.get('live'), Live):
            _LIVE['live'].close()
        return out

    lt, ht = {}, None
    for part in runner.pmap(live_work, items, cfg, chunk=1, inline_below=-1, pin=False):
        runner.merge_counts(lt, part['lt'])
        if part['ht'] is not None:
            ht = part['ht']
    rep.extend_violations(lt.get('violations', []))
    rep.extend_violations(ht.get('violations', []))
    rep.coverage = {
        'states': ht['states'] + len(lt.get('outcomes', ())) + len(ft.get('outcomes', ())) + len(st.get('send_outcomes', ())),
        'transitions': ht['transitions'] + lt.get('remote_ops', 0) + ft.get('splits', 0) + st.get('send_drains', 0),
        'traces_validated_against_impl': ht.get('remote_ops', 0) + lt.get('remote_ops', 0) + ft.get('splits', 0) + st.get('send_runs', 0),
        'samples': [{'client': c, 'twin': t} for _, c, t in (cases[0], cases[len(FIXED_FORMS)], cases[-1])]
        + [{'framing': 'messages %r in every split into <= 3 reads' % (_short(_frame_sets(cfg.quick)[-1]),)}],
        'exhaustive': not ht['capped'],
        'send_configurations': len(send_configs(cfg.quick)),
        'send_schedules': st.get('send_runs', 0),
        'send_drain_points': st.get('send_drains', 0),
        'send_deviation_bound_completed': cfg.pick(2, 3),
        'send_distinct_outcomes': len(st.get('send_outcomes', ())),
        'framing_splits': ft.get('splits', 0),
        'framing_frame_sets': len(_frame_sets(cfg.quick)),
        'remote_stateless_cases': len(cases),
        'remote_history_layers': ht['layers'],
        'remote_history_depth': ht['max_depth'],
        'remote_operations_executed': ht.get('remote_ops', 0) + lt.get('remote_ops', 0),
        'reconnects_after_failed_operations': lt.get('reconnects', 0),
        'distinct_outcomes': len(ht.get('outcomes', ())) + len(lt.get('outcomes', ())),
        'rule': 'live: every value of the transportable universe x 7 remote forms + fixed forms (undefined, errors, proxies) and '
                'BFS over histories of remote assign/read/dict-set/dict-get/join on two names, each compared with the same '
                'operation on a twin interpreter; framing: every pair of cut positions of each frame set, consumed by '
                'stream_recv_msg and by NetworkClient._listen; send side: 2-3 concurrent stream_send_msg on one writer x payload '
                'classes (small, > 64 KiB, several times that) x every sequence of drain() answers (returns / suspends 1 / suspends 3 '
                'iterations) with at most 2 (quick) / 3 (thorough) suspensions, the written stream read back by stream_recv_msg',
    }
    rep.assumptions = [
        'live part runs on real loopback sockets, real event loops and OS scheduling with every operation issued and awaited '
        'sequentially: exhaustive over values and histories, not over schedules (the schedule dimension of the client is C14)',
        'a remote operation whose local twin raises must raise remotely; the connection is re-opened afterwards',
        'frames are built with the real encode_message; ids are fixed',
    ]
    for p in list(_LIVE.values()):
        if isinstance(p, Live):
            p.close()
    return rep


def replay(cfg, path):
    logging.disable(logging.CRITICAL)
    with open(path) as f:
        r = json.load(f)
    case = r['case']
    if case['kind'] == 'framing':
        print(_split_case(case['msgs'], case['i'], case['j'], case['mode']))
        return 0
    if case['kind'] == 'send':
        print(_SendRun(tuple(case['config']), case['prefix']).go())
        return 0
    lv = live()
    lv.local('a::0;b::0')
    lv.remote('f("a::0;b::0")')
    for c, t in zip(case.get('history', []), case.get('twin_history', [])):
        print(c, '->', _so(lv.remote(c)), '   twin:', t, '->', _so(lv.local(t)))
    print(case['client'], '->', _so(lv.remote(case['client'])), '   twin:', case['twin'], '->', _so(lv.local(case['twin'])))
    lv.close()
    os._exit(0)

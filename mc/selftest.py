"""./check --selftest : MANIFEST.setup_cmd.  Builds nothing (pure Python); verifies that the machinery is usable:
 * klongpy imports from the tree the checks will run against,
 * canonical form / literal printer round-trip through the real interpreter for a fixed value set,
 * the evidence validator accepts a well-formed file and rejects a malformed one (and agrees with jsonschema when
   the tooling venv is present),
 * known_findings.json and MANIFEST.json are well-formed,
 * reference models pass their own example tables (imported lazily, only for checks that exist).
"""
import importlib
import json
import os
import subprocess
import sys

from . import runner


def main():
    ok = True

    def check(name, cond, detail=''):
        nonlocal ok
        print(('ok   ' if cond else 'FAIL ') + name + ((' - ' + detail) if detail and not cond else ''))
        ok = ok and bool(cond)

    import klongpy
    from klongpy import KlongInterpreter
    print('klongpy from', os.path.dirname(klongpy.__file__))
    from .values import I, R, C, S, Y, L, D, cn, lit, norm
    k = KlongInterpreter()
    vals = [I(0), I(-3), I(123456789012), R(0.5), R(-1.5), R(1e-7), R(1.5e20), C('a'), C('"'), S(''), S('a"b'),
            S('x\ny'), Y('foo'), L(), L(I(1), I(2)), L(I(1), R(0.5)), L(L(I(1)), L(I(2), I(3))),
            L(I(1), S('a'), C('b'), Y('foo')), D([(I(1), I(2)), (S('a'), L(I(1), I(2)))])]
    bad = [v for v in vals if cn(k(lit(v))) != norm(v)]
    check('literal printer / canonical form round trip (%d values)' % len(vals), not bad, repr(bad[:3]))

    good = {'property_id': 'C00', 'tier': 'quick', 'seed': 0, 'level': 'model_checking', 'wall_s': 1.0,
            'coverage': {'states': 3, 'transitions': 5, 'traces_validated_against_impl': 5, 'samples': [['a']]}}
    try:
        runner.validate_evidence(good)
        g = True
    except AssertionError:
        g = False
    badev = dict(good, coverage={'states': 0, 'transitions': 5, 'traces_validated_against_impl': 5, 'samples': []})
    try:
        runner.validate_evidence(badev)
        b = False
    except AssertionError:
        b = True
    check('evidence validator accepts good / rejects bad', g and b)

    kf = os.path.join(runner.VERIF, 'known_findings.json')
    if os.path.exists(kf):
        with open(kf) as f:
            d = json.load(f)
        okk = d.get('version') == 1 and all(e.get('status') in ('known', 'fixed') and 'property' in e
                                            for e in d['entries'])
        check('known_findings.json well-formed (%d entries)' % len(d['entries']), okk)
    mf = os.path.join(runner.VERIF, 'MANIFEST.json')
    with open(mf) as f:
        man = json.load(f)
    claimed = [c['property_id'] for c in man['checks']]
    na = [c['property_id'] for c in man.get('not_applicable', [])]
    check('MANIFEST: every property claimed or listed not_applicable, none twice',
          sorted(claimed + na) == ['C%02d' % i for i in range(1, 21)])
    for pid in claimed:
        try:
            importlib.import_module(runner.PROPS[pid])
            check('import ' + runner.PROPS[pid], True)
        except Exception as e:      # noqa: BLE001
            check('import ' + runner.PROPS[pid], False, repr(e))
    for pid in claimed:
        mod = importlib.import_module(runner.PROPS[pid])
        st = getattr(mod, 'selftest', None)
        if st is not None:
            try:
                msg = st()
                check('%s oracle self-check' % pid, True)
                if msg and isinstance(msg, str):
                    print('     ' + msg)
            except Exception as e:      # noqa: BLE001
                check('%s oracle self-check' % pid, False, repr(e))

    # cross-check the evidence files that exist against the real JSON schema when the tooling venv is present
    schema = '/root/.vp/EVIDENCE.schema.json'
    evdir = os.path.join(runner.VERIF, 'evidence')
    if os.path.exists(schema) and os.path.isdir(evdir) and os.path.exists('/opt/veriftools/pyvenv/bin/python'):
        code = ('import json,sys,glob,jsonschema\n'
                's=json.load(open(%r))\nbad=0\n'
                'for p in sorted(glob.glob(%r)):\n'
                '    try: jsonschema.validate(json.load(open(p)), s)\n'
                '    except Exception as e: bad+=1; print(p, str(e)[:200])\n'
                'sys.exit(1 if bad else 0)\n') % (schema, os.path.join(evdir, '*.json'))
        r = subprocess.run(['/opt/veriftools/pyvenv/bin/python', '-c', code], capture_output=True, text=True)
        check('existing evidence files validate against EVIDENCE.schema.json', r.returncode == 0, r.stdout[-400:])
    print('selftest', 'passed' if ok else 'FAILED')
    return 0 if ok else 1

"""Canonical form of Klong values, literal printer (independent of klongpy.writer) and closed value universes.

Canonical values are nested tuples:
    ('i', int) ('r', float) ('c', ch) ('s', str) ('y', name) ('l', (elems...)) ('d', frozenset((k, v)...))
    ('u',) undefined   ('fn', arity)   ('none',)   ('obj', typename)

`canon` maps any runtime value (Python scalars, numpy scalars, 0-d arrays, ndarrays of any dtype, lists, torch
tensors, dicts, klongpy types) to that form.  `norm` applies the one deliberate weakening documented in DESIGN §2.4:
inside a rectangular all-numeric block, one real leaf promotes every leaf to real (klongpy stores such a block as one
homogeneous NumPy array, so `[1 0.5]` is already `[1.0 0.5]` as a literal).
"""
import math

import numpy as np

from klongpy.types import KGChar, KGSym, KGFn, KGLambda, KGFnWrapper, KGUndefined


def _is_tensor(v):
    t = type(v)
    return t.__module__.startswith('torch') and hasattr(v, 'detach')        # torch is never imported from here

U = ('u',)


def I(n):
    return ('i', int(n))


def R(x):
    return ('r', float(x))


def C(ch):
    return ('c', ch)


def S(s):
    return ('s', s)


def Y(s):
    return ('y', s)


def L(*elems):
    return ('l', tuple(elems))


def D(pairs):
    return ('d', frozenset(pairs))


def canon(v):
    """Runtime value -> canonical tuple (no normalisation)."""
    if v is None:
        return ('none',)
    if isinstance(v, KGUndefined):
        return U
    if isinstance(v, KGSym):
        return ('y', str.__str__(v))
    if isinstance(v, KGChar) or (isinstance(v, str) and type(v).__name__ == 'KGChar'):
        # klongpy.backends.numpy_backend defines a second KGChar class; the writer treats both as characters
        return ('c', str.__str__(v))
    if isinstance(v, str):
        return ('s', v)
    if isinstance(v, (bool, np.bool_)):
        return ('i', int(v))
    if isinstance(v, (int, np.integer)):
        return ('i', int(v))
    if isinstance(v, (float, np.floating)):
        return ('r', float(v))
    if isinstance(v, dict):
        return ('d', frozenset((canon(k), canon(x)) for k, x in v.items()))
    if _is_tensor(v):
        v = v.detach().cpu().numpy()
    if isinstance(v, np.ndarray):
        if v.ndim == 0:
            return canon(v.item() if v.dtype != object else v[()])
        k = v.dtype.kind
        if k in 'iub':
            return _from_nested(v.tolist(), 'i')
        if k == 'f':
            return _from_nested(v.tolist(), 'r')
        if k == 'U':
            # numpy unicode arrays arise from np.array(list_of_chars); elements are strings
            return ('l', tuple(canon(x) for x in v.tolist())) if v.ndim == 1 else ('l', tuple(canon(x) for x in v))
        return ('l', tuple(canon(x) for x in v))
    if isinstance(v, (list, tuple)):
        return ('l', tuple(canon(x) for x in v))
    if isinstance(v, KGFnWrapper):
        return ('fn', getattr(v.fn, 'arity', -1))
    if isinstance(v, KGFn):
        return ('fn', v.arity)
    if isinstance(v, KGLambda):
        return ('fn', v.get_arity())
    if callable(v):
        return ('fn', -1)
    if isinstance(v, complex):
        return ('obj', 'complex:%r' % (v,))
    return ('obj', type(v).__name__)


def _from_nested(x, tag):
    if isinstance(x, list):
        return ('l', tuple(_from_nested(e, tag) for e in x))
    return (tag, int(x)) if tag == 'i' else (tag, float(x))


def _block_shape(c):
    """Shape of c if it is a rectangular all-numeric block (list of numbers / of equally shaped blocks), else None."""
    if c[0] != 'l':
        return None
    el = c[1]
    if not el:
        return (0,)
    if all(e[0] in 'ir' for e in el):
        return (len(el),)
    if all(e[0] == 'l' for e in el):
        s0 = _block_shape(el[0])
        if s0 is None or s0 == (0,):
            return None
        for e in el[1:]:
            if _block_shape(e) != s0:
                return None
        return (len(el),) + s0
    return None


def _has_real(c):
    if c[0] == 'r':
        return True
    if c[0] == 'l':
        return any(_has_real(e) for e in c[1])
    return False


def _promote(c):
    if c[0] == 'i':
        return ('r', float(c[1]))
    if c[0] == 'l':
        return ('l', tuple(_promote(e) for e in c[1]))
    return c


def norm(c):
    """Numeric-block promotion (applied to both sides of every comparison)."""
    t = c[0]
    if t == 'l':
        if _block_shape(c) is not None:
            return _promote(c) if _has_real(c) else c
        return ('l', tuple(norm(e) for e in c[1]))
    if t == 'd':
        return ('d', frozenset((norm(k), norm(v)) for k, v in c[1]))
    return c


def cn(v):
    return norm(canon(v))


def chars_to_string(c):
    """Map every non-empty list consisting only of characters to the string (for comparisons modulo that freedom)."""
    t = c[0]
    if t == 'l':
        el = c[1]
        if el and all(e[0] == 'c' for e in el):
            return ('s', ''.join(e[1] for e in el))
        return ('l', tuple(chars_to_string(e) for e in el))
    if t == 'd':
        return ('d', frozenset((chars_to_string(k), chars_to_string(v)) for k, v in c[1]))
    return c


def close(a, b, rtol=1e-9, atol=0.0):
    """Structural equality with float tolerance; int vs real kind is significant."""
    if a[0] != b[0]:
        return False
    t = a[0]
    if t == 'r':
        x, y = a[1], b[1]
        if x == y:
            return True
        if math.isnan(x) or math.isnan(y):
            return math.isnan(x) and math.isnan(y)
        if math.isinf(x) or math.isinf(y):
            return False
        return abs(x - y) <= atol + rtol * max(abs(x), abs(y))
    if t == 'l':
        return len(a[1]) == len(b[1]) and all(close(x, y, rtol, atol) for x, y in zip(a[1], b[1]))
    if t == 'd':
        if len(a[1]) != len(b[1]):
            return False
        da, db = dict(a[1]), dict(b[1])
        if set(da) != set(db):
            return False
        return all(close(da[k], db[k], rtol, atol) for k in da)
    return a == b


# ---------------------------------------------------------------------------------------------
# literal printer

def _real_lit(x):
    if x != x or x in (float('inf'), float('-inf')):
        raise ValueError('no literal for %r' % x)
    s = repr(float(x))
    if 'e' in s:
        m, e = s.split('e')
        if '.' not in m:
            m += '.0'
        s = m + 'e' + str(int(e))           # 1e-07 -> 1.0e-7 ; 1.5e+20 -> 1.5e20
    return s


def has_literal(c):
    t = c[0]
    if t in 'irs':
        return not (t == 'r' and (c[1] != c[1] or abs(c[1]) == float('inf')))
    if t == 'c':
        return True
    if t == 'y':
        return True
    if t == 'l':
        return all(has_literal(e) for e in c[1])
    if t == 'd':
        return all(has_literal(k) and has_literal(v) for k, v in c[1])
    return False


def lit(c, inner=False):
    """Klong source text denoting the canonical value c. Negative numbers at top level are parenthesised by callers."""
    t = c[0]
    if t == 'i':
        return str(c[1])
    if t == 'r':
        return _real_lit(c[1])
    if t == 'c':
        return '0c' + c[1]
    if t == 's':
        return '"' + c[1].replace('"', '""') + '"'
    if t == 'y':
        return (':' + c[1])
    if t == 'l':
        return '[' + ' '.join(lit(e, True) for e in c[1]) + ']'
    if t == 'd':
        items = sorted(c[1], key=repr)
        return ':{' + ' '.join('[' + lit(k, True) + ' ' + lit(v, True) + ']' for k, v in items) + '}'
    raise ValueError('no literal for %r' % (c,))


def plit(c):
    """Parenthesised literal, safe as an operand anywhere."""
    return '(' + lit(c) + ')'


def show(c):
    """Compact human-readable form for keys / messages."""
    t = c[0]
    if t == 'u':
        return ':undefined'
    if t == 'fn':
        return '<fn/%d>' % c[1]
    if t == 'none':
        return 'None'
    if t == 'obj':
        return '<%s>' % c[1]
    if t == 'r' and (c[1] != c[1] or abs(c[1]) == float('inf')):
        return repr(c[1])
    if t == 'l':
        return '[' + ' '.join(show(e) for e in c[1]) + ']'
    if t == 'd':
        items = sorted(c[1], key=repr)
        return ':{' + ' '.join('[' + show(k) + ' ' + show(v) + ']' for k, v in items) + '}'
    return lit(c)


def from_py(x):
    """Plain Python nested data -> canonical (ints, floats, str = string, lists); helper for universes."""
    if isinstance(x, tuple) and x and isinstance(x[0], str) and x[0] in ('i', 'r', 'c', 's', 'y', 'l', 'd', 'u'):
        return x
    if isinstance(x, bool):
        return I(int(x))
    if isinstance(x, int):
        return I(x)
    if isinstance(x, float):
        return R(x)
    if isinstance(x, str):
        return S(x)
    if isinstance(x, list):
        return ('l', tuple(from_py(e) for e in x))
    if isinstance(x, dict):
        return D((from_py(k), from_py(v)) for k, v in x.items())
    raise ValueError(x)


def outcome(fn):
    """Run fn(); return ('ok', canonical) or ('exc', ExceptionClassName)."""
    try:
        return ('ok', cn(fn()))
    except RecursionError:
        return ('exc', 'RecursionError')
    except Exception as e:      # noqa: BLE001 - every failure class is an observation
        return ('exc', type(e).__name__)


def show_outcome(o):
    return 'ok:' + show(o[1]) if o[0] == 'ok' else 'exc:' + o[1]

"""Reference model of the Klong primitive verbs over canonical values (mc.values), written from the reference text
quoted in the docstrings of klongpy/monads.py and klongpy/dyads.py - not from the implementation.

Every model function returns
    NJ                      - the operand (pair) is outside the domain the reference defines: nothing is compared
    ('val', c)              - the prescribed canonical value
    ('acc', pred, text)     - an accept set: pred(canonical result) -> bool, text describes it
The caller compares after numeric-block promotion (values.norm) on both sides.
"""
import math

from ..values import I, R, C, S, Y, L, U, norm, close

NJ = None
BIG = 2 ** 53


def val(c):
    return ('val', c)


def acc(pred, text):
    return ('acc', pred, text)


def is_int(c):
    return c[0] == 'i'


def is_real(c):
    return c[0] == 'r'


def is_num(c):
    return c[0] in 'ir'


def is_list(c):
    return c[0] == 'l'


def is_str(c):
    return c[0] == 's'


def is_seq(c):
    return c[0] in 'ls'


def elems(c):
    """Elements of a list, or the characters of a string."""
    return list(c[1]) if c[0] == 'l' else [C(ch) for ch in c[1]]


def mk_like(c, items):
    """A list of items, or - when c is a string and every item is a character - the string."""
    if c[0] == 's':
        if all(x[0] == 'c' for x in items):
            return S(''.join(x[1] for x in items))
        return None
    return L(*items)


def num(c):
    return c[1]


def mknum(x, as_int):
    return I(x) if as_int else R(x)


# ---------------------------------------------------------------------------------------------
# Match (three-valued: True / False / None = the reference does not decide)

def match3(a, b):
    ta, tb = a[0], b[0]
    if ta in 'ir' and tb in 'ir':
        if ta != tb:
            return None if num(a) == num(b) else (False if abs(num(a) - num(b)) > 1e-6 * max(abs(num(a)), abs(num(b)), 1e-300) else None)
        if ta == 'i':
            return num(a) == num(b)
        x, y = num(a), num(b)
        if x == y:
            return True
        if abs(x - y) > 1e-6 * max(abs(x), abs(y)):
            return False
        return None
    if ta == 'l' and tb == 'l':
        if len(a[1]) != len(b[1]):
            return False
        res = True
        for x, y in zip(a[1], b[1]):
            m = match3(x, y)
            if m is False:
                return False
            if m is None:
                res = None
        return res
    if ta == tb and ta in 'csy':
        return a[1] == b[1]
    if ta == 'u' or tb == 'u':
        return None
    # kinds differ
    kinds = {ta, tb}
    if kinds <= {'c', 's'} or kinds == {'s', 'l'} or kinds == {'c', 'l'}:
        return None            # character / string / list-of-characters relations are not fixed by the text
    if 'd' in kinds or 'fn' in kinds or 'none' in kinds or 'obj' in kinds:
        return None
    return False


# ---------------------------------------------------------------------------------------------
# lifting of atomic verbs (extension rule)

def lift1(f):
    def g(a):
        if is_list(a):
            out = []
            for x in a[1]:
                r = g(x)
                if r is NJ or r[0] != 'val':
                    return NJ
                out.append(r[1])
            return val(L(*out))
        return f(a)
    return g


def lift2(f):
    def g(a, b):
        la, lb = is_list(a), is_list(b)
        if (la and not a[1] and not lb) or (lb and not b[1] and not la):
            # an empty list against an atom: no application takes place, so the atom's kind is never looked at;
            # only judged when the atom is a number (every atomic verb accepts numbers somewhere)
            atom = b if la else a
            if not is_num(atom):
                return NJ
        if la and lb:
            if len(a[1]) != len(b[1]):
                return NJ
            pairs = zip(a[1], b[1])
        elif la:
            pairs = ((x, b) for x in a[1])
        elif lb:
            pairs = ((a, y) for y in b[1])
        else:
            return f(a, b)
        out = []
        for x, y in pairs:
            r = g(x, y)
            if r is NJ or r[0] != 'val':
                return NJ
            out.append(r[1])
        return val(L(*out))
    return g


# ---------------------------------------------------------------------------------------------
# monads

def m_atom(a):
    if a[0] in 'ircy':
        return val(I(1))
    if a[0] in 'ls':
        return val(I(0 if len(a[1]) else 1))
    return NJ


def _char(a):
    if is_int(a) and 0 <= num(a) <= 0x10FFFF and not (0xD800 <= num(a) <= 0xDFFF):
        return val(C(chr(num(a))))
    return NJ


m_char = lift1(_char)


def m_enumerate(a):
    if is_int(a) and 0 <= num(a) <= 1000:
        return val(L(*[I(i) for i in range(num(a))]))
    return NJ


def m_expand(a):
    if is_int(a) and 0 <= num(a) <= 1000:
        return val(L(*[I(0)] * num(a)))
    if is_list(a) and all(is_int(x) and 0 <= num(x) <= 100 for x in a[1]):
        out = []
        for i, x in enumerate(a[1]):
            out.extend([I(i)] * num(x))
        return val(L(*out))
    return NJ


def m_first(a):
    if is_list(a):
        return val(a[1][0] if a[1] else a)
    if is_str(a):
        return val(C(a[1][0]) if a[1] else a)
    if a[0] in 'ircy':
        return val(a)
    return NJ


def _floor(a):
    if is_num(a) and abs(num(a)) < BIG and num(a) == num(a):
        return val(I(math.floor(num(a))))
    return NJ


m_floor = lift1(_floor)


def _format(a):
    if is_int(a):
        return val(S(str(num(a))))
    if is_real(a):
        x = num(a)
        if x != x or abs(x) == float('inf'):
            return NJ

        def ok(got):
            if got[0] != 's':
                return False
            try:
                return float(got[1]) == x and not got[1].strip() != got[1]
            except ValueError:
                return False
        return acc(ok, 'a string that reads back to %r' % x)
    if is_str(a):
        return val(a)
    if a[0] == 'c':
        return val(S(a[1]))
    if a[0] == 'y':
        return val(S(':' + a[1]))
    return NJ


m_format = lift1(_format)


def cmp3(a, b):
    """Reference order: -1 / 0 / 1, or None when the two values are not comparable by the text."""
    ta, tb = a[0], b[0]
    if ta in 'ir' and tb in 'ir':
        return (num(a) > num(b)) - (num(a) < num(b))
    if ta == tb and ta in 'csy':
        return (a[1] > b[1]) - (a[1] < b[1])
    if ta == 'l' and tb == 'l':
        for x, y in zip(a[1], b[1]):
            c = cmp3(x, y)
            if c is None:
                return None
            if c != 0:
                return c
        return 0 if len(a[1]) == len(b[1]) else None
    return None


def _grade(a, down):
    if not is_seq(a):
        return NJ
    el = elems(a)
    n = len(el)
    for i in range(n):
        for j in range(i + 1, n):
            if cmp3(el[i], el[j]) is None:
                return NJ

    def ok(got):
        if got[0] != 'l' or len(got[1]) != n or any(x[0] != 'i' for x in got[1]):
            return False
        p = [x[1] for x in got[1]]
        if sorted(p) != list(range(n)):
            return False
        for u, v in zip(p, p[1:]):
            c = cmp3(el[u], el[v])
            if (c < 0) if down else (c > 0):
                return False
        return True
    return acc(ok, 'a permutation of 0..%d that puts the elements in %s order' % (n - 1, 'descending' if down else 'ascending'))


def m_grade_up(a):
    return _grade(a, False)


def m_grade_down(a):
    return _grade(a, True)


def m_group(a):
    if not is_seq(a):
        return NJ
    el = elems(a)
    groups = []
    for i, x in enumerate(el):
        for g in groups:
            m = match3(el[g[0]], x)
            if m is None:
                return NJ
            if m:
                g.append(i)
                break
        else:
            groups.append([i])
    return val(L(*[L(*[I(i) for i in g]) for g in groups]))


def m_list(a):
    if a[0] == 'c':
        return acc(lambda got: got in (L(a), S(a[1])), 'the list [%s] or the string "%s"' % ('0c' + a[1], a[1]))
    if a[0] in 'irsyl':
        return val(L(a))
    return NJ


def _negate(a):
    if is_num(a):
        return val(mknum(-num(a), is_int(a)))
    return NJ


m_negate = lift1(_negate)


def m_not(a):
    if is_int(a):
        return val(I(1 if num(a) == 0 else 0))
    if is_real(a):
        return val(I(0)) if num(a) != 0 else NJ
    if a[0] in 'cy':
        return val(I(0))
    if a[0] in 'ls':
        return val(I(1)) if len(a[1]) == 0 else (val(I(0)) if a[0] == 's' else NJ)
    return NJ


def m_range(a):
    if not is_seq(a):
        return NJ
    out = []
    for x in elems(a):
        for y in out:
            m = match3(x, y)
            if m is None:
                return NJ
            if m:
                break
        else:
            out.append(x)
    return val(mk_like(a, out))


def _recip(a):
    if is_num(a) and num(a) != 0:
        return val(R(1.0 / num(a)))
    return NJ


_recip_l = lift1(_recip)


def m_reciprocal(a):
    if is_num(a) and num(a) == 0:
        return val(U)
    return _recip_l(a)


def m_reverse(a):
    if is_list(a):
        return val(L(*reversed(a[1])))
    if is_str(a):
        return val(S(a[1][::-1]))
    if a[0] in 'ircy':
        return val(a)
    return NJ


def _shape(a):
    """tuple of dims, or None when the text does not decide."""
    if a[0] in 'ircy':
        return ()
    if a[0] == 's':
        return (len(a[1]),)
    if a[0] == 'l':
        n = len(a[1])
        if n == 0:
            return (0,)
        subs = [_shape(x) for x in a[1]]
        if any(s is None for s in subs):
            return None
        if any(s == () for s in subs):
            return (n,)
        if any(s[0] == 0 for s in subs):
            return None
        if all(s == subs[0] for s in subs):
            return (n,) + subs[0]
        if len({s[0] for s in subs}) > 1:
            return (n,)
        return None                    # equal first dimension, different deeper shapes: not decided here
    return None


def m_shape(a):
    if a[0] in 'ls' and len(a[1]) == 0:
        return NJ                # [] and "" are atoms (shape 0) and a list/string of length 0 (shape [0]): not decided
    s = _shape(a)
    if s is None:
        return NJ
    if s == ():
        return val(I(0))
    return val(L(*[I(d) for d in s]))


def m_size(a):
    if a[0] in 'ls':
        return val(I(len(a[1])))
    if is_num(a):
        return val(mknum(abs(num(a)), is_int(a)))
    if a[0] == 'c':
        return val(I(ord(a[1])))
    return NJ


def m_transpose(a):
    if is_list(a):
        if len(a[1]) == 0:
            return val(a)
        rows = a[1]
        if all(is_list(r) and len(r[1]) == len(rows[0][1]) and len(r[1]) > 0 and all(x[0] in 'ircy' for x in r[1]) for r in rows):
            cols = len(rows[0][1])
            return val(L(*[L(*[r[1][j] for r in rows]) for j in range(cols)]))
    return NJ


def m_undefined(a):
    if a[0] == 'u':
        return val(I(1))
    if a[0] in 'ircsyl':
        return val(I(0))
    return NJ


MONADS = {
    '@': m_atom, ':#': m_char, '!': m_enumerate, '&': m_expand, '*': m_first, '_': m_floor, '$': m_format,
    '<': m_grade_up, '>': m_grade_down, '=': m_group, ',': m_list, '-': m_negate, '~': m_not, '?': m_range,
    '%': m_reciprocal, '|': m_reverse, '^': m_shape, '#': m_size, '+': m_transpose, ':_': m_undefined,
}

# ---------------------------------------------------------------------------------------------
# dyads

def _arith(op):
    def f(a, b):
        if not (is_num(a) and is_num(b)):
            return NJ
        x, y = num(a), num(b)
        both = is_int(a) and is_int(b)
        r = x + y if op == '+' else x - y if op == '-' else x * y
        if both and abs(r) >= BIG:
            return NJ
        if not both and (r != r or abs(r) == float('inf')):
            return NJ
        return val(mknum(r, both))
    return f


d_add, d_sub, d_mul = lift2(_arith('+')), lift2(_arith('-')), lift2(_arith('*'))


def _div(a, b):
    if is_num(a) and is_num(b) and num(b) != 0:
        return val(R(num(a) / num(b)))
    return NJ


_div_l = lift2(_div)


def d_divide(a, b):
    if is_num(a) and is_num(b) and num(b) == 0:
        return val(U)
    return _div_l(a, b)


def _trunc_div(x, y):
    q = abs(x) // abs(y)
    return q if (x >= 0) == (y >= 0) else -q


def _idiv(a, b):
    if is_int(a) and is_int(b) and num(b) != 0:
        return val(I(_trunc_div(num(a), num(b))))
    return NJ


d_int_divide = lift2(_idiv)


def _rem(a, b):
    if is_int(a) and is_int(b) and num(b) != 0:
        x, y = num(a), num(b)
        return val(I(x - y * _trunc_div(x, y)))
    return NJ


d_remainder = lift2(_rem)


def _power(a, b):
    if not (is_num(a) and is_num(b)):
        return NJ
    x, y = num(a), num(b)
    y_integral = is_int(b) or float(y).is_integer()
    if not (x > 0 or (y_integral and not (x == 0 and y < 0))):
        return NJ
    if x == 0 and y == 0:
        return NJ
    try:
        r = float(x) ** float(y)
    except (OverflowError, ZeroDivisionError):
        return NJ
    if r != r or abs(r) >= BIG:
        return NJ
    if is_int(a) and is_int(b) and y >= 0:
        return val(I(x ** y))

    def ok(got):
        if got[0] == 'r':
            return close(got, R(r), rtol=1e-12)
        if got[0] == 'i':
            return float(r).is_integer() and got[1] == int(r)
        return False
    return acc(ok, 'the number %r (integer kind accepted when integral)' % r)


d_power = lift2(_power)


def _minmax(pick):
    def f(a, b):
        if not (is_num(a) and is_num(b)):
            return NJ
        r = pick(num(a), num(b))
        if is_int(a) and is_int(b):
            return val(I(r))
        if is_real(a) and is_real(b):
            return val(R(r))
        return acc(lambda got: got[0] in 'ir' and got[1] == r, 'the number %r (kind free for mixed operands)' % r)
    return f


d_min, d_max = lift2(_minmax(min)), lift2(_minmax(max))


def _comparable(a, b):
    return (is_num(a) and is_num(b)) or (a[0] == b[0] and a[0] in 'csy')


def _less(a, b):
    if _comparable(a, b):
        return val(I(1 if a[1] < b[1] else 0))
    return NJ


def _more(a, b):
    if _comparable(a, b):
        return val(I(1 if a[1] > b[1] else 0))
    return NJ


def _equal(a, b):
    if is_num(a) and is_num(b):
        if is_real(a) or is_real(b):
            x, y = num(a), num(b)
            if x == y:
                return val(I(1))
            if abs(x - y) > 1e-6 * max(abs(x), abs(y)):
                return val(I(0))
            return NJ
        return val(I(1 if num(a) == num(b) else 0))
    if a[0] == b[0] and a[0] in 'csy':
        return val(I(1 if a[1] == b[1] else 0))
    return NJ


d_less, d_more, d_equal = lift2(_less), lift2(_more), lift2(_equal)


def d_match(a, b):
    m = match3(a, b)
    if m is None:
        return NJ
    return val(I(1 if m else 0))


def d_join(a, b):
    ta, tb = a[0], b[0]
    if 'd' in (ta, tb) or 'u' in (ta, tb) or ta not in 'ircsyl' or tb not in 'ircsyl':
        return NJ
    if ta == 'l' and tb == 'l':
        return val(L(*(a[1] + b[1])))
    if ta == 'l':
        return val(L(*(a[1] + (b,))))
    if tb == 'l':
        return val(L(*((a,) + b[1])))
    if ta == 's' and tb == 's':
        return val(S(a[1] + b[1]))
    if ta == 's' and tb == 'c':
        return val(S(a[1] + b[1]))
    if ta == 'c' and tb == 's':
        return val(S(a[1] + b[1]))
    if ta == 'c' and tb == 'c':
        return acc(lambda got: got in (L(a, b), S(a[1] + b[1])), 'the list [0c%s 0c%s] or the string "%s"' % (a[1], b[1], a[1] + b[1]))
    return val(L(a, b))


def d_take(a, b):
    if not (is_int(a) and is_seq(b)) or abs(num(a)) > 1000:
        return NJ
    el = elems(b)
    n, k = len(el), num(a)
    if n == 0:
        return val(b) if k == 0 else NJ
    if k >= 0:
        out = [el[i % n] for i in range(k)]
    else:
        k = -k
        out = [el[(n - k + i) % n] for i in range(k)]
    return val(mk_like(b, out))


def d_drop(a, b):
    if not (is_int(a) and is_seq(b)):
        return NJ
    el = elems(b)
    k = num(a)
    out = el[k:] if k >= 0 else el[:max(0, len(el) + k)]
    return val(mk_like(b, out))


def d_index(a, b):
    if not is_seq(a):
        return NJ
    el = elems(a)
    n = len(el)
    if is_int(b):
        if 0 <= num(b) < n:
            return val(el[num(b)])
        return NJ
    if is_list(b) and all(is_int(x) and 0 <= num(x) < n for x in b[1]):
        out = [el[num(x)] for x in b[1]]
        if not out:
            return acc(lambda got: got in (L(), S('')), 'an empty list or string')
        return val(mk_like(a, out))
    return NJ


def d_index_in_depth(a, b):
    if not (is_list(a) and is_list(b) and len(b[1]) >= 1 and all(is_int(x) for x in b[1])):
        return NJ
    sh = _shape(a)
    if sh is None or len(sh) != len(b[1]) or any(x[0] == 's' for x in _leaves(a)):
        return NJ
    cur = a
    for x in b[1]:
        if not (is_list(cur) and 0 <= num(x) < len(cur[1])):
            return NJ
        cur = cur[1][num(x)]
    return val(cur)


def _leaves(a):
    if is_list(a):
        out = []
        for x in a[1]:
            out.extend(_leaves(x))
        return out
    return [a]


def d_find(a, b):
    if b[0] not in 'ircsyl':
        return NJ
    if is_str(a):
        if is_str(b):
            s, sub = a[1], b[1]
            pos = [i for i in range(len(s) - len(sub) + 1) if s.startswith(sub, i)] if sub else list(range(len(s) + 1))
            return val(L(*[I(i) for i in pos]))
        if b[0] == 'c':
            return val(L(*[I(i) for i, ch in enumerate(a[1]) if ch == b[1]]))
        return NJ
    if is_list(a):
        pos = []
        for i, x in enumerate(a[1]):
            m = match3(x, b)
            if m is None:
                return NJ
            if m:
                pos.append(i)
        return val(L(*[I(i) for i in pos]))
    return NJ


def _sizes(a):
    if is_int(a) and num(a) > 0:
        return [num(a)]
    if is_list(a) and a[1] and all(is_int(x) and num(x) > 0 for x in a[1]):
        return [num(x) for x in a[1]]
    return None


def d_split(a, b):
    sz = _sizes(a)
    if sz is None or not is_seq(b):
        return NJ
    el = elems(b)
    out, i, k = [], 0, 0
    while i < len(el):
        n = sz[k % len(sz)]
        out.append(mk_like(b, el[i:i + n]))
        i += n
        k += 1
    return val(L(*out))


def d_cut(a, b):
    if not is_seq(b):
        return NJ
    el = elems(b)
    if is_int(a):
        pos = [num(a)]
    elif is_list(a) and a[1] and all(is_int(x) for x in a[1]):
        pos = [num(x) for x in a[1]]
    else:
        return NJ
    if any(p < 0 or p > len(el) for p in pos) or any(x > y for x, y in zip(pos, pos[1:])):
        return NJ
    if not el:
        # the reference text does not say how many empty segments an empty list cut at 0 has; the test suite of the
        # reference implementation (shipped in tests/kgtests/language/test_suite.kg) does: []:_[], 0:_[] and [0]:_[] are
        # [[]], [0 0]:_[] is [[] []], 0:_"" is [""] - one segment per position, and one for no position
        return val(L(*[mk_like(b, []) for _ in range(max(1, len(pos)))]))
    out, prev = [], 0
    for p in pos + [len(el)]:
        out.append(mk_like(b, el[prev:p]))
        prev = p
    return val(L(*out))


def d_rotate(a, b):
    if not is_int(a):
        return NJ
    if b[0] in 'ircy':
        return val(b)
    if not is_seq(b):
        return NJ
    el = elems(b)
    n = len(el)
    if n == 0:
        return val(b)
    k = num(a) % n
    return val(mk_like(b, el[n - k:] + el[:n - k]))


def _flat(b):
    """Row-major element sequence of b for Reshape, or None when the text does not decide."""
    if b[0] in 'ircy':
        return [b]
    if b[0] == 's':
        return [C(ch) for ch in b[1]]
    if b[0] == 'l':
        sh = _shape(b)
        if sh is None:
            return None
        if len(sh) == 1:
            if all(x[0] in 'ircy' for x in b[1]):
                return list(b[1])
            return None
        out = []
        for x in b[1]:
            f = _flat(x)
            if f is None:
                return None
            out.extend(f)
        return out
    return None


def d_reshape(a, b):
    if b[0] not in 'ircsyl':
        return NJ
    if is_int(a) and num(a) == 0:
        return val(b)
    if is_int(a):
        dims = [num(a)]
    elif is_list(a) and 1 <= len(a[1]) <= 3 and all(is_int(x) for x in a[1]):
        dims = [num(x) for x in a[1]]
    else:
        return NJ
    if is_list(b) and any(x[0] == 'l' for x in b[1]):
        return NJ            # nested source: the text ("sequential order") and the example [2]:^[[1 2 3]] disagree
    src = _flat(b)
    if src is None or not src:
        return NJ
    chars = b[0] == 's' or (b[0] == 'l' and all(x[0] == 'c' for x in src))
    if b[0] == 'l' and any(x[0] == 's' for x in _leaves(b)):
        return NJ
    if dims.count(-1) > 1 or any(d == 0 or d < -1 for d in dims):
        return NJ
    if -1 in dims:
        if len(src) < 2 or len(src) % 2:
            return NJ
        dims = [len(src) // 2 if d == -1 else d for d in dims]
    total = 1
    for d in dims:
        total *= d
    if total > 5000:
        return NJ
    seq = [src[i % len(src)] for i in range(total)]

    def build(ds, items):
        if len(ds) == 1:
            if chars and b[0] == 's':
                return S(''.join(x[1] for x in items))
            return L(*items)
        step = len(items) // ds[0]
        return L(*[build(ds[1:], items[i * step:(i + 1) * step]) for i in range(ds[0])])
    res = build(dims, seq)
    if chars and b[0] != 's':
        from ..values import chars_to_string
        return acc(lambda got: chars_to_string(got) == chars_to_string(res), 'characters in shape %s (as lists or strings)' % dims)
    return val(res)


def d_amend(a, b):
    if not (is_seq(a) and is_list(b) and len(b[1]) >= 2):
        return NJ
    v, pos = b[1][0], b[1][1:]
    if not all(is_int(p) for p in pos):
        return NJ
    pos = [num(p) for p in pos]
    if is_list(a):
        if any(p < 0 or p >= len(a[1]) for p in pos):
            return NJ
        if is_num(v) and any(is_num(x) and x[0] != v[0] for x in a[1]):
            return NJ            # integer into a list of reals (or vice versa): the kind of the result block is not fixed
        el = list(a[1])
        for p in pos:
            el[p] = v
        return val(L(*el))
    s = a[1]
    if v[0] == 'c':
        if any(p < 0 or p >= len(s) for p in pos):
            return NJ
        el = list(s)
        for p in pos:
            el[p] = v[1]
        return val(S(''.join(el)))
    if v[0] == 's':
        if any(p < 0 or p > len(s) for p in pos) or not v[1]:
            return NJ
        for p in pos:
            if p > len(s):
                return NJ
            s = s[:p] + v[1] + s[p + len(v[1]):]
        return val(S(s))
    return NJ


def d_amend_in_depth(a, b):
    if not (is_list(a) and is_list(b) and len(b[1]) >= 2):
        return NJ
    v, path = b[1][0], b[1][1:]
    if not all(is_int(p) for p in path):
        return NJ
    sh = _shape(a)
    if sh is None or len(sh) != len(path) or any(x[0] == 's' for x in _leaves(a)):
        return NJ

    def rep(cur, ps):
        if not (is_list(cur) and 0 <= num(ps[0]) < len(cur[1])):
            raise IndexError
        el = list(cur[1])
        el[num(ps[0])] = v if len(ps) == 1 else rep(el[num(ps[0])], ps[1:])
        return L(*el)
    try:
        return val(rep(a, path))
    except IndexError:
        return NJ


def _format2(a, b):
    if (a[0] in 'ls' and not a[1]) or (b[0] == 'l' and not b[1]):
        return NJ
    f = _format(b)
    if f is NJ:
        return NJ
    if is_int(a):
        w = num(a)
        if abs(w) > 200:
            return NJ

        def pad(t):
            return t + ' ' * (w - len(t)) if w >= 0 else ' ' * (-w - len(t)) + t
        if f[0] == 'val':
            return val(S(pad(f[1][1])))

        def ok(got):
            if got[0] != 's':
                return False
            t = got[1]
            core = t.strip(' ')
            return f[1](S(core)) and t == pad(core)
        return acc(ok, 'the formatted number padded to %d columns' % abs(w))
    if is_real(a) and is_real(b):
        txt = repr(num(a))
        if 'e' in txt or '.' not in txt or num(a) <= 0:
            return NJ
        n_s, m_s = txt.split('.')
        if len(m_s) != 1:
            return NJ
        n, m = int(n_s), int(m_s)
        x = num(b)
        if abs(x) >= 1e15 or x != x:
            return NJ
        t = '%.*f' % (m, x)
        ip, fp = t.split('.') if '.' in t else (t, '')
        # only judged when no rounding is involved in the fraction (the text does not say how to round)
        if float(t) != x:
            return NJ
        ip = ' ' * (n - len(ip)) + ip
        return val(S(ip + ('.' + fp if m else '')))
    return NJ


d_format2 = lift2(_format2)


def _valid_symbol(t):
    return bool(t) and (t[0].isalpha() or t[0] == '.') and all(ch.isalnum() or ch == '.' for ch in t)


def _form(a, b):
    if not is_str(b):
        return NJ
    if a[0] == 'l':
        return NJ
    t = b[1]
    if is_int(a):
        s = t.strip()
        if s != t:
            return NJ
        body = s[1:] if s[:1] == '-' else s
        if body.isdigit() and body.isascii():
            return val(I(int(s)))
        return val(U) if _looks_real(s) or s == '' else NJ
    if is_real(a):
        s = t
        if s == '':
            return val(U)
        if _looks_real(s) or (s.lstrip('-').isdigit() and s.isascii()):
            try:
                return val(R(float(s)))
            except ValueError:
                return NJ
        return NJ
    if a[0] == 'c':
        return val(C(t)) if len(t) == 1 else val(U)
    if a[0] == 's':
        return val(b)
    if a[0] == 'y':
        name = t[1:] if t.startswith(':') else t
        if _valid_symbol(name):
            return val(Y(name))
        return val(U) if t == '' else NJ
    return NJ


def _looks_real(s):
    body = s[1:] if s[:1] == '-' else s
    if body.count('.') != 1:
        return False
    i, f = body.split('.')
    return i.isdigit() and f.isdigit() and body.isascii()


d_form = lift2(_form)


DYADS = {
    '+': d_add, '-': d_sub, '*': d_mul, '%': d_divide, ':%': d_int_divide, '!': d_remainder, '^': d_power,
    '&': d_min, '|': d_max, '<': d_less, '>': d_more, '=': d_equal, '~': d_match, ',': d_join, '#': d_take,
    '_': d_drop, '@': d_index, ':@': d_index_in_depth, '?': d_find, ':#': d_split, ':_': d_cut, ':+': d_rotate,
    ':^': d_reshape, ':=': d_amend, ':-': d_amend_in_depth, '$': d_format2, ':$': d_form,
}


def judge(expected, got):
    """expected from a model function (not NJ), got = normalised canonical result -> (ok, description of expectation)."""
    from ..values import show
    if expected[0] == 'val':
        e = norm(expected[1])
        return close(e, got, rtol=1e-12), show(e)
    return bool(expected[1](got)), expected[2]

"""Reference for C06: forward-mode dual numbers in pure Python over the harness's own expression trees.

Nothing here imports klongpy, numpy or torch.  A tree is a nested tuple (JSON-able once tuples become lists):

    ('var', name)              a parameter as a whole (vector or scalar, decided by the environment)
    ('idx', name, i)           name@i, one component of a vector parameter          (a leaf: 1 node)
    ('vidx', V, i)             (V)@i, one component of a vector-valued sub-tree
    ('un', fn, E)              fn in UNARY: 'neg' is Klong's monadic minus, the others are the backend functions
                               imported with .bkf; E scalar or vector (element-wise)
    ('cb', op, c, side, E)     constant operand: side 'l' is  c op E,  side 'r' is  E op c    (op in + - * %)
    ('pow', c, E)              E^c with a constant exponent
    ('bin', op, A, B)          A op B, scalar/scalar, vector/vector (same length), scalar/vector (extension)
    ('red', '+' | '*' | '|' | '&', V)      +/V   */V   |/V   &/V
    ('each', lam, V)           lam'V  with lam a key of LAMBDAS (a smooth monadic lambda applied to every element)
    ('join', A, B)             (A),(B)  -- only at the top of vector-valued functions (Jacobian checks)

An environment is a list of (name, length) with length None for a scalar parameter; the point is the flat list of all
parameter components in that order, and derivatives are taken with respect to every flat component.

`evaluate(tree, env, point)` returns a Dual (scalar-valued tree) or a list of Duals; each Dual carries the value and the
tuple of exact partial derivatives.  Where the tree is not smooth at the point, or badly scaled (see LIMITS), it raises
NotSmooth: the point is then outside the domain the property quantifies over.
"""
import math

UNARY = ('neg', 'exp', 'sin', 'cos', 'tanh', 'sqrt', 'log')
BINOPS = ('+', '-', '*', '%')
VIEWS = ('rev', 'drop1', 'take2')      # |E  1_E  2#E
CVEC = (0.5, 2.0)                       # ('cvx', name): the constant real list scaled by a scalar parameter

# Smooth lambdas used under Each: key -> (Klong text, tree over the lambda's own scalar parameter 'x')
LAMBDAS = {
    'sq': ('{x*x}', ('bin', '*', ('var', 'x'), ('var', 'x'))),
    'lz': ('{1%(1+(x*x))}', ('cb', '%', 1, 'l', ('cb', '+', 1, 'l', ('bin', '*', ('var', 'x'), ('var', 'x'))))),
}

# LIMITS: a point belongs to the smooth, well-scaled domain of a tree only if every divisor, every argument of log and
# sqrt and every base of a non-integer or negative power stays at least MARGIN away from the singularity, and no
# intermediate value or derivative exceeds BIG in magnitude (central differences with a fixed step and float32
# arithmetic are not meaningful beyond that; the property speaks of points "where it is smooth").
MARGIN = 0.1
BIG = 1.0e6


class NotSmooth(Exception):
    pass


class Dual:
    __slots__ = ('v', 'd')

    def __init__(self, v, d):
        self.v = float(v)
        self.d = tuple(d)
        if not (abs(self.v) <= BIG) or any(not (abs(x) <= BIG) for x in self.d):
            raise NotSmooth('magnitude')

    def __repr__(self):
        return 'Dual(%r, %r)' % (self.v, self.d)


def const(c, n):
    return Dual(c, (0.0,) * n)


def _lin(a, ka, b, kb, v):
    """value v with derivative ka*a' + kb*b'"""
    return Dual(v, tuple(ka * x + kb * y for x, y in zip(a.d, b.d)))


def add(a, b):
    return _lin(a, 1.0, b, 1.0, a.v + b.v)


def sub(a, b):
    return _lin(a, 1.0, b, -1.0, a.v - b.v)


def mul(a, b):
    return _lin(a, b.v, b, a.v, a.v * b.v)


def div(a, b):
    if abs(b.v) < MARGIN:
        raise NotSmooth('divisor near 0')
    return _lin(a, 1.0 / b.v, b, -a.v / (b.v * b.v), a.v / b.v)


def _chain(a, v, dv):
    return Dual(v, tuple(dv * x for x in a.d))


def powc(a, c):
    """a ^ c, c a constant.  Non-negative integer c: smooth everywhere; negative integer: away from 0; otherwise a > 0."""
    if float(c) == int(c):
        n = int(c)
        if n < 0 and abs(a.v) < MARGIN:
            raise NotSmooth('negative power near 0')
        if n == 0:
            return _chain(a, 1.0, 0.0)
        return _chain(a, a.v ** n, n * a.v ** (n - 1))
    if a.v < MARGIN:
        raise NotSmooth('real power of a non-positive base')
    return _chain(a, a.v ** c, c * a.v ** (c - 1))


def powv(a, b):
    """a ^ b with both operands varying: defined and smooth for a > 0 (d = a^b (b' ln a + b a'/a))."""
    if a.v < MARGIN:
        raise NotSmooth('variable power of a non-positive base')
    if abs(b.v) * abs(math.log(a.v)) > 30:
        raise NotSmooth('magnitude')
    v = a.v ** b.v
    return _lin(a, v * b.v / a.v, b, v * math.log(a.v), v)


def _exp(a):
    if a.v > 30:
        raise NotSmooth('magnitude')
    e = math.exp(a.v)
    return _chain(a, e, e)


def _tanh(a):
    t = math.tanh(a.v)
    dv = 1.0 - t * t
    p = _P
    if p is not None:
        # sensitivity(): the local derivative 1 - y^2 is the one place where a derivative *formula* cancels; a relative
        # perturbation of y moves it by 2 y^2 delta in absolute terms (unbounded relative error near saturation)
        if p['i'] == p['k']:
            dv += 2.0 * t * t * p['delta']
        p['i'] += 1
    return _chain(a, t, dv)


def _sqrt(a):
    if a.v < MARGIN:
        raise NotSmooth('sqrt near or below 0')
    s = math.sqrt(a.v)
    return _chain(a, s, 0.5 / s)


def _log(a):
    if a.v < MARGIN:
        raise NotSmooth('log near or below 0')
    return _chain(a, math.log(a.v), 1.0 / a.v)


UN_IMPL = {
    'neg': lambda a: _chain(a, -a.v, -1.0),
    'exp': _exp,
    'sin': lambda a: _chain(a, math.sin(a.v), math.cos(a.v)),
    'cos': lambda a: _chain(a, math.cos(a.v), -math.sin(a.v)),
    'tanh': _tanh,
    'sqrt': _sqrt,
    'log': _log,
}
BIN_IMPL = {'+': add, '-': sub, '*': mul, '%': div}


def _map1(f, a):
    return [f(e) for e in a] if isinstance(a, list) else f(a)


def _map2(f, a, b):
    la, lb = isinstance(a, list), isinstance(b, list)
    if la and lb:
        if len(a) != len(b):
            raise ValueError('length mismatch')
        return [f(x, y) for x, y in zip(a, b)]
    if la:
        return [f(x, b) for x in a]
    if lb:
        return [f(a, y) for y in b]
    return f(a, b)


def flat_size(env):
    return sum(1 if ln is None else ln for _, ln in env)


def bind(env, point):
    """name -> Dual or list of Duals, seeded with unit tangents over the flat parameter vector."""
    n = flat_size(env)
    if len(point) != n:
        raise ValueError('point has %d components, environment %d' % (len(point), n))
    out, k = {}, 0
    for name, ln in env:
        if ln is None:
            out[name] = Dual(point[k], tuple(1.0 if j == k else 0.0 for j in range(n)))
            k += 1
        else:
            out[name] = [Dual(point[k + i], tuple(1.0 if j == k + i else 0.0 for j in range(n))) for i in range(ln)]
            k += ln
    return out, n


_P = None       # {'k': slot to perturb, 'i': running slot counter, 'delta': relative perturbation} during sensitivity()


def _ev(t, b, n):
    r = _ev0(t, b, n)
    p = _P
    if p is not None and t[0] not in ('var', 'idx', 'vidx', 'join', 'view'):
        # every element of every operator result is one slot; slot k gets its value (not its tangent) scaled by 1+delta
        if isinstance(r, list):
            for j, e in enumerate(r):
                if p['i'] == p['k']:
                    r = list(r)
                    r[j] = Dual(e.v * (1.0 + p['delta']), e.d)
                p['i'] += 1
        else:
            if p['i'] == p['k']:
                r = Dual(r.v * (1.0 + p['delta']), r.d)
            p['i'] += 1
    return r


def _ev0(t, b, n):
    k = t[0]
    if k == 'var':
        return b[t[1]]
    if k == 'cvx':
        return [mul(const(c, n), b[t[1]]) for c in CVEC]
    if k == 'idx':
        return b[t[1]][t[2]]
    if k == 'vidx':
        return _ev(t[1], b, n)[t[2]]
    if k == 'un':
        return _map1(UN_IMPL[t[1]], _ev(t[2], b, n))
    if k == 'cb':
        _, op, c, side, e = t
        cd = const(c, n)
        f = BIN_IMPL[op]
        if side == 'l':
            return _map1(lambda a: f(cd, a), _ev(e, b, n))
        return _map1(lambda a: f(a, cd), _ev(e, b, n))
    if k == 'pow':
        return _map1(lambda a: powc(a, t[1]), _ev(t[2], b, n))
    if k == 'bin':
        return _map2(BIN_IMPL[t[1]], _ev(t[2], b, n), _ev(t[3], b, n))
    if k == 'bpow':             # scalar ^ scalar, both sub-trees vary
        x, y = _ev(t[1], b, n), _ev(t[2], b, n)
        if isinstance(x, list) or isinstance(y, list):
            raise ValueError('bpow of a vector')
        return powv(x, y)
    if k == 'cexp':             # constant ^ tree
        return _map1(lambda a: powv(const(t[1], n), a), _ev(t[2], b, n))
    if k == 'red':
        v = _ev(t[2], b, n)
        if not isinstance(v, list) or not v:
            raise ValueError('reduction of a non-vector')
        if t[1] in '|&':
            # Max-Over / Min-Over: the derivative is that of the extreme element; two elements (nearly) sharing the
            # extreme value are a kink of the function - no derivative is prescribed there
            order = sorted(v, key=lambda e: e.v, reverse=(t[1] == '|'))
            if len(order) > 1 and abs(order[0].v - order[1].v) <= 1e-3 * max(1.0, abs(order[0].v)):
                raise NotSmooth('max/min over elements that (nearly) tie')
            return order[0]
        acc = v[0]
        for e in v[1:]:
            acc = add(acc, e) if t[1] == '+' else mul(acc, e)
        return acc
    if k == 'each':
        body = LAMBDAS[t[1]][1]
        v = _ev(t[2], b, n)
        if not isinstance(v, list):
            raise ValueError('each of a non-vector')
        return [_ev(body, {'x': e}, n) for e in v]
    if k == 'join':
        x, y = _ev(t[1], b, n), _ev(t[2], b, n)
        return (x if isinstance(x, list) else [x]) + (y if isinstance(y, list) else [y])
    if k == 'view':
        # structural list operations (no arithmetic): their result may share memory with the operand in the implementation
        v = _ev(t[2], b, n)
        if not isinstance(v, list):
            raise ValueError('view of a non-vector')
        if t[1] == 'rev':
            return v[::-1]
        if len(v) < 2:
            raise NotSmooth('drop/take of a list shorter than 2 (empty result / cyclic take)')
        return v[1:] if t[1] == 'drop1' else v[:2]
    raise ValueError('unknown node %r' % (t,))


def evaluate(tree, env, point):
    b, n = bind(env, point)
    return _ev(tree, b, n)


def sensitivity(tree, env, point, delta=1e-6):
    """First-order conditioning of the exact value and derivative with respect to a relative perturbation of every
    intermediate result: returns (Sv, Sd) with Sv[r] = sum_i |t_i df_r/dt_i| and Sd[r][j] = sum_i |t_i d(df_r/dx_j)/dt_i|
    (rows r of a vector-valued tree; one row for a scalar one), or None when a perturbed run leaves the smooth domain.
    unit_roundoff * Sd bounds, to first order, the error any evaluation of the derivative in that arithmetic commits."""
    global _P
    base = evaluate(tree, env, point)
    rows = base if isinstance(base, list) else [base]
    _P = {'k': -1, 'i': 0, 'delta': delta}
    try:
        evaluate(tree, env, point)
        slots = _P['i']
        sv = [0.0] * len(rows)
        sd = [[0.0] * len(rows[0].d) for _ in rows]
        for k in range(slots):
            _P = {'k': k, 'i': 0, 'delta': delta}
            try:
                r = evaluate(tree, env, point)
            except NotSmooth:
                return None
            rr = r if isinstance(r, list) else [r]
            for a, (x, y) in enumerate(zip(rr, rows)):
                sv[a] += abs(x.v - y.v) / delta
                for j in range(len(y.d)):
                    sd[a][j] += abs(x.d[j] - y.d[j]) / delta
    finally:
        _P = None
    return sv, sd


def ideal_central_difference(tree, env, point, h):
    """C[r][j] = (f_r(p + h e_j) - f_r(p - h e_j)) / 2h with the reference's own double-precision values: what a faultless
    central difference with step h yields (truncation h^2 f'''/6 and rounding included).  None outside the domain."""
    base = evaluate(tree, env, point)
    rows = base if isinstance(base, list) else [base]
    n = len(point)
    out = [[0.0] * n for _ in rows]
    for j in range(n):
        side = []
        for s in (-h, h):
            q = list(point)
            q[j] += s
            try:
                r = evaluate(tree, env, q)
            except NotSmooth:
                return None
            side.append(r if isinstance(r, list) else [r])
        for a in range(len(rows)):
            out[a][j] = (side[1][a].v - side[0][a].v) / (2.0 * h)
    return out


def value_only(tree, env, point):
    """Plain float evaluation (used by the self-test as an independent cross-check of the derivative rules)."""
    r = evaluate(tree, env, point)
    return [e.v for e in r] if isinstance(r, list) else r.v


def size(t):
    """Number of nodes: every tuple of the tree counts 1 (constants are part of their operator)."""
    k = t[0]
    if k in ('var', 'idx', 'cvx'):
        return 1
    if k in ('vidx', 'red', 'each'):
        return 1 + size(t[1] if k == 'vidx' else t[2])
    if k == 'un':
        return 1 + size(t[2])
    if k == 'cb':
        return 1 + size(t[4])
    if k == 'pow':
        return 1 + size(t[2])
    if k == 'bin':
        return 1 + size(t[2]) + size(t[3])
    if k == 'bpow':
        return 1 + size(t[1]) + size(t[2])
    if k == 'cexp':
        return 1 + size(t[2])
    if k == 'join':
        return 1 + size(t[1]) + size(t[2])
    if k == 'view':
        return 1 + size(t[2])
    raise ValueError(t)


# ---------------------------------------------------------------------------------------------
# example table: closed-form derivatives known from calculus (not from the implementation)

def _examples():
    X2 = [('x', 2)]
    X3 = [('x', 3)]
    XS = [('x', None)]
    x0, x1 = ('idx', 'x', 0), ('idx', 'x', 1)
    s, c, e = math.sin, math.cos, math.exp
    return [
        # (tree, env, point, value, gradient)        docstring examples of :> first
        (('pow', 2, ('var', 'x')), XS, [3.0], 9.0, [6.0]),                                        # {x^2}:>3.0 --> 6.0
        (('pow', 3, ('var', 'x')), XS, [2.0], 8.0, [12.0]),                                       # {x^3}:>2.0 --> 12.0
        (('red', '+', ('pow', 2, ('var', 'x'))), X3, [1.0, 2.0, 3.0], 14.0, [2.0, 4.0, 6.0]),     # {+/x^2}:>[1 2 3]
        (('red', '*', ('var', 'x')), X3, [0.5, 2.0, 3.0], 3.0, [6.0, 1.5, 1.0]),
        (('bin', '*', ('un', 'sin', x0), ('un', 'exp', x1)), X2, [0.5, -1.5], s(0.5) * e(-1.5),
         [c(0.5) * e(-1.5), s(0.5) * e(-1.5)]),
        (('bin', '%', x0, x1), X2, [0.5, -2.0], -0.25, [-0.5, -0.125]),
        (('pow', -1, x0), X2, [0.5, 2.0], 2.0, [-4.0, 0.0]),
        (('pow', 0.5, x0), X2, [2.0, 3.0], math.sqrt(2.0), [0.5 / math.sqrt(2.0), 0.0]),
        (('un', 'log', ('red', '+', ('var', 'x'))), X2, [0.5, 1.0], math.log(1.5), [1 / 1.5, 1 / 1.5]),
        (('un', 'tanh', ('cb', '*', 2, 'l', x1)), X2, [3.0, 0.5], math.tanh(1.0), [0.0, 2 * (1 - math.tanh(1.0) ** 2)]),
        (('cb', '-', 2, 'l', ('un', 'neg', x0)), X2, [1.0, 1.0], 3.0, [1.0, 0.0]),
        (('cb', '%', 2, 'r', ('un', 'sqrt', x0)), X2, [2.0, 1.0], math.sqrt(2) / 2, [0.25 / math.sqrt(2), 0.0]),
        (('red', '+', ('each', 'sq', ('var', 'x'))), X2, [-1.5, 2.0], 6.25, [-3.0, 4.0]),
        (('vidx', ('each', 'lz', ('var', 'x')), 1), X2, [3.0, 2.0], 0.2, [0.0, -4.0 / 25.0]),
        (('red', '+', ('bin', '*', ('var', 'w'), ('var', 'b'))), [('w', 2), ('b', None)], [1.0, 2.0, 0.5], 1.5,
         [0.5, 0.5, 3.0]),
    ]


def _jac_examples():
    X2 = [('x', 2)]
    x0, x1 = ('idx', 'x', 0), ('idx', 'x', 1)
    return [
        # .jacobian docstring: f::{[x@0^2 x@1^2]}; .jacobian(f;[1 2]) --> [[2 0] [0 4]]
        (('join', ('pow', 2, x0), ('pow', 2, x1)), X2, [1.0, 2.0], [[2.0, 0.0], [0.0, 4.0]]),
        (('pow', 2, ('var', 'x')), X2, [1.0, 2.0], [[2.0, 0.0], [0.0, 4.0]]),
        (('bin', '*', ('var', 'x'), x1), X2, [3.0, 2.0], [[2.0, 3.0], [0.0, 4.0]]),
    ]


def selftest(trees=()):
    """Example table, then (for the given trees as well) the derivative rules against a Richardson-extrapolated central
    difference of the *value* rules in plain floats - two independent routes to the same number."""
    def near(a, b, tol=1e-12):
        return abs(a - b) <= tol * max(1.0, abs(a), abs(b))

    n = 0
    for tree, env, pt, val, grad in _examples():
        r = evaluate(tree, env, pt)
        if not near(r.v, val) or len(r.d) != len(grad) or not all(near(a, b) for a, b in zip(r.d, grad)):
            raise AssertionError('dual example failed: %r at %r -> %r, expected %r %r' % (tree, pt, r, val, grad))
        n += 1
    for tree, env, pt, jac in _jac_examples():
        r = evaluate(tree, env, pt)
        got = [list(e.d) for e in r]
        if len(got) != len(jac) or not all(near(a, b) for ra, rb in zip(got, jac) for a, b in zip(ra, rb)):
            raise AssertionError('dual jacobian example failed: %r -> %r, expected %r' % (tree, got, jac))
        n += 1
    m = 0
    pool = [(t, e, p) for t, e, p, _, _ in _examples()] + [(t, e, p) for t, e, p, _ in _jac_examples()] + list(trees)
    for tree, env, pt in pool:
        try:
            r = evaluate(tree, env, pt)
        except NotSmooth:
            continue
        rows = r if isinstance(r, list) else [r]
        for j in range(len(pt)):
            def val(h):
                q = list(pt)
                q[j] += h
                v = value_only(tree, env, q)
                return v if isinstance(v, list) else [v]
            try:
                h = 1e-3
                d1 = [(a - b) / (2 * h) for a, b in zip(val(h), val(-h))]
                d2 = [(a - b) / (4 * h) for a, b in zip(val(2 * h), val(-2 * h))]
            except NotSmooth:
                continue
            for i, row in enumerate(rows):
                fd = (4 * d1[i] - d2[i]) / 3.0                      # O(h^4)
                scale = max(1.0, abs(row.d[j]), max(abs(x.v) for x in rows))
                if abs(fd - row.d[j]) > 1e-6 * scale * 50:
                    raise AssertionError('dual rule disagrees with finite difference: %r at %r d%d: %r vs %r'
                                         % (tree, pt, j, row.d[j], fd))
                m += 1
    return n, m

"""Reference model of the Klong adverbs: every definition of the reference text (quoted in the docstrings of
klongpy/adverbs.py and of klongpy.interpreter.chain_adverbs) written out in terms of an abstract plain application

    ap(f, x)  /  ap(f, x, y)        -> canonical value (mc.values), or raises NotJudged

so the model holds no knowledge about any verb.  `f` is an opaque token for `ap`, or a Python closure (the monad that a
verb-adverb combination forms inside a chain).  All operands and results are canonical values.

A model function returns
    a canonical value,
    ('alt', [c1, c2, ...])    where the text admits several readings / representations: any of them is accepted,
    ('bag', [c1, ...])        for f'dictionary: "the resulting list will be in some random order" (multiset).

Where the text is silent the model raises NotJudged (the case is counted, not compared):
    * Each-2 of an atom and a list; Each-Index of an atom; a predicate value that is not an integer (While);
    * "" in a position where the text only speaks about [] is accepted as "" or [] (representation freedom).
Where the text gives two formulas that differ (a f/b "is" f(...f(f(a;b1);b2)...;bN) and "formally" f/a,b - these differ
when a is a list) both readings are computed and either is accepted; the case is judged only if both are defined.
"""
from ..values import I, R, C, S, Y, L, norm, chars_to_string, close
from . import verbs

MAX_STEPS = 50


class NotJudged(Exception):
    """The expansion leaves the domain on which reference + plain applications define a value."""

    def __init__(self, reason, detail=''):
        Exception.__init__(self, reason, detail)
        self.reason, self.detail = reason, detail


class NonTerminating(NotJudged):
    def __init__(self, detail=''):
        NotJudged.__init__(self, 'expansion-not-terminating-within-%d-steps' % MAX_STEPS, detail)


# ---------------------------------------------------------------------------------------------
# helpers over canonical values

def is_seq(a):
    return a[0] in 'ls'


def is_empty(a):
    return a[0] in 'ls' and len(a[1]) == 0


def is_atom(a):
    """Klong atoms: everything but non-empty lists and strings (`@[]` and `@""` are 1)."""
    return not is_seq(a) or is_empty(a)


def seq(a):
    return list(a[1]) if a[0] == 'l' else [C(ch) for ch in a[1]]


def plain(x):
    """A model result used as an operand again must be a single value."""
    if x[0] in ('alt', 'bag'):
        raise NotJudged('ambiguous-intermediate')
    return x


def _empty_result(*operands):
    """The text says "return []"; when the empty operand is "" the representation of the empty result is free."""
    if any(o == L() for o in operands):
        return L()
    return ('alt', [L(), S('')])


def _alts(cands):
    """Collapse candidate readings; every reading must be defined (a NotJudged reading leaves the case open)."""
    out = []
    for c in cands:
        for x in (c[1] if c[0] == 'alt' else [c]):
            if x not in out:
                out.append(x)
    return out[0] if len(out) == 1 else ('alt', out)


MAX_NODES = 400


def nodes(c, budget=MAX_NODES + 1):
    """Number of nodes of a canonical value, counted up to budget."""
    if c[0] == 's':
        return 1 + len(c[1])
    if c[0] != 'l':
        return 1
    n = 1
    for e in c[1]:
        n += nodes(e, budget - n)
        if n >= budget:
            break
    return n


MAX_DEPTH = 8


def depth(c, budget=MAX_DEPTH + 1):
    if c[0] != 'l' or budget <= 0:
        return 0
    return 1 + max([depth(e, budget - 1) for e in c[1]] or [0])


def call(ap, f, *args):
    args = [norm(plain(a)) for a in args]
    r = norm(plain(f(*args))) if callable(f) else norm(ap(f, *args))
    if nodes(r) > MAX_NODES or depth(r) > MAX_DEPTH:
        # an expansion whose values keep growing ({x,x}:~a, ,:~a) is treated like one that does not terminate
        raise NonTerminating('value with more than %d nodes or nested deeper than %d' % (MAX_NODES, MAX_DEPTH))
    return r


# ---------------------------------------------------------------------------------------------
# the sixteen adverb forms

def each(ap, f, a):
    """f'a --> f(a1),...,f(aN); atom: f(a); []: []; dictionary: f of each tuple, in some order."""
    if a[0] == 'd':
        return ('bag', [call(ap, f, L(k, v)) for k, v in sorted(a[1], key=repr)])
    if is_empty(a):
        return _empty_result(a)
    if is_seq(a):
        return L(*[call(ap, f, x) for x in seq(a)])
    return call(ap, f, a)


def each2(ap, f, a, b):
    """a f'b --> f(a1;b1),...,f(aN;bN); both atoms: f(a;b); either []: []; excess elements ignored."""
    if a == L() or b == L():
        return L()
    if is_empty(a) or is_empty(b):              # "" with something that is not []
        other = b if is_empty(a) else a
        if is_seq(other):
            return _empty_result(a, b)
        raise NotJudged('each2-empty-string-with-atom')
    if not is_seq(a) and not is_seq(b):
        return call(ap, f, a, b)
    if is_seq(a) and is_seq(b):
        return L(*[call(ap, f, x, y) for x, y in zip(seq(a), seq(b))])
    raise NotJudged('each2-atom-with-list')


def each_left(ap, f, a, b):
    """a f:\\b --> f(a;b1),...,f(a;bN); b atom: f(a;b); b []: []."""
    if is_empty(b):
        return _empty_result(b)
    if is_seq(b):
        return L(*[call(ap, f, a, x) for x in seq(b)])
    return call(ap, f, a, b)


def each_right(ap, f, a, b):
    """a f:/b --> f(b1;a),...,f(bN;a); b atom: f(b;a); b []: []."""
    if is_empty(b):
        return _empty_result(b)
    if is_seq(b):
        return L(*[call(ap, f, x, a) for x in seq(b)])
    return call(ap, f, b, a)


def each_pair(ap, f, a):
    """f:'a --> f(a1;a2),f(a2;a3),...; atom or single-element list: a."""
    if is_atom(a) or len(a[1]) == 1:
        return a
    el = seq(a)
    return L(*[call(ap, f, x, y) for x, y in zip(el, el[1:])])


def each_index(ap, f, a):
    """f@'a --> f([0;a1]),f([1;a2]),...,f([N-1;aN]) for a list a (the text says nothing about atoms)."""
    if is_empty(a):
        return _empty_result(a)
    if is_seq(a):
        return L(*[call(ap, f, L(I(i), x)) for i, x in enumerate(seq(a))])
    raise NotJudged('each-index-of-atom')


def over(ap, f, a):
    """f/a --> f(...f(f(a1;a2);a3)...;aN); single-element list: the element; atom: a."""
    if is_atom(a):
        return a
    el = seq(a)
    r = el[0]
    for x in el[1:]:
        r = call(ap, f, r, x)
    return r


def _join(a, b):
    """The `a,b` of "a f/b is equal to f/a,b": the reference Join (no application of the verb under test)."""
    r = verbs.d_join(a, b)
    if r is verbs.NJ or r[0] != 'val':
        raise NotJudged('join-of-neutral-element-outside-reference')
    return norm(r[1])


def _readings(fns):
    """All readings must be defined; equal readings collapse."""
    return _alts([fn() for fn in fns])


def over_neutral(ap, f, a, b):
    """a f/[] --> a;  a f/b --> f(...f(f(a;b1);b2)...;bN);  atoms: f(a;b);  "formally, a f/b is equal to f/a,b"."""
    def written_out():
        if is_empty(b):
            return a
        r = a
        for x in (seq(b) if is_seq(b) else [b]):
            r = call(ap, f, r, x)
        return r

    def formally():
        return over(ap, f, _join(a, b))

    if not is_seq(a) and b[0] == 'l':
        return written_out()                   # an atom joined to a list: both formulas are the same fold
    return _readings([written_out, formally])


def _prefixes(ap, f, el):
    out = [el[0]]
    r = el[0]
    for x in el[1:]:
        r = call(ap, f, r, x)
        out.append(r)
    return L(*out)


def scan_over(ap, f, a):
    """f\\a: slots a1, f(a1;a2), f(f(a1;a2);a3), ...; "if only one single argument is supplied, the argument will be
    returned in a list, e.g.: +\\1 --> [1]"."""
    if is_empty(a):
        # an empty list has no slots ([] / ""), or is the single argument returned in a list ([[]] / [""])
        return ('alt', [L(), S(''), L(a)])
    if not is_seq(a):
        return L(a)
    return _prefixes(ap, f, seq(a))


def scan_over_neutral(ap, f, a, b):
    """a f\\b "is equal to f\\a,b"; example 0,\\[1 2 3] --> [0 [0 1] [0 1 2] [0 1 2 3]]."""
    def written_out():
        return _prefixes(ap, f, [a] + (seq(b) if is_seq(b) else [b]))

    def formally():
        return scan_over(ap, f, _join(a, b))

    if is_empty(b):
        # The text does not spell this case out.  "f\\a,b" gives [a]; "\\ is like /" with "a f/[] --> a" gives the bare a,
        # which is also what the language's own test suite expects (5{(,x),y}\\[] --> 5): either is accepted.
        return _alts([written_out(), a] + ([formally()] if is_seq(a) else []))
    if not is_seq(a) and b[0] == 'l':
        return written_out()
    return _readings([written_out, formally])


def iterate(ap, f, n, a):
    """n f:*a: if n is zero return a, else a::f(a), n::n-1 and start over."""
    for _ in range(n):
        a = call(ap, f, a)
    return a


def scan_iterating(ap, f, n, a):
    """n f\\*a: like Iterate, collecting intermediate results; 3{1,x}\\*[] --> [[] [1] [1 1] [1 1 1]]."""
    if n == 0:
        # not spelled out by the text: the list of intermediate results [a], or - "like its non-scanning counterpart",
        # and as the language's own test suite expects (0,\\*1 --> 1) - the bare a: either is accepted
        return _alts([L(a), a])
    out = [a]
    for _ in range(n):
        a = call(ap, f, a)
        out.append(a)
    return L(*out)


def _converge_stops(ap, match, f, a):
    """The sequence a, f(a), f(f(a)), ... stops at the first value whose successor Matches it.  match(x, y) is
    three-valued: the text leaves "sufficiently similar" reals open, so an undecided Match is a *possible* stop and the
    first certain Match is the last possible one.  Returns [(values up to the stop, successor of the last), ...]."""
    out = [a]
    x = a
    stops = []
    for _ in range(MAX_STEPS):
        y = call(ap, f, x)
        m = match(x, y)
        if m is None or m:
            stops.append((list(out), y))
            if m:
                return stops
        out.append(y)
        x = y
    raise NonTerminating()


def converge(ap, match, f, a):
    """f:~a: the fixpoint of f, reached from a; two successive values are "the same" when they Match (the value and its
    successor differ at most within Match's tolerance: either is accepted)."""
    stops = _converge_stops(ap, match, f, a)
    return _alts([out[-1] for out, y in stops] + [y for out, y in stops])


def scan_converging(ap, match, f, a):
    """f\\~a: all intermediate results of f:~a; ,/\\~["a" ["b"] "c"] --> [["a" ["b"] "c"] ["a" "b" "c"] "abc"]."""
    stops = _converge_stops(ap, match, f, a)
    return _alts([L(*out) for out, y in stops] + [L(*(out[:-1] + [y])) for out, y in stops])


def match_ref(a, b):
    """Three-valued reference Match (True / False / None = the text does not decide), on top of verbs.match3: a string
    and a list of characters are one value here (representation freedom), and a string never matches a list that holds
    anything but characters."""
    return _m3(chars_to_string(a), chars_to_string(b))


def _m3(a, b):
    ta, tb = a[0], b[0]
    if ta == 'l' and tb == 'l':
        if len(a[1]) != len(b[1]):
            return False
        res = True
        for x, y in zip(a[1], b[1]):
            m = _m3(x, y)
            if m is False:
                return False
            if m is None:
                res = None
        return res
    if {ta, tb} == {'s', 'l'}:
        # after chars_to_string a non-empty list holds at least one non-character
        return None if len(a[1]) == 0 and len(b[1]) == 0 else False
    return verbs.match3(a, b)


def truth(c):
    """Truth value of a predicate result; only integers are judged (0 false, others true)."""
    if c[0] == 'i':
        return c[1] != 0
    raise NotJudged('predicate-value-not-an-integer')


def while_(ap, p, f, a):
    """p f:~a: if p(a) is false return a, else a::f(a) and start over."""
    for _ in range(MAX_STEPS):
        if not truth(call(ap, p, a)):
            return a
        a = call(ap, f, a)
    raise NonTerminating()


def scan_while(ap, p, f, a):
    """p f\\~a: collects the values X that satisfy p(X); {x<100}{x*2}\\~1 --> [1 2 4 8 16 32 64]."""
    out = []
    for _ in range(MAX_STEPS):
        if not truth(call(ap, p, a)):
            return L(*out)
        out.append(a)
        a = call(ap, f, a)
    raise NonTerminating()


# name -> (symbol, verb arity, has left operand, kind of left operand)
FORMS = {
    'each': ("'", 1, None),
    'each2': ("'", 2, 'value'),
    'each-left': (':\\', 2, 'value'),
    'each-right': (':/', 2, 'value'),
    'each-pair': (":'", 2, None),
    'each-index': ("@'", 1, None),
    'over': ('/', 2, None),
    'over-neutral': ('/', 2, 'value'),
    'scan-over': ('\\', 2, None),
    'scan-over-neutral': ('\\', 2, 'value'),
    'iterate': (':*', 1, 'count'),
    'scan-iterating': ('\\*', 1, 'count'),
    'converge': (':~', 1, None),
    'while': (':~', 1, 'predicate'),
    'scan-converging': ('\\~', 1, None),
    'scan-while': ('\\~', 1, 'predicate'),
}

# forms whose verb-adverb combination is a monad and can therefore carry a second adverb ...
CHAIN_FIRST = ['each', 'each-pair', 'each-index', 'over', 'scan-over', 'converge', 'scan-converging']
# ... and the adverbs of monadic verbs that can follow it
CHAIN_SECOND = ['each', 'each-index', 'converge', 'scan-converging']


def expand(form, ap, match, f, a, left=None):
    """Expected value of one adverb form applied to verb token f (or closure), operand a and left operand."""
    if form == 'each':
        return each(ap, f, a)
    if form == 'each2':
        return each2(ap, f, left, a)
    if form == 'each-left':
        return each_left(ap, f, left, a)
    if form == 'each-right':
        return each_right(ap, f, left, a)
    if form == 'each-pair':
        return each_pair(ap, f, a)
    if form == 'each-index':
        return each_index(ap, f, a)
    if form == 'over':
        return over(ap, f, a)
    if form == 'over-neutral':
        return over_neutral(ap, f, left, a)
    if form == 'scan-over':
        return scan_over(ap, f, a)
    if form == 'scan-over-neutral':
        return scan_over_neutral(ap, f, left, a)
    if form == 'iterate':
        return iterate(ap, f, left, a)
    if form == 'scan-iterating':
        return scan_iterating(ap, f, left, a)
    if form == 'converge':
        return converge(ap, match, f, a)
    if form == 'scan-converging':
        return scan_converging(ap, match, f, a)
    if form == 'while':
        return while_(ap, left, f, a)
    if form == 'scan-while':
        return scan_while(ap, left, f, a)
    raise ValueError(form)


def expand_chain(form1, form2, ap, match, f, a):
    """f A1 A2 a: "the first adverb modifies the verb, giving a new verb, and the next adverb modifies the new verb"."""
    def g(x):
        return plain(expand(form1, ap, match, f, x))
    return expand(form2, ap, match, g, a)


# ---------------------------------------------------------------------------------------------
# comparison

def same(e, g):
    """Canonical equality modulo the string / list-of-characters representation; reals to 1e-12 (as C01)."""
    return close(chars_to_string(norm(e)), chars_to_string(norm(g)), rtol=1e-12)


def _loosen(c):
    """Forget what the reference's accept sets leave free: integer vs real kind of a number, "" vs []."""
    t = c[0]
    if t == 'i':
        return ('r', float(c[1]))
    if t == 's' and c[1] == '':
        return ('l', ())
    if t == 'l':
        return ('l', tuple(_loosen(e) for e in c[1]))
    return c


def accepts(expected, got, loose=False):
    """expected: a model result; got: canonical result of the implementation.  loose: used only when a plain application
    of the expansion had an accept set in the reference (kind of an integral Power, of a mixed Min/Max, [] vs "")."""
    if loose:
        def same(e, g):     # noqa: F811
            return close(_loosen(chars_to_string(norm(e))), _loosen(chars_to_string(norm(g))), rtol=1e-12)
    else:
        same = globals()['same']
    if expected[0] == 'alt':
        return any(same(e, got) for e in expected[1])
    if expected[0] == 'bag':
        if got[0] != 'l' or len(got[1]) != len(expected[1]):
            return False
        rest = list(got[1])
        for e in expected[1]:
            for i, g in enumerate(rest):
                if same(e, g):
                    del rest[i]
                    break
            else:
                return False
        return True
    return same(expected, got)


def describe(expected):
    from ..values import show
    if expected[0] == 'alt':
        return ' or '.join(show(norm(e)) for e in expected[1])
    if expected[0] == 'bag':
        return 'any order of ' + show(norm(L(*expected[1])))
    return show(norm(expected))


# ---------------------------------------------------------------------------------------------
# reference functions of the non-operator verbs of the closed verb set (compositions of mc.ref.verbs; they decide
# whether a plain application lies inside the reference's domain and what it must return)

D, M = verbs.DYADS, verbs.MONADS


def need(r):
    """Inner result of a composition: must be a single defined value."""
    if r is verbs.NJ:
        raise NotJudged('outside-reference-domain')
    if r[0] != 'val':
        raise NotJudged('outside-reference-domain', 'accept set inside a composition')
    return norm(r[1])


def _guard(fn):
    def g(*args):
        try:
            return fn(*args)
        except NotJudged:
            return verbs.NJ
    return g


LAMBDA_REF = {
    # dyads
    '{x+y}': D['+'], '{x-y}': D['-'], '{x*y}': D['*'], '{x%y}': D['%'], '{x^y}': D['^'], '{x&y}': D['&'],
    '{x|y}': D['|'], '{x<y}': D['<'], '{x>y}': D['>'], '{x=y}': D['='], '{x~y}': D['~'], '{x,y}': D[','],
    '{x:%y}': D[':%'], '{x!y}': D['!'],
    '{y-x}': lambda x, y: D['-'](y, x),
    '{(2*x)+y}': _guard(lambda x, y: D['+'](need(D['*'](I(2), x)), y)),
    '{x,,y}': _guard(lambda x, y: D[','](x, need(M[','](y)))),
    '{x+y+z}(1;;)': _guard(lambda y, z: D['+'](I(1), need(D['+'](y, z)))),
    '{(#x)-#y}': _guard(lambda x, y: D['-'](need(M['#'](x)), need(M['#'](y)))),
    # monads
    '{x}': lambda x: verbs.val(x) if x[0] in 'ircsyl' else verbs.NJ,
    '{-x}': M['-'], '{|x}': M['|'], '{#x}': M['#'],
    '{x+1}': lambda x: D['+'](x, I(1)),
    '{x*2}': lambda x: D['*'](x, I(2)),
    '{_x%2}': _guard(lambda x: M['_'](need(D['%'](x, I(2))))),
    '{1,x}': lambda x: D[','](I(1), x),
    '{x,x}': lambda x: D[','](x, x),
    '{x@0}': lambda x: D['@'](x, I(0)),
    '{x@1}': lambda x: D['@'](x, I(1)),
    '{(x@0)*(x@1)}': _guard(lambda x: D['*'](need(D['@'](x, I(0))), need(D['@'](x, I(1))))),
    '{(x+2%x)%2}': _guard(lambda x: D['%'](need(D['+'](x, need(D['%'](I(2), x)))), I(2))),
    '{x&2}': lambda x: D['&'](x, I(2)),
    '{x-y}(;1)': lambda x: D['-'](x, I(1)),
    # predicates
    '{x<0}': lambda x: D['<'](x, I(0)),
    '{x<3}': lambda x: D['<'](x, I(3)),
    '{x<10}': lambda x: D['<'](x, I(10)),
    '{(#x)<3}': _guard(lambda x: D['<'](need(M['#'](x)), I(3))),
    '{(#x)<5}': _guard(lambda x: D['<'](need(M['#'](x)), I(5))),
}


# ---------------------------------------------------------------------------------------------
# self-check: the reference's own examples, evaluated with plain applications taken from mc.ref.verbs alone

def _ref_ap(f, *args):
    kind, name = f
    if kind == 'op':
        r = (M if len(args) == 1 else D)[name](*args)
    else:
        r = LAMBDA_REF[name](*args)
    if r is verbs.NJ:
        raise NotJudged('outside-reference-domain', '%s %r' % (name, args))
    if r[0] == 'val':
        return r[1]
    if name in (',', '{x,y}') and all(a[0] == 'c' for a in args):
        return S(''.join(a[1] for a in args))
    raise NotJudged('accept-set', name)


def _ref_match(x, y):
    return match_ref(x, y)


def _P(x):
    from ..values import from_py
    return norm(from_py(x))


EXAMPLES = [
    # (text of the reference example, form or (form1, form2), verb, left, operand, expected)
    ("-'[1 2 3]", 'each', ('op', '-'), None, [1, 2, 3], [-1, -2, -3]),
    ("[1 2 3],'[4 5 6]", 'each2', ('op', ','), [1, 2, 3], [4, 5, 6], [[1, 4], [2, 5], [3, 6]]),
    ('1,:\\[2 3 4]', 'each-left', ('op', ','), 1, [2, 3, 4], [[1, 2], [1, 3], [1, 4]]),
    ('1,:/[2 3 4]', 'each-right', ('op', ','), 1, [2, 3, 4], [[2, 1], [3, 1], [4, 1]]),
    (",:'[1 2 3 4]", 'each-pair', ('op', ','), None, [1, 2, 3, 4], [[1, 2], [2, 3], [3, 4]]),
    ("{x@0}@'[10 20 30]", 'each-index', ('fn', '{x@0}'), None, [10, 20, 30], [0, 1, 2]),
    ("{x@1}@'[10 20 30]", 'each-index', ('fn', '{x@1}'), None, [10, 20, 30], [10, 20, 30]),
    ("{(x@0)*(x@1)}@'[10 20 30]", 'each-index', ('fn', '{(x@0)*(x@1)}'), None, [10, 20, 30], [0, 20, 60]),
    ('+/[1 2 3 4]', 'over', ('op', '+'), None, [1, 2, 3, 4], 10),
    ('0,/[1 2 3]', 'over-neutral', ('op', ','), 0, [1, 2, 3], [0, 1, 2, 3]),
    ('1+/[2 3 4]', 'over-neutral', ('op', '+'), 1, [2, 3, 4], 10),
    ('0+/[]', 'over-neutral', ('op', '+'), 0, [], 0),
    ('+/[]', 'over', ('op', '+'), None, [], []),
    (',\\[1 2 3]', 'scan-over', ('op', ','), None, [1, 2, 3], [1, [1, 2], [1, 2, 3]]),
    ('0,\\[1 2 3]', 'scan-over-neutral', ('op', ','), 0, [1, 2, 3], [0, [0, 1], [0, 1, 2], [0, 1, 2, 3]]),
    ('+\\1', 'scan-over', ('op', '+'), None, 1, [1]),
    ('3{1,x}:*[]', 'iterate', ('fn', '{1,x}'), 3, [], [1, 1, 1]),
    ('3{1,x}\\*[]', 'scan-iterating', ('fn', '{1,x}'), 3, [], [[], [1], [1, 1], [1, 1, 1]]),
    ('{x<10}{x+1}:~1', 'while', ('fn', '{x+1}'), ('fn', '{x<10}'), 1, 10),
    ('{x<10}{x+1}\\~1', 'scan-while', ('fn', '{x+1}'), ('fn', '{x<10}'), 1, [1, 2, 3, 4, 5, 6, 7, 8, 9]),
    (',/:~["f" ["l" "at"] "ten"]', ('over', 'converge'), ('op', ','), None, ['f', ['l', 'at'], 'ten'], 'flatten'),
    (',/\\~["a" ["b"] "c"]', ('over', 'scan-converging'), ('op', ','), None, ['a', ['b'], 'c'],
     [['a', ['b'], 'c'], ['a', 'b', 'c'], 'abc']),
    ("+/'[[1 2 3] [4 5 6] [7 8 9]]", ('over', 'each'), ('op', '+'), None, [[1, 2, 3], [4, 5, 6], [7, 8, 9]], [6, 15, 24]),
    (',/:~[1 [2 [3 [4] 5] 6] 7]', ('over', 'converge'), ('op', ','), None, [1, [2, [3, [4], 5], 6], 7], [1, 2, 3, 4, 5, 6, 7]),
    (',/\\~[1 [2 [3 [4] 5] 6] 7]', ('over', 'scan-converging'), ('op', ','), None, [1, [2, [3, [4], 5], 6], 7],
     [[1, [2, [3, [4], 5], 6], 7], [1, 2, [3, [4], 5], 6, 7], [1, 2, 3, [4], 5, 6, 7], [1, 2, 3, 4, 5, 6, 7]]),
    ('{(x+2%x)%2}:~2', 'converge', ('fn', '{(x+2%x)%2}'), None, 2, 1.4142135623730951),
    # special cases as the language's own test suite has them (tests/kgtests/language/test_suite.kg)
    ('#\'""', 'each', ('op', '#'), None, '', ''),
    ('"tst",\'"foo"', 'each2', ('op', ','), 'tst', 'foo', ['tf', 'so', 'to']),
    ('0,:\\[]', 'each-left', ('op', ','), 0, [], []),
    (',:\'[1]', 'each-pair', ('op', ','), None, [1], [1]),
    (',:\'"x"', 'each-pair', ('op', ','), None, 'x', 'x'),
    (',:\'"test"', 'each-pair', ('op', ','), None, 'test', ['te', 'es', 'st']),
    (',/[1]', 'over', ('op', ','), None, [1], 1),
    (',/"a"', 'over', ('op', ','), None, 'a', C('a')),
    (',/"abc"', 'over', ('op', ','), None, 'abc', 'abc'),
    ('1,/2', 'over-neutral', ('op', ','), 1, 2, [1, 2]),
    ('[],/[1 2]', 'over-neutral', ('op', ','), [], [1, 2], [1, 2]),
    ('0c0,/""', 'over-neutral', ('op', ','), C('0'), '', C('0')),
    ('0c0,/"abc"', 'over-neutral', ('op', ','), C('0'), 'abc', '0abc'),
    (',\\[]', 'scan-over', ('op', ','), None, [], []),
    (',\\[1]', 'scan-over', ('op', ','), None, [1], [1]),
    (',\\"a"', 'scan-over', ('op', ','), None, 'a', [C('a')]),
    (',\\"abc"', 'scan-over', ('op', ','), None, 'abc', [C('a'), 'ab', 'abc']),
    ('1,\\2', 'scan-over-neutral', ('op', ','), 1, 2, [1, [1, 2]]),
    ('[],\\[]', 'scan-over-neutral', ('op', ','), [], [], []),
    ('[],\\[1 2]', 'scan-over-neutral', ('op', ','), [], [1, 2], [[], [1], [1, 2]]),
    ('4+\\[1 2 3]', 'scan-over-neutral', ('op', '+'), 4, [1, 2, 3], [4, 5, 7, 10]),
    ('0,:*1', 'iterate', ('op', ','), 0, 1, 1),
    ('2,:*1', 'iterate', ('op', ','), 2, 1, [[1]]),
    ('0,\\*1', 'scan-iterating', ('op', ','), 0, 1, 1),
    ('2,\\*1', 'scan-iterating', ('op', ','), 2, 1, [1, [1], [[1]]]),
    ('0{1,x}\\*[]', 'scan-iterating', ('fn', '{1,x}'), 0, [], []),
    (',/:~[[[[[0]]]]]', ('over', 'converge'), ('op', ','), None, [[[[[0]]]]], 0),
    (',/\\~[]', ('over', 'scan-converging'), ('op', ','), None, [], [[]]),
    (',/\\~[1]', ('over', 'scan-converging'), ('op', ','), None, [1], [[1], 1]),
    (',/\\~[[[0]]]', ('over', 'scan-converging'), ('op', ','), None, [[[0]]], [[[[0]]], [[0]], [0], 0]),
    ('{_x%2}\\~1', 'scan-converging', ('fn', '{_x%2}'), None, 1, [1, 0]),
    ('{(#x)<5}{1,x}\\~1', 'scan-while', ('fn', '{1,x}'), ('fn', '{(#x)<5}'), 1, [1, [1, 1], [1, 1, 1], [1, 1, 1, 1]]),
    ('{x<0}{x+1}\\~0', 'scan-while', ('fn', '{x+1}'), ('fn', '{x<0}'), 0, []),
    ('{(#x)<5}{x,x}:~[1 2 3 4 5]', 'while', ('fn', '{x,x}'), ('fn', '{(#x)<5}'), [1, 2, 3, 4, 5], [1, 2, 3, 4, 5]),
]


def selfcheck():
    bad = []
    for text, form, f, left, a, want in EXAMPLES:
        a = _P(a)
        lk = None if isinstance(form, tuple) else FORMS[form][2]
        left_c = _P(left) if lk == 'value' else left
        try:
            if isinstance(form, tuple):
                got = expand_chain(form[0], form[1], _ref_ap, _ref_match, f, a)
            else:
                got = expand(form, _ref_ap, _ref_match, f, a, left_c)
        except NotJudged as e:
            bad.append((text, 'not judged: %s %s' % (e.reason, e.detail)))
            continue
        w = _P(want)
        ok = any(close(chars_to_string(norm(x)), chars_to_string(w), rtol=1e-6) for x in (got[1] if got[0] == 'alt' else [got]))
        if not ok:
            bad.append((text, describe(got)))
    if bad:
        raise AssertionError('adverb model contradicts reference examples: %r' % (bad,))
    return '%d/%d reference examples of the adverbs' % (len(EXAMPLES), len(EXAMPLES))

"""Reference model of a klongpy.db table (C19): a plain Python list of rows plus the index columns.

Written from docs/fast_columnar_database.md, the docstrings of .table / .insert / .index / .rindex / .schema / .db in
klongpy/db/sys_fn_db.py and the property statement, not from the implementation:

  * ".insert(x, y) ... If the table is indexed, then the appropriate columns will be used as keys when inserting
    values.  If the table is unindexed, then the values are appended."           -> insert()
  * "Inserting a row with a pre-existing value at an index results in an update"  -> insert() on an indexed table
  * property: "for a table indexed on columns whose values are unique each key has exactly one row - the last
    inserted - and rows are ordered by key"                                       -> insert() / index()
  * "The resulting table [is] treatable as a dict and key/value updates are column operations" -> addcol(), column()
  * "Indexes may be reset via .rindex().  True is returned if the index was reset." -> rindex()
  * SQL results are the rows of the table; a single column / single row / single cell result is returned without
    the enclosing dimension (docs: `db("select * from T")` on a one-column table gives `[1 2 3]`; the repository's
    tests expect `[]` for an empty table)                                        -> squeeze()

Values are Python ints, floats and strs.  Nothing here imports klongpy or pandas.
"""


class TableModel:
    def __init__(self, cols, rows=()):
        self.cols = list(cols)
        self.rows = [tuple(r) for r in rows]
        self.idx = None                 # tuple of column names or None

    def copy(self):
        m = TableModel(self.cols, self.rows)
        m.idx = self.idx
        return m

    def key(self):
        return (tuple(self.cols), tuple(self.rows), self.idx)

    # --- keys -----------------------------------------------------------------------------------
    def _keyfn(self, idx):
        pos = [self.cols.index(c) for c in idx]
        return lambda row: tuple(row[p] for p in pos)

    @staticmethod
    def _dedup_exact(rows):
        seen, out = set(), []
        for r in rows:
            if r not in seen:
                seen.add(r)
                out.append(r)
        return out

    def can_index(self, idx):
        """The property's precondition: the values of the index columns are unique (rows that are identical in every
        column count once - the repository's own test indexes a table holding the same row twice and expects one)."""
        if self.idx is not None or any(c not in self.cols for c in idx):
            return False
        kf = self._keyfn(idx)
        rows = self._dedup_exact(self.rows)
        return len({kf(r) for r in rows}) == len(rows)

    # --- operations -----------------------------------------------------------------------------
    def index(self, idx):
        assert self.can_index(idx)
        kf = self._keyfn(idx)
        self.rows = sorted(self._dedup_exact(self.rows), key=kf)
        self.idx = tuple(idx)
        return list(idx)

    def rindex(self):
        if self.idx is None:
            return 0
        self.idx = None
        return 1

    def insert(self, batch):
        batch = [tuple(r) for r in batch]
        assert all(len(r) == len(self.cols) for r in batch)
        if self.idx is None:
            self.rows.extend(batch)
            return
        kf = self._keyfn(self.idx)
        for r in batch:                 # in insertion order: the last inserted row of a key wins
            k = kf(r)
            for i, old in enumerate(self.rows):
                if kf(old) == k:
                    self.rows[i] = r
                    break
            else:
                self.rows.append(r)
        self.rows.sort(key=kf)

    def addcol(self, name, values):
        values = list(values)
        assert len(values) == len(self.rows)
        if name in self.cols:
            p = self.cols.index(name)
            self.rows = [r[:p] + (v,) + r[p + 1:] for r, v in zip(self.rows, values)]
        else:
            self.cols.append(name)
            self.rows = [r + (v,) for r, v in zip(self.rows, values)]

    # --- observations ---------------------------------------------------------------------------
    def column(self, name):
        if name not in self.cols:
            return None
        p = self.cols.index(name)
        return [r[p] for r in self.rows]

    def count(self):
        return len(self.rows)

    def schema(self):
        return list(self.cols)

    def select_all(self):
        return squeeze([list(r) for r in self.rows], len(self.cols))

    def sum(self, name):
        """None stands for SQL NULL (no rows)."""
        col = self.column(name)
        return sum(col) if col else None

    def header(self):
        return [c + ('*' if self.idx and c in self.idx else '') for c in self.cols]


def squeeze(rows, ncols):
    """What a row set looks like as an SQL result: dimensions of size one are dropped."""
    if not rows:
        return []
    if len(rows) == 1 and ncols == 1:
        return rows[0][0]
    if len(rows) == 1:
        return rows[0]
    if ncols == 1:
        return [r[0] for r in rows]
    return rows


# ---------------------------------------------------------------------------------------------------
# examples from the documentation and from tests/kgtests/db (the model must reproduce them)

def _run(script):
    """Steps: ('table', cols) ('insert', batch) ('addcol', name, values) carry no expectation;
    ('index', cols, want) ('rindex', want) ('select', want) ('schema', want) ('header', want) do."""
    m = None
    for step in script:
        op = step[0]
        if op == 'table':
            m = TableModel([c for c, _ in step[1]], list(zip(*[v for _, v in step[1]])))
            continue
        if op == 'insert':
            m.insert(step[1])
            continue
        if op == 'addcol':
            m.addcol(step[1], step[2])
            continue
        if op == 'index':
            got = m.index(step[1])
        elif op == 'rindex':
            got = m.rindex()
        elif op == 'select':
            got = m.select_all()
        elif op == 'schema':
            got = m.schema()
        elif op == 'header':
            got = m.header()
        else:
            raise ValueError(op)
        if got != step[-1]:
            raise AssertionError('tablemodel example failed at %r: got %r' % (step, got))
    return m


ABC = [('a', [1, 2, 3]), ('b', [2, 3, 4]), ('c', [3, 4, 5])]
R3 = [[1, 2, 3], [2, 3, 4], [3, 4, 5]]

EXAMPLES = [
    # docs/fast_columnar_database.md
    [('table', [('a', [1, 2, 3]), ('b', [2, 3, 4])]), ('addcol', 'c', [3, 4, 5]), ('select', R3),
     ('index', ['a'], ['a']), ('header', ['a*', 'b', 'c']), ('insert', [[3, 5, 6]]),
     ('select', [[1, 2, 3], [2, 3, 4], [3, 5, 6]]), ('rindex', 1), ('rindex', 0)],
    [('table', [('a', [1, 2, 3])]), ('select', [1, 2, 3]), ('schema', ['a'])],
    # test_create_empty_table.kg
    [('table', [('a', [])]), ('select', []), ('schema', ['a'])],
    # test_multi_bulk_insert.kg
    [('table', ABC), ('select', R3), ('insert', [[4, 5, 6], [7, 8, 9]]), ('select', R3 + [[4, 5, 6], [7, 8, 9]])],
    # test_multi_col_insert_with_single_index.kg
    [('table', ABC), ('insert', [[4, 5, 6]]), ('select', R3 + [[4, 5, 6]]), ('insert', [[4, 5, 6]]),
     ('select', R3 + [[4, 5, 6], [4, 5, 6]]), ('index', ['a'], ['a']), ('insert', [[4, 5, 6]]),
     ('select', R3 + [[4, 5, 6]]), ('insert', [[4, 6, 7]]), ('select', R3 + [[4, 6, 7]]), ('rindex', 1),
     ('insert', [[4, 6, 7]]), ('select', R3 + [[4, 6, 7], [4, 6, 7]])],
    # test_multi_col_insert_with_multi_index.kg
    [('table', ABC), ('index', ['a', 'b'], ['a', 'b']), ('select', R3), ('insert', [[4, 5, 6]]),
     ('select', R3 + [[4, 5, 6]]), ('insert', [[4, 5, 6]]), ('select', R3 + [[4, 5, 6]]), ('insert', [[4, 6, 7]]),
     ('select', R3 + [[4, 5, 6], [4, 6, 7]]), ('rindex', 1), ('insert', [[4, 6, 7]]),
     ('select', R3 + [[4, 5, 6], [4, 6, 7], [4, 6, 7]])],
]


def selfcheck():
    for s in EXAMPLES:
        _run(s)
    # last inserted wins inside one batch; rows ordered by key
    m = TableModel(['a', 'b'], [(2, 20), (1, 10)])
    m.index(['a'])
    m.insert([(3, 1), (3, 2), (1, 11)])
    assert m.rows == [(1, 11), (2, 20), (3, 2)], m.rows
    assert not TableModel(['a', 'b'], [(1, 10), (1, 20)]).can_index(['a'])
    assert TableModel(['a', 'b'], [(1, 10), (1, 10)]).can_index(['a'])
    return len(EXAMPLES) + 3

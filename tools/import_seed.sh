#!/bin/bash
# tools/import_seed.sh <worktree> <seed id, e.g. C14a> <CHECK ids...>
# Confirms a seeded change (patch applies, demonstration fails with it / passes without it, related tests pass),
# stores it under /verif/seeded/<id>/ and runs the given checks against it.
set -u
wt="$1"; id="$2"; shift 2
here="$(cd "$(dirname "${BASH_SOURCE[0]}")/.." && pwd)"
dst="$here/seeded/$id"
mkdir -p "$dst"
git -C "$wt" diff -- klongpy > "$dst/patch.diff"
if [ ! -s "$dst/patch.diff" ]; then echo "EMPTY PATCH"; exit 2; fi
cp "$wt"/demo_*.py "$dst/" 2>/dev/null
cp "$wt/seed_meta.json" "$dst/meta.json"
demo=$(ls "$dst"/demo_*.py | head -1)
scratch=/dev/shm/seedchk.$$
git -C /repo worktree add -q --detach "$scratch" HEAD || exit 2
cp "$demo" "$scratch/"
( cd "$scratch" && PYTHONPATH="$scratch" PYTHONWARNINGS=ignore timeout 300 /venv/bin/python "$(basename "$demo")" >/dev/null 2>&1; echo "demo on unchanged tree: exit $?" )
git -C "$scratch" apply "$dst/patch.diff" || { echo "PATCH DOES NOT APPLY"; git -C /repo worktree remove --force "$scratch"; exit 2; }
( cd "$scratch" && PYTHONPATH="$scratch" PYTHONWARNINGS=ignore timeout 300 /venv/bin/python "$(basename "$demo")" >/dev/null 2>&1; echo "demo with the change:   exit $?" )
files=$(git -C "$scratch" diff --name-only | tr '\n' ' ')
echo "changed: $files"
( cd "$scratch" && PYTHONPATH="$scratch" nice -n 5 timeout 1500 /venv/bin/python -m pytest -q -p no:cacheprovider -W ignore --timeout=900 tests 2>&1 | tail -3 )
git -C /repo worktree remove --force "$scratch"
for c in "$@"; do
  "$here/tools/run_mutant.py" "$dst/patch.diff" "$c" 2>&1 | grep -a "==\|tier=" | cut -c1-260
done

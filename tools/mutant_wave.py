#!/usr/bin/env python3
"""Run every design-time mutant (mutants/candidates.py) and every seeded change (seeded/<id>/patch.diff) against the
check of its property (quick tier) and write the detection table to MUTANTS.md.

    tools/mutant_wave.py [--only C14,C18] [--tier quick] [--jobs 3]

Seeded changes additionally get the outcome written into their meta.json (`coordinator_result`).
"""
import json
import os
import re
import subprocess
import sys

HERE = os.path.dirname(os.path.dirname(os.path.abspath(__file__)))
sys.path.insert(0, os.path.join(HERE, 'mutants'))


def main():
    from candidates import MUTANTS
    only = None
    if '--only' in sys.argv:
        only = set(sys.argv[sys.argv.index('--only') + 1].split(','))
    tier = sys.argv[sys.argv.index('--tier') + 1] if '--tier' in sys.argv else 'quick'
    man = json.load(open(os.path.join(HERE, 'MANIFEST.json')))
    claimed = {c['property_id'] for c in man['checks']}
    jobs = []
    for name, rel, old, new in MUTANTS:
        pid = name.split('_')[0]
        jobs.append((pid, name, name, 'design-time candidate: %s' % rel))
    sd = os.path.join(HERE, 'seeded')
    if os.path.isdir(sd):
        for d in sorted(os.listdir(sd)):
            p = os.path.join(sd, d, 'patch.diff')
            m = os.path.join(sd, d, 'meta.json')
            if os.path.exists(p) and os.path.exists(m):
                meta = json.load(open(m))
                jobs.append((meta['property'], d, p, 'seeded: ' + meta.get('summary', '')))
    # changes that were looked at and are no violation of their property (kept in the table as such)
    NOTES = {
        'C01_vecfn2_nested_atom': 'not in the explored space: needs an operand with a nested sub-list of >= 3 elements that is itself nested '
                                  '([[1 [2] 3] 4]^2); the C01 universe has none (such operands fall under the known findings of ^ & | !)',
        'C10_literal_no_copy': 'equivalent for C10: a shallow copy still gives every evaluation of a dictionary literal a fresh dictionary; the '
                               'shared values are immutable (no nested dictionary literal exists)',
        'C16_recover_ge': 'equivalent for C16: evicts one entry more than needed; values, accounting, limit and LRU invariants all still hold',
        'C16a': 'neutralised by fix 6bd3c72 (see seeded/C16a/meta.json): its damage went through the ghost LRU entry of the not-cacheable '
                'branch, which that fix removes; the seed\'s own demo passes with the patch on the fixed tree; caught in every wave before',
        'C01c': 'neutralised by a later fix (see seeded/C01c/meta.json); caught at import time (59 new)',
    }
    rows = []
    njobs = int(sys.argv[sys.argv.index('--jobs') + 1]) if '--jobs' in sys.argv else 1
    head = subprocess.run(['git', '-C', '/repo', 'rev-parse', '--short', 'HEAD'], capture_output=True, text=True).stdout.strip()

    def one(job):
        pid, name, arg, what = job
        r = subprocess.run([os.path.join(HERE, 'tools', 'run_mutant.py'), arg, pid, '--tier', tier], capture_output=True, text=True)
        m = re.search(r'exit (\d+)', r.stdout)
        new = re.search(r'new=(\d+)', r.stdout)
        row = (pid, name, what + ((' -- NOTE: ' + NOTES[name]) if name in NOTES else ''), m.group(1) if m else '?', new.group(1) if new else '?')
        print(row, flush=True)
        mp = os.path.join(sd, name, 'meta.json')
        if os.path.exists(mp) and row[3] in ('0', '1'):
            meta = json.load(open(mp))
            keep = {k: v for k, v in (meta.get('coordinator_result') or {}).items() if k in ('at_import_time', 'suite_with_change')}
            meta['coordinator_result'] = dict(keep, check=pid, tier=tier, repo_head=head,
                                              result='caught' if row[3] == '1' else 'missed', new_violations=row[4])
            json.dump(meta, open(mp, 'w'), indent=1, ensure_ascii=False)
        return row

    from concurrent.futures import ThreadPoolExecutor
    todo = [j for j in jobs if j[0] in claimed and not (only and j[0] not in only)]
    with ThreadPoolExecutor(max_workers=njobs) as ex:
        rows = list(ex.map(one, todo))
    path = os.path.join(HERE, 'MUTANTS.md')
    old_rows = {}
    if os.path.exists(path):
        for line in open(path):
            c = [x.strip() for x in line.strip().strip('|').split('|')]
            if len(c) == 5 and c[0].startswith('C') and c[0][1:].isdigit():
                old_rows[(c[0], c[1])] = c
    for r in rows:
        old_rows[(r[0], r[1])] = [r[0], r[1], r[2].replace('|', '/'), 'caught' if r[3] == '1' else ('MISSED' if r[3] == '0' else 'error ' + r[3]), r[4]]
    with open(path, 'w') as f:
        f.write('# Detection table: property-breaking changes vs. checks (%s tier)\n\n' % tier)
        f.write('Each change is applied to a scratch worktree of /repo (never /repo itself) and the check of its property is run '
                'with VERIF_REPO pointing at it. "caught" = exit 1 with new (not known-finding) violations.\n\n')
        f.write('| property | change | kind | result | new violations |\n|---|---|---|---|---|\n')
        for k in sorted(old_rows):
            f.write('| ' + ' | '.join(old_rows[k]) + ' |\n')


if __name__ == '__main__':
    main()

#!/usr/bin/env python3
"""Regenerates /verif/MANIFEST.json from the table below (so that it stays valid at all times)."""
import json
import os

HERE = os.path.dirname(os.path.dirname(os.path.abspath(__file__)))

# id -> (engine, category, technique, level text, level_note, design_ref)
CHECKS = {
    'C01': ('E1-bfs', 'model_checking',
            'complete product enumeration of verbs x closed operand universe (plus depth-2 closure over runtime '
            'representations) on the real interpreter vs. a reference model transcribed from the reference text',
            'Every monad x operand and dyad x ordered operand pair of a closed universe (atoms of every kind, strings, '
            'vectors, matrices, rank 3, nested and ragged lists) is evaluated as source text and compared with '
            'mc/ref/verbs.py, which reproduces the 191 examples of the reference; compositions whose intermediate '
            'result has a runtime representation no literal produces are added. Judged only inside the domain the '
            'reference defines; accept sets where the text is silent.',
            'Trusted base: the reference model (self-checked against the reference examples). Operands outside the '
            'universe are not covered. Many genuine deviations are listed as known findings (exact input + outcome).',
            'DESIGN.md §3 C01, Appendix A'),
    'C09': ('E1-bfs', 'model_checking',
            'exhaustive product over signatures x arguments x call forms with call logs, and explicit-state BFS over '
            'redefinition/deletion histories of the Python-side wrapper vs. a name->binding model',
            'Data round trip for a closed value universe; every signature over (klong, x, y, z) x argument tuples x '
            'call forms with an instrumented call log (exactly one call, positional arguments, result = return value); '
            'BFS over histories of redefine/delete/re-read/call for wrappers obtained as klong[name] (functions, a function that '
            'raises KeyError, projections; calls are history steps of their own), compared with the Klong-level call incl. '
            'how often the body runs; callable kinds: function, shared functools.wraps decorator, bound method, __call__ object, '
            'partial; .pyf/.py imports.',
            'Built by a sub-agent from DESIGN.md; state merging on (binding, captured binding per wrapper). Known '
            'finding: Python list / symbol value in function position.',
            'DESIGN.md §3 C09'),
    'C11': ('E1-bfs', 'exploration',
            'complete enumeration of a closed value universe through the real writer -> reader round trip',
            'Every value of the universe (all strings <= 3 over a 10-character alphabet incl. quotes/newlines/brackets, '
            'extreme numbers, characters, symbols, all lists <= 3 nested to depth 3, dictionaries) is injected as a '
            'Python/NumPy object, written with the real .w, read back with .rs and .r, compared in canonical form and '
            're-written; Form inverts Format for atoms. Values holding dictionaries are read a second time from the same '
            'text after every dictionary of the first reading was updated in place (what a text reads as depends on the text alone).',
            'Exhaustive over the stated universe only; -0.0, nan, inf excluded; numeric-block promotion.',
            'DESIGN.md §3 C11'),
    'C10': ('E1-bfs', 'model_checking',
            'explicit-state BFS over operation histories on the real interpreter vs. reference dict model',
            'All dictionary operation histories up to the stated depth over keys of every hashable kind, aliases and '
            'literal-holding functions (one with a dictionary literal as a value, updated in place through the outer one) '
            'are executed on the real interpreter; result and full reachable dictionary state '
            'are compared with a tagged-key Python dict model after every step. Exhaustive within the alphabet/depth.',
            'States are merged on model contents + alias relation + called-literal set; histories longer than the depth '
            'bound and keys/values outside the alphabet are not covered. Known finding: 0cX and "X" are one key.',
            'DESIGN.md §3 C10'),
    'C13': ('E3-vloop', 'model_checking',
            'exhaustive enumeration of stream fragmentations on a virtual loop (real StreamReader / stream_recv_msg / '
            '_listen) + deviation-bounded enumeration of drain() answers for concurrent senders on one connection (real '
            'stream_send_msg on a virtual loop) + explicit-state BFS of remote-operation histories against a live server vs. a '
            'twin interpreter',
            'Framing: every split of 1-3 consecutive frames into <= 3 reads (all pairs of cut positions) is consumed by '
            'the real receive path; messages must come out intact, in order, each resolving its own future. Live: every '
            'value of the transportable universe x every remote form (text, symbol call of arity 0-3, proxy, remote '
            'dictionary get/set, :undefined, errors) and BFS over histories on two server-side names are executed '
            'against a real server on loopback and compared with the same operation on a twin interpreter. Send side: 2-3 '
            'concurrent senders x payload classes (small, > 64 KiB, several times that) x every sequence of drain() answers '
            '(returns / suspends 1 / suspends 3 loop iterations) with <= 2 (quick) / 3 (thorough) suspensions; the bytes written '
            'to the connection, read back by the real stream_recv_msg, are exactly the sent messages.',
            'The live part uses real sockets/loops with sequential operations (exhaustive over values and histories, '
            'not schedules; schedules of the client are C14). Values outside the universe are not covered.',
            'DESIGN.md §3 C13'),
    'C14': ('E2-sched', 'model_checking',
            'stateless model checking: real NetworkClient on a virtual event loop as one logical thread of a controlled '
            'scheduler, with caller threads and a scripted server thread; all interleavings up to a preemption bound',
            'For every server script (response orders x cut class of each response x fault kind/position, drain that '
            'suspends, close races) all schedules of loop handles, caller threads and server actions with <= 1 '
            'preemption (quick; thorough: 2 for the small scripts) are executed on the real client; part of them '
            'additionally at source-line granularity inside call/_listen/_run/_cleanup_pending_responses. Every '
            'caller must return its own response or raise; a deadlock verdict is a hang. Server side: every sequence '
            'of <= 2 (quick) / 3 (thorough) requests over 11 request kinds (succeeding and failing evaluations, calls, '
            'dictionary gets/sets, a complete frame whose body cannot be unpickled) x 5 delivery patterns on the real handle_client/_listen/execute_server_command with '
            'two virtual loops: each request is answered with the twin interpreter\'s value or the connection ends, '
            'never silence on an open connection.',
            'Switches only at handle boundaries, result()/Event.wait, server actions (and source lines in line-level '
            'mode); transport modelled as: EOF leaves the writer open, reset closes it; one transport event per loop '
            'iteration. The server-side part runs one schedule (loops driven alternately to quiescence).',
            'DESIGN.md §3 C14, Appendix B, C'),
    'C15': ('E3-vloop', 'model_checking',
            'exhaustive enumeration of callback scripts x event-loop dispatch latencies (deviation-bounded) on a '
            'virtual-time asyncio loop running the real timer code, vs. a timer reference model',
            'The real .timer/.timerc code runs on a virtual-time loop; every scenario (interval, start, per-tick '
            'duration/return/action script, external cancels, redefinition of the callback by the program between ticks, second timer) is combined with every sequence of '
            'dispatch-latency choices (a loop iteration runs every handle due when it starts, as _run_once does) '
            'with at most 1 (quick) / 2 (thorough) deviations; each run is compared tick by '
            'tick with a 40-line timer model (boundaries, no double service, no overlap, stop for good, .timerc '
            'result, re-resolution of the named callback).',
            'BaseEventLoop semantics for handles and clock resolution are trusted; boundary reached exactly when the '
            'callback returns may count either way; nothing is prescribed after a raising callback.',
            'DESIGN.md §3 C15, Appendix C'),
    'C16': ('E1-bfs', 'model_checking',
            'explicit-state BFS over store operation histories on the real KeyValueStorage/TableStorage over an '
            'in-memory file system vs. dict model + accounting invariants',
            'All histories of set/get/get-missing/unload/reopen up to the stated depth on flat and nested keys, per '
            'cache-limit class (fits exactly one entry, exactly two, default), run on the real stores through the '
            'Klong-level forms; results compared with a dict model and the byte accounting / LRU / disk invariants are '
            'evaluated on the real cache object after every operation; keys incl. an alias spelling of a nested key and keys that '
            'collide with a directory / a file of other keys (their set must fail and change nothing). Same for the table '
            'store (documented merge incl. six rows on equal indexes and a table without rows, read back after every set, and after a '
            'program changed its own copy of a table it read back; a second search under a 2000-byte limit with string-column '
            'tables whose file fits the limit while the loaded frame does not).',
            'memfs replaces the directory (module-level open/os of klongpy.db.file_cache); sequential use only '
            '(concurrency is C18); merging on (model, entries, LRU order, byte total).',
            'DESIGN.md §3 C16'),
    'C17': ('E4-crash', 'fault_enumeration',
            'exhaustive crash-image enumeration: every prefix of the recorded file-system trace x every loss pattern of '
            'a POSIX-style persistence model, each recovered with a fresh store',
            'For every history of up to 2/3 sets the real set path is traced at kernel-call level (real BufferedWriter '
            'over memfs); every crash point and every allowed loss of unsynced data is materialised and read back '
            'through a fresh KeyValueStorage; acknowledged sets must read back, other keys must be unharmed. Environment '
            'deviation, bound 1: every single fsync call of every history fails with EIO in turn (a set that then still '
            'returns is held to the durability promise; one that raises counts as interrupted). Two-epoch '
            'histories: a process killed inside a set at every trace position (the page cache survives), a new process does '
            '[get,] set, power loss at every position of its trace. Concurrent part: get || set and set || set of one key on the '
            'real KeyValueStorage under the C18 scheduler, every schedule up to 1 (quick) / 2 (thorough) preemptions, '
            'linearizability with every returned set taking effect, then every crash image of the complete trace. The memfs trace is checked against strace of the same '
            'history on a real directory.',
            'The persistence model is a model of POSIX, not of one kernel; root directory assumed durable; '
            'kill-at-boundary runs (thorough) keep the page cache.',
            'DESIGN.md §3 C17, Appendix D'),
    'C18': ('E2-sched', 'model_checking',
            'stateless model checking of the real FileCache under a controlled scheduler: all thread interleavings up '
            'to a preemption bound, brute-force linearizability check per execution',
            'Real FileCache with its lock, executor and file system replaced by scheduler-controlled versions; all '
            'schedules with <= 1 (quick) / <= 2 (thorough) preemptions of 12 / ~100 small thread configurations; every '
            'execution is checked for deadlock, escaped exceptions, linearizability against a register model, and '
            'disk = cache = last update, accounting = sum of entries at quiescence.',
            'Switches only at scheduling points (lock, submit, task start, between a task function\'s return and the completion of its future, future wait, each file-system call, '
            'unlocked accesses to the shared fields); more threads/operations/preemptions than the bound are not '
            'covered. PandasDataFrameCache.update retry loop is not explored concurrently.',
            'DESIGN.md §3 C18, Appendix B, F'),
}

CHECKS['C20'] = (
    'E1-bfs', 'model_checking',
    'exhaustive enumeration of route tables x request histories against real .web servers on loopback, and of '
    'websocket message sequences against the real .ws client, vs. a route-table model and call log',
    'All subsets of 3 GET + 3 POST routes (quick: 8) x all request sequences up to the bound (every registered route '
    'x parameter dictionaries incl. non-ASCII / URL-encoded / empty values / values that look percent-encoded, wrong method, unknown path, raising handler), handler '
    'redefinition and .webc; every sequence of <= 3 websocket messages over the JSON kinds. Each response, the '
    'Klong-side log and the exactly-once property are compared with the model.',
    'Real aiohttp/websockets, real loops, sequential requests: exhaustive over tables and histories, not over '
    'schedules. Built by a sub-agent from DESIGN.md.',
    'DESIGN.md §3 C20')

CHECKS['C04'] = (
    'E1-bfs', 'model_checking',
    'explicit-state enumeration of ALL statement histories (no state merging) on the real interpreter with warm caches '
    'vs. a fresh interpreter loaded with a copy of the pre-state (differential) + frame condition',
    'Every sequence of up to 3 (quick) / 4 (thorough, reduced alphabet at depth 4) statements over an alphabet of 42 '
    'colliding texts (assignments, amend / amend-in-depth, sub-list producing verbs, function definitions and calls, '
    'repeated texts, module switches, dictionary literals, compiled expressions, a gradient of a literal). For every '
    'statement: interpreter A (caches warm) vs. fresh interpreter B loaded with a deep copy of A\'s pre-state; same '
    'result, same post-state, and no variable other than the assigned one changes.',
    'A and B share a process (module-level state would be invisible); NumPy view relations are deliberately not '
    'carried into B. Built by a sub-agent from DESIGN.md.',
    'DESIGN.md §3 C04')
CHECKS['C19'] = (
    'E1-bfs', 'model_checking',
    'explicit-state BFS over table operation histories on the real Table/.db vs. a list-of-rows reference model',
    'All histories up to 4 (quick) / 5 (thorough) operations after creation (single and batch inserts incl. same key '
    'twice and existing keys, column reads, count, schema, print, index on one/two columns, reset index, add column, '
    'SQL select/count/sum) on tables of 1-3 columns; every Klong-level result is compared with the model after every '
    'step; states merged on model + real fields incl. the insert buffer and column dtypes.',
    'pandas/duckdb are environment; numbers compared by value (unindexed commits homogenise dtypes). Built by a '
    'sub-agent from DESIGN.md.',
    'DESIGN.md §3 C19')


CHECKS['C02'] = (
    'E1-bfs', 'model_checking',
    'complete product enumeration of adverb forms x verbs x operands (and all two-adverb chains) on the real '
    'interpreter vs. the definitional expansion assembled from separately evaluated plain applications',
    '16 adverb forms x a closed verb set (every arithmetic/comparison/join operator, the equivalent lambdas, '
    'non-commutative and non-associative lambdas, projections, Python callables) x operands (atoms, strings, vectors of '
    'length 0..5, matrices, nested lists, dictionaries) plus all two-adverb chains, evaluated as source text; the '
    'expected value is the adverb definition of mc/ref/adverbs.py written out over plain applications that the '
    'implementation evaluates separately (twin interpreter with the expression compiler off for lambdas).',
    'Judged only where every plain application of the expansion lies in the reference domain of the verb and the '
    'implementation agrees with the reference on it (C01 findings are not reported twice); expansions that do not '
    'terminate within 50 steps are never executed. Built by a sub-agent from DESIGN.md.',
    'DESIGN.md §3 C02')
CHECKS['C03'] = (
    'E1-bfs', 'model_checking',
    'complete enumeration of function bodies x argument tuples x call forms, of projection fill plans, of fault '
    'positions x call depths and of the truth universe on the real interpreter vs. textual substitution / pre-call '
    'snapshot / fresh twin',
    'Every expression tree up to the node bound over {x y z, literals, a global} and six operators, as a function, '
    'called with every argument tuple through every call form (direct, via variable, @, as verb of each adverb, .f '
    'recursion) and compared with the textually substituted body; every fill plan of dyad/triad projections in any '
    'hole order; a raising callable at every sub-expression position inside 1-3 nested calls (variables, context depth '
    'and follow-up programs must be as if the call had not happened); conditionals over the truth universe with '
    'logging branches; recursion through .f in functions that declare locals; assignments to x, y, z while globals of '
    'those names exist; projection arguments rebound between the steps; a function used by name as adverb verb whose '
    'name is rebound between two evaluations of the same node.',
    'The oracle is the interpreter itself on the substituted text (no Klong semantics in the harness). The complete '
    'product of 3-node bodies x all tuples x all forms is too large; the layers enumerated (each completely) are '
    'listed in coverage.bounds. Built by a sub-agent from DESIGN.md.',
    'DESIGN.md §3 C03')
CHECKS['C05'] = (
    'E1-bfs', 'model_checking',
    'complete product enumeration of compilable expressions x evaluation positions x bindings x rebinding histories x '
    'backends; subject interpreter vs. twin with klongpy.interpreter.compile_expr stubbed (differential, step by step)',
    'All expressions of the compilable grammar up to the node bound, in every evaluation position (top level, function '
    'body, lambda parameter, operand of a non-compilable verb), for all bindings of a closed universe of scalars, '
    'vectors, matrices, nested and empty lists, with rebinding histories (Klong a::v and Python klong[a]=v, to other '
    'types and shapes), on numpy and torch-cpu: after every evaluation the outcome must equal that of a twin whose '
    'expression compiler is a counting stub returning None.',
    'Interpreter pairs are reused with a checked reset (and a sub-product re-run on brand-new pairs must agree); each '
    'failing case is reduced to its smallest failing sub-case. Known findings: float32 vs float64 intermediate '
    'results on torch, integers beyond int64. Built by a sub-agent from DESIGN.md.',
    'DESIGN.md §3 C05')
CHECKS['C06'] = (
    'E1-bfs', 'exploration',
    'complete product enumeration of differentiable expression trees x grid points x gradient forms x backends vs. '
    'forward-mode dual numbers (exact derivatives)',
    'Every expression tree up to the node bound over the differentiable operations (arithmetic, powers, negation, '
    'reductions, indexing, each, backend math functions, constant^tree, scalar^scalar, identity / reverse / drop / take as '
    'vector functions), at every grid point of its smooth domain (plus 2x2 matrix points in both memory layouts), through f:>p, '
    'p\u2207f, (\u2207f)(p), p\u2202g, .jacobian, loss:>[w b], [w b]\u2202g on numpy (numeric) and torch (autograd); '
    'each answer within the stated tolerance of the dual-number derivative and both backends within the looser one.',
    'Nothing is decided between grid points; points where the inherent error of the method exceeds the tolerance '
    '(conditioning bound computed from the reference alone) are not judged. Built by a sub-agent from DESIGN.md.',
    'DESIGN.md §3 C06')
CHECKS['C07'] = (
    'E1-bfs', 'model_checking',
    'exhaustive fault enumeration: the differentiated function fails at its k-th evaluation for every k, per gradient '
    'form x parameter kind x body x backend, on a fresh real interpreter; typed state snapshots before/after',
    'For every gradient / Jacobian form x parameter kind (float64 vector, int vector, scalar, matrix...) x body '
    '(smooth, wrong shape, unknown name, string, instrumented probe, handing back a stored array) x backend, the probe raises at every possible '
    'invocation index; afterwards the typed snapshot of all scopes, f applied to the point, the same gradient text '
    'again and the gradient after rebinding f must equal those of a clean interpreter.',
    'Snapshot compares Python type, dtype, shape, requires_grad and exact element values; functions by identity. '
    'Built by a sub-agent from DESIGN.md.',
    'DESIGN.md §3 C07')
CHECKS['C08'] = (
    'E1-bfs', 'exploration',
    'complete product enumeration of numeric-core programs up to a node bound x operand bindings, evaluated under '
    'backend=numpy and backend=torch (cpu); differential comparison of values and written text',
    'Every program tree up to 2 (quick) / 3 (thorough, one representative per representation class at level 3) '
    'operator nodes over the numeric core (atomic dyads, join/index/take/drop, negate/floor/reverse/each, over and '
    'scan) with leaves bound to integer and real scalars, vectors and matrices: when both backends return, same shape, '
    'same integer/real kind, elements equal to single-precision rounding and identical written text; programs of the '
    'expression compiler grammar with conforming operands must be accepted by both.',
    'Tolerance weakenings are listed in the evidence (cancellation, float32 range, discontinuous operators on operands '
    'that already differ by rounding). Known findings: int64 overflow, float32 powers. Built by a sub-agent from '
    'DESIGN.md.',
    'DESIGN.md §3 C08')
CHECKS['C12'] = (
    'E1-bfs', 'exploration',
    'complete enumeration of token strings up to a length bound and of single/double token edits of the .kg corpus '
    'through the real parser, with a call-count budget, double parse and twin evaluation',
    'Every concatenation of <= 2 (quick) / <= 3 (thorough) tokens of a 54-token alphabet covering every lexeme class, '
    'in the default module and inside a module; every single token edit of every corpus line (quick: of one representative per token skeleton among the hand-written lines of <= 24 tokens; thorough also: double edits '
    'of one representative per token skeleton); generated long inputs. Per case: Python-level calls counted against '
    '200*(n+2)^2 under a watchdog; second parse must end the same way with a structurally identical tree; the first '
    'tree must be unchanged; both trees evaluate to the same outcome in twin interpreters.',
    'Texts naming system functions are parsed but not evaluated. Built by a sub-agent from DESIGN.md.',
    'DESIGN.md §3 C12')

NOT_YET ='check not built yet in this session (work in progress; see DESIGN.md for the planned exploration)'

ALL = ['C%02d' % i for i in range(1, 21)]
PENDING = set()     # checks that are built but not yet claimed


def main():
    checks = []
    for pid in ALL:
        if pid not in CHECKS or pid in PENDING:
            continue
        engine, cat, tech, text, note, ref = CHECKS[pid]
        checks.append({
            'property_id': pid,
            'quick_cmd': './check %s --tier quick' % pid,
            'thorough_cmd': './check %s --tier thorough' % pid,
            'evidence_file': 'evidence/%s.json' % pid,
            'replay_cmd_template': './check %s --replay {path}' % pid,
            'engine': engine,
            'level_claimed': {'category': cat, 'text': text, 'design_ref': ref},
            'level_note': note,
            'technique': tech,
        })
    man = {
        'version': 1,
        'setup_cmd': './check --selftest',
        'hooks': {
            'guard': 'KLONGPY_VERIF',
            'enable': 'no source hooks: every seam (locks, executors, open/os, clocks, uuid4, compile_expr, '
                      'run_coroutine_threadsafe) is reached by attribute assignment from the harness; ./check exports '
                      'KLONGPY_VERIF=1 and PYTHONPATH=/repo so the current working tree is what runs',
            'baseline_off_cmd': 'cd /repo && /venv/bin/python -m pytest -q -p no:cacheprovider --timeout=900',
            'source_commits': [],
            'add_only': True,
        },
        'engines': [
            {'name': 'E1-bfs', 'path': 'mc/bfs.py', 'serves_properties': [p for p, c in CHECKS.items() if p not in PENDING and c[0] == 'E1-bfs'],
             'kind_free_text': 'explicit-state search over the real transition function (history = state), layered BFS, '
                               'canonical-state merging, 16-way fan-out'},
            {'name': 'E2-sched', 'path': 'mc/sched.py', 'serves_properties': [p for p, c in CHECKS.items() if p not in PENDING and c[0] == 'E2-sched'],
             'kind_free_text': 'controlled (baton) scheduler for real threads, preemption-bounded stateless DFS with '
                               'prefix replay; deadlock / livelock verdicts; divergence on replay is a harness error'},
            {'name': 'E3-vloop', 'path': 'mc/vloop.py', 'serves_properties': [p for p, c in CHECKS.items() if p not in PENDING and c[0] == 'E3-vloop'],
             'kind_free_text': 'virtual-time asyncio event loop; environment answers (dispatch latency, stream '
                               'fragmentation, faults) enumerated with a deviation bound'},
            {'name': 'E4-crash', 'path': 'mc/props/c17_crash.py', 'serves_properties': [p for p, c in CHECKS.items() if p not in PENDING and c[0] == 'E4-crash'],
             'kind_free_text': 'crash-image enumeration over an in-memory file system with an operation log'},
        ],
        'checks': checks,
        'not_applicable': [{'property_id': p, 'reason': NOT_YET} for p in ALL if p not in CHECKS or p in PENDING],
        'notes': 'Technique family: model checking (bounded exhaustive exploration of the real implementation). '
                 'Known genuine defects that are not repaired are listed in known_findings.json.',
    }
    with open(os.path.join(HERE, 'MANIFEST.json'), 'w') as f:
        json.dump(man, f, indent=1)
        f.write('\n')


if __name__ == '__main__':
    main()

#!/usr/bin/env python3
"""Regenerates /verif/MANIFEST.json from the table below (so that it stays valid at all times)."""
import json
import os

HERE = os.path.dirname(os.path.dirname(os.path.abspath(__file__)))

# id -> (engine, category, technique, level text, level_note, design_ref)
CHECKS = {
    'C10': ('E1-bfs', 'model_checking',
            'explicit-state BFS over operation histories on the real interpreter vs. reference dict model',
            'All dictionary operation histories up to the stated depth over keys of every hashable kind, aliases and '
            'literal-holding functions are executed on the real interpreter; result and full reachable dictionary state '
            'are compared with a tagged-key Python dict model after every step. Exhaustive within the alphabet/depth.',
            'States are merged on model contents + alias relation + called-literal set; histories longer than the depth '
            'bound and keys/values outside the alphabet are not covered. Known finding: 0cX and "X" are one key.',
            'DESIGN.md §3 C10'),
}

NOT_YET = 'check not built yet in this session (work in progress; see DESIGN.md for the planned exploration)'

ALL = ['C%02d' % i for i in range(1, 21)]


def main():
    checks = []
    for pid in ALL:
        if pid not in CHECKS:
            continue
        engine, cat, tech, text, note, ref = CHECKS[pid]
        checks.append({
            'property_id': pid,
            'quick_cmd': './check %s --tier quick' % pid,
            'thorough_cmd': './check %s --tier thorough' % pid,
            'evidence_file': 'evidence/%s.json' % pid,
            'replay_cmd_template': './check %s --replay {path}' % pid,
            'engine': engine,
            'level_claimed': {'category': cat, 'text': text, 'design_ref': ref},
            'level_note': note,
            'technique': tech,
        })
    man = {
        'version': 1,
        'setup_cmd': './check --selftest',
        'hooks': {
            'guard': 'KLONGPY_VERIF',
            'enable': 'no source hooks: every seam (locks, executors, open/os, clocks, uuid4, compile_expr, '
                      'run_coroutine_threadsafe) is reached by attribute assignment from the harness; ./check exports '
                      'KLONGPY_VERIF=1 and PYTHONPATH=/repo so the current working tree is what runs',
            'baseline_off_cmd': 'cd /repo && /venv/bin/python -m pytest -q -p no:cacheprovider --timeout=900',
            'source_commits': [],
            'add_only': True,
        },
        'engines': [
            {'name': 'E1-bfs', 'path': 'mc/bfs.py', 'serves_properties': ['C10'],
             'kind_free_text': 'explicit-state search over the real transition function (history = state), layered BFS, '
                               'canonical-state merging, 16-way fan-out'},
        ],
        'checks': checks,
        'not_applicable': [{'property_id': p, 'reason': NOT_YET} for p in ALL if p not in CHECKS],
        'notes': 'Technique family: model checking (bounded exhaustive exploration of the real implementation). '
                 'Known genuine defects that are not repaired are listed in known_findings.json.',
    }
    with open(os.path.join(HERE, 'MANIFEST.json'), 'w') as f:
        json.dump(man, f, indent=1)
        f.write('\n')


if __name__ == '__main__':
    main()

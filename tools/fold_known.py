#!/usr/bin/env python3
"""Triage aid: fold --dump-violations files of one property into known_findings.json, one entry per `group` label of the
check, with the root-cause description given in DESCRIPTIONS below (a group without a description is refused: every known
finding must have been looked at).  Replaces the cases of the groups it writes.

    tools/fold_known.py C08 /dev/shm/sweep3/C08.quick.json /dev/shm/sweep3/C08.thorough.json
"""
import json
import os
import sys

HERE = os.path.dirname(os.path.dirname(os.path.abspath(__file__)))
sys.path.insert(0, HERE)
from mc import triage      # noqa: E402

DESCRIPTIONS = {
    'C03': {
        'projection-arguments-evaluated-at-call-time':
            'The fixed arguments of a projection are kept as expressions and evaluated when the last hole is filled (and again '
            'on every call): g::f(a;);a::2;g(5) uses a=2, a fixed argument with a side effect runs on every call, and a '
            'function that returns a projection of its own parameter ({f(x;)}; also in function position: {x(10;)}(sub)@3) cannot be called. By substitution the '
            'projection stands for the body with the value the argument had when it was supplied. Repair not small: '
            'stored arguments are syntax (the interpreter evaluates every argument at the final call and has no way to '
            'mark an argument as already evaluated - see also the C09 finding about values that are resolved again).',
    },
    'C15': {
        'stale-callback': 'A timer whose callback was passed under a second name of the same function (al::cb; '
                          '.timer("t";1;al)) follows redefinitions of the FIRST name bound to that function object (cb), not of '
                          'the name it was given: the timer receives the function value, the wrapper recovers "its" name by '
                          'searching the context for the object and takes the first hit. Repair not small: the name used at the '
                          'call site is not available to a system function (arguments are evaluated before the call).',
    },
    'C05': {
        'torch-power-rounding': 'PyTorch backend: a compiled sub-expression of Python numbers ((0+0.5), (0.5*a) with a '
                                'Python float a) stays a double, the interpreter computes the same sub-expression as a float32 '
                                'tensor, so the Power / Divide applied to it differs in the last digits. Repair not small: the '
                                'interpreter turns scalar arithmetic into float32 tensors throughout the torch backend.',
        'power-inf-or-overflow': 'integers beyond int64 (2^a^a with a::4): compiled code computes with exact Python integers, '
                                 'the interpreter hands them to NumPy and raises OverflowError. Repair not small: the NumPy '
                                 'representation has no big integers.',
        'other:binop-:value-vs-error:int/int': 'a variable holding an integer beyond int64 (a::2^64): compiled a-2 is exact Python '
                                               'arithmetic, interpreted subtraction raises OverflowError (no big integers in NumPy).',
    },
    'C06': {
        'torch-jacobian-silent-numeric-fallback': '[w b]∂g on the PyTorch backend where g joins scalar tensors ({(w@0),b}): Join '
                                                  'of 0-dimensional tensors that require grad fails inside kg_asarray, jacobian_of_fn '
                                                  'catches the exception and silently answers with a numeric Jacobian evaluated '
                                                  'through float32 (0.953674 instead of 1). Repair not small: Join assembles its '
                                                  'result through NumPy.',
    },
    'C08': {
        'torch-compiled-power-negative-exponent-stays-integer': 'Power turns a whole result into an integer: after float32 '
                                                                'rounding a result is whole on torch (81) and not on numpy '
                                                                '(81.00000000000001), so the integer/real kind differs.',
        'power-int64-overflow': 'nested integer powers beyond int64: numpy converts the overflowing double to the smallest '
                                'integer, torch to 0 / inf.',
        'compiled-power-skips-integer-normalisation': 'nested powers beyond int64 / float32 range: numpy returns integers with an '
                                                      'overflowed element, torch reals with inf.',
        'torch-index-by-numpy-0d-integer-returns-whole-list': 'd@(b,f)@0 on torch: an element taken from a mixed list is a '
                                                              '0-dimensional NumPy array; Index with it returns the whole list.',
        'mixed-object-list-displays-integers-numpy-only': 'a list joined from integers and reals through Drop/Join keeps integer '
                                                          'elements on numpy (object array) and is all real on torch: the written '
                                                          'text differs ("[1 2 3 1.5 ...]" vs "[1.0 2.0 3.0 1.5 ...]").',
        'join-empty-operand-kind': 'Join with an empty operand: integer kind kept on one backend only.',
        'unclassified': 'same root cause as the group above inside a ragged list: 3^(...)^e has the element 28511469.7 on numpy and '
                        'the whole float32 value 28511470, turned into an integer, on torch (kind differs).',
    },
}


def main():
    pid, dumps = sys.argv[1], sys.argv[2:]
    groups = {}
    for p in dumps:
        for v in json.load(open(p)):
            groups.setdefault(v.get('group') or 'unclassified', set()).add((v['key'], v['observed']))
    desc = DESCRIPTIONS.get(pid, {})
    missing = [g for g in groups if g not in desc]
    if missing:
        sys.exit('no description for group(s): %s' % missing)
    d = triage.load()
    d['entries'] = [e for e in d['entries'] if not (e.get('property') == pid and e.get('status') == 'known'
                                                    and e.get('group') in groups)]
    for g, cases in sorted(groups.items()):
        d['entries'].append({'status': 'known', 'property': pid, 'group': g, 'description': desc[g],
                             'cases': [list(c) for c in sorted(cases)]})
        print('%s %s: %d cases' % (pid, g, len(cases)))
    triage.save(d)


if __name__ == '__main__':
    main()

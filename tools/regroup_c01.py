#!/usr/bin/env python3
"""Triage aid for C01: replace the cases of the per-verb known-finding groups by what the two --dump-violations files
(quick and thorough, both required) contain now.  A group keeps its description (every description was written when the
group was first looked at); a verb that has violations but no entry is refused, a group without remaining cases is dropped.

    tools/regroup_c01.py /dev/shm/sweep/quick/C01.json /dev/shm/sweep/thorough/C01.json
"""
import json
import os
import sys

HERE = os.path.dirname(os.path.dirname(os.path.abspath(__file__)))
sys.path.insert(0, HERE)
from mc import triage      # noqa: E402


def main():
    by = {}
    for p in sys.argv[1:]:
        for v in json.load(open(p)):
            g = 'verb ' + v['group'].split(' ', 1)[1] if v['group'] != 'undefined' else 'undefined'
            by.setdefault(g, set()).add((v['key'], v['observed']))
    d = triage.load()
    have = {e['group']: e for e in d['entries'] if e.get('property') == 'C01' and e.get('status') == 'known'}
    missing = sorted(set(by) - set(have))
    if missing:
        sys.exit('no description for groups %s: look at them first' % missing)
    for g, e in have.items():
        before = len(e['cases'])
        e['cases'] = [list(c) for c in sorted(by.get(g, ()))]
        print('%-10s %5d -> %5d' % (g, before, len(e['cases'])))
    d['entries'] = [e for e in d['entries'] if not (e.get('property') == 'C01' and e.get('status') == 'known' and not e['cases'])]
    triage.save(d)


if __name__ == '__main__':
    main()

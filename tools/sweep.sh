#!/bin/bash
# Run every check of one tier in sequence, keeping logs and violation dumps under /dev/shm/sweep/<tier>/ (triage aid).
#   tools/sweep.sh quick|thorough [IDs...]
tier=${1:-quick}; shift
ids=${@:-C01 C02 C03 C04 C05 C06 C07 C08 C09 C10 C11 C12 C13 C14 C15 C16 C17 C18 C19 C20}
out=/dev/shm/sweep/$tier; mkdir -p $out
cd "$(dirname "$0")/.."
for c in $ids; do
  s=$(date +%s)
  ./check $c --tier $tier --dump-violations $out/$c.json > $out/$c.log 2>&1
  echo "$c exit=$? wall=$(( $(date +%s) - s ))s $(grep -c '^KNOWN-FINDING' $out/$c.log) known-lines; $(grep "tier=" $out/$c.log | sed 's/.*known=/known=/')" | tee -a $out/summary
done

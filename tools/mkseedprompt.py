#!/venv/bin/python
"""Write the prompt for a seeding sub-agent: tools/mkseedprompt.py <ID> <wave letter> -> /tmp/seedprompts/<ID><wave>.txt

The agent gets the property's JSON only (nothing about /verif), its own worktree /tmp/seed_<ID><wave>, and one-line
summaries of the seeds that already exist for the property (so that it picks another mechanism)."""
import glob
import json
import os
import sys

pid, wave = sys.argv[1], sys.argv[2]
tag = pid + wave
wt = '/tmp/seed_' + tag
prop = next(json.loads(l) for l in open('/verif/properties.jsonl') if json.loads(l)['id'] == pid)
existing = []
for d in sorted(glob.glob('/verif/seeded/%s*/meta.json' % pid)):
    m = json.load(open(d))
    s = ' '.join(str(m.get('summary', '')).split())
    existing.append('  - ' + s[:260])
avoid = ''
if existing:
    avoid = ('Other seeded bugs for this property already exist; do NOT produce a variant of any of them - pick a different '
             'mechanism, ideally a different function or a different dimension of the property\'s quantifier (another operation, '
             'operand shape or kind, evaluation position, backend, interleaving, fault position, multi-step history, rebinding, '
             'configuration...). Prefer a corner of the property that none of the existing ones touches. The existing ones are:\n'
             + '\n'.join(existing) + '\n\n')
text = f'''You are helping to evaluate a verification harness for the Python project klongpy (a Klong array-language interpreter on NumPy). Your job: write ONE realistic, subtle, property-breaking change ("seeded bug") to the klongpy source code.

Your private scratch git worktree of the repository is {wt} (detached HEAD). Work ONLY there. Never touch /repo, /verif or any other directory (reading /repo is pointless: your worktree is identical). Do not run 'git stash', 'git commit', 'git checkout' of other trees or any git command that affects anything outside your worktree; leave your change as an UNCOMMITTED modification of files under {wt}/klongpy/.

Run Python as: cd {wt} && PYTHONPATH={wt} /venv/bin/python ...   (so that your worktree's klongpy is imported; check klongpy.__file__ once). No network is available. The machine is shared and busy: be patient with slow commands and never use pkill -f.

THE PROPERTY your change must break (this is all you get; it is a semantic guarantee users rely on):

{json.dumps(prop, indent=1, ensure_ascii=False)}

{avoid}REQUIREMENTS
1. The change must make klongpy violate the property above for some input / program / history / schedule / fault, while the code still imports and the repository's existing test suite still passes:
     cd {wt} && PYTHONPATH={wt} /venv/bin/python -m pytest -q -p no:cacheprovider --timeout=900 tests
   (about 710 tests, 40-120 s; tests/test_cli_exit.py::test_exit_from_file and tests/test_sys_fn_timer.py::test_timer_return_1_cancel are known to be flaky/failing independent of your change - ignore those two only; if another real-time test (timer, web, ipc) fails once under load, re-run that test file alone before concluding.)
2. It must be REALISTIC: the kind of slip a maintainer could make in a refactoring, optimisation or bug fix (an off-by-one in a cursor, a cache key that forgets a component, a shortcut taken for one more case than it is valid for, state restored on the normal path but not the error path, a condition that is slightly too wide or too narrow, two sites that each look fine alone...). NOT a sabotage like "if x == 42: return wrong".
3. It must need something SPECIFIC to manifest - a particular operand shape/type, a multi-step sequence of operations, a second evaluation, a particular nesting, an error at a particular point, a rebinding - not something ordinary use would expose at once. The smaller and more plausible the diff the better (typically 1-10 changed lines).
4. Write a demonstration {wt}/demo_{tag}.py: a small stand-alone program (plain Python using klongpy, no pytest needed; for schedule-, timing- or crash-dependent bugs force the window deterministically, e.g. by wrapping/patching a function from the demo to pause at the critical point, by a fake event loop/stream/clock, or by simulating the crash) that exits 0 on the unmodified code and exits 1 (printing what went wrong) with your change. Verify BOTH: run it with your change (must exit 1), then save your diff (git -C {wt} diff -- klongpy > {wt}/p.patch), revert (git -C {wt} checkout -- klongpy), run the demo (must exit 0), re-apply (git -C {wt} apply p.patch) and run it again (exit 1). The demo must be deterministic (same exit code on 3 consecutive runs).
5. Write {wt}/seed_meta.json: {{"property": "{pid}", "summary": "<what the change does and why it breaks the property>", "needs": "<what exactly is needed for it to manifest>", "files": ["klongpy/..."], "ran": ["<commands you ran and their results, incl. the test-suite result line>"]}}.
6. Leave the worktree with your change APPLIED (uncommitted), plus demo_{tag}.py, p.patch and seed_meta.json in its root.

Start by reading the files the property is anchored in (inside your worktree) to find a good place. Think about which inputs the existing tests sample (tests/ directory) so that your change survives them. When done, reply with a short report: the diff, how it manifests, the test-suite result line, and the demo exit codes. If you notice a pre-existing defect of the unmodified code that also violates the property, mention it briefly at the end of your report (do not fix it).
'''
os.makedirs('/tmp/seedprompts', exist_ok=True)
open('/tmp/seedprompts/%s.txt' % tag, 'w').write(text)
print('/tmp/seedprompts/%s.txt' % tag, len(existing), 'existing')

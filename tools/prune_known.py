#!/usr/bin/env python3
"""Triage aid: drop known-finding cases of one property that no longer occur in the given --dump-violations files
(both tiers must be given, otherwise cases only the other tier reaches would be dropped).

    tools/prune_known.py C01 /dev/shm/sweep/quick/C01.json /dev/shm/sweep/thorough/C01.json
"""
import json
import os
import sys

HERE = os.path.dirname(os.path.dirname(os.path.abspath(__file__)))
sys.path.insert(0, HERE)
from mc import triage      # noqa: E402


def main():
    pid, dumps = sys.argv[1], sys.argv[2:]
    seen = set()
    for p in dumps:
        for v in json.load(open(p)):
            seen.add((v['key'], v['observed']))
    d = triage.load()
    dropped = kept = 0
    for e in d['entries']:
        if e.get('property') != pid or e.get('status') != 'known':
            continue
        if 'cases' in e:
            before = len(e['cases'])
            e['cases'] = [c for c in e['cases'] if tuple(c) in seen]
            dropped += before - len(e['cases'])
            kept += len(e['cases'])
    d['entries'] = [e for e in d['entries'] if not (e.get('property') == pid and e.get('status') == 'known'
                                                    and 'cases' in e and not e['cases'])]
    triage.save(d)
    print('%s: kept %d cases, dropped %d stale' % (pid, kept, dropped))


if __name__ == '__main__':
    main()

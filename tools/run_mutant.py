#!/usr/bin/env python3
"""Run one or more checks against a mutated scratch copy of /repo (never /repo itself).

    tools/run_mutant.py <mutant-name | path/to/patch.diff> <CHECK-ID> [<CHECK-ID> ...] [--tier quick] [--keep]

Mutant names come from mutants/candidates.py (old text / new text pairs).  The copy lives under /dev/shm and is removed
afterwards.  Prints, per check, the exit status and the VIOLATION / summary lines.
"""
import os
import shutil
import subprocess
import sys

HERE = os.path.dirname(os.path.dirname(os.path.abspath(__file__)))
sys.path.insert(0, os.path.join(HERE, 'mutants'))


def main():
    args = [a for a in sys.argv[1:] if not a.startswith('--')]
    tier = 'quick'
    if '--tier' in sys.argv:
        tier = sys.argv[sys.argv.index('--tier') + 1]
        args.remove(tier)
    name, checks = args[0], args[1:]
    dst = '/dev/shm/klongpy-mut.%d' % os.getpid()
    shutil.rmtree(dst, ignore_errors=True)
    subprocess.check_call(['git', '-C', '/repo', 'worktree', 'add', '-q', '--detach', dst, 'HEAD'])
    try:
        # carry over uncommitted changes of /repo (there should be none)
        if os.path.isfile(name):
            subprocess.check_call(['git', '-C', dst, 'apply', os.path.abspath(name)])
        else:
            from candidates import MUTANTS
            m = [x for x in MUTANTS if x[0] == name]
            if not m:
                sys.exit('unknown mutant ' + name)
            _, rel, old, new = m[0]
            p = os.path.join(dst, rel)
            s = open(p).read()
            if s.count(old) != 1:
                sys.exit('mutant %s does not apply uniquely (%d matches)' % (name, s.count(old)))
            open(p, 'w').write(s.replace(old, new))
        env = dict(os.environ, VERIF_REPO=dst)
        for c in checks:
            r = subprocess.run([os.path.join(HERE, 'check'), c, '--tier', tier], env=env, capture_output=True, text=True)
            lines = [ln for ln in r.stdout.splitlines() if ln.startswith(('VIOLATION', c + ' tier', 'HARNESS', '   key', '   obs'))]
            print('== %s on %s: exit %d' % (c, name, r.returncode))
            for ln in lines[:10]:
                print("   " + ln[:600])
            if r.returncode not in (0, 1):
                print(r.stdout[-1500:], r.stderr[-1500:])
    finally:
        if '--keep' not in sys.argv:
            subprocess.call(['git', '-C', '/repo', 'worktree', 'remove', '--force', dst])
            shutil.rmtree(dst, ignore_errors=True)


if __name__ == '__main__':
    main()
